// Litmus: PTRACE_INTERRUPT is issued while the tracee runs and the tracee executes an int3 before it
// notices. Which stop is reported first? (get_signal() looks at the trap-stop request before it
// dequeues the synchronous SIGTRAP, so the event stop should come first and the SIGTRAP afterwards.)
#define _GNU_SOURCE
#include <stdio.h>
#include <stdlib.h>
#include <unistd.h>
#include <signal.h>
#include <time.h>
#include <sys/ptrace.h>
#include <sys/wait.h>
#include <sys/user.h>

static long long now_ns(void) { struct timespec t; clock_gettime(CLOCK_MONOTONIC, &t); return t.tv_sec * 1000000000LL + t.tv_nsec; }

int main() {
    setvbuf(stdout, 0, _IONBF, 0); alarm(60);
    pid_t c = fork();
    if (c == 0) {
        raise(SIGSTOP);
        for (;;) { for (volatile int i = 0; i < 3000; i++); __asm__ volatile("int3"); }
    }
    int st; waitpid(c, &st, WUNTRACED);
    if (ptrace(PTRACE_SEIZE, c, 0, 0)) { perror("seize"); return 2; }
    kill(c, SIGCONT);
    struct user_regs_struct r; siginfo_t si;
    long after = 0; long long spin_ns = 0;
    int event_first_then_trap = 0, trap_first_then_event = 0, plain = 0, other = 0;
    // calibrate: time between CONT and the next int3 stop
    for (int i = 0; i < 20; i++) {
        waitpid(c, &st, __WALL);
        if (WIFSTOPPED(st) && WSTOPSIG(st) == SIGTRAP && (st >> 16) == 0) { ptrace(PTRACE_GETREGS, c, 0, &r); after = r.rip; }
        long long t0 = now_ns(); ptrace(PTRACE_CONT, c, 0, 0);
        if (i >= 10) { waitpid(c, &st, __WALL); spin_ns += now_ns() - t0; ptrace(PTRACE_GETREGS, c, 0, &r); after = r.rip; i++; ptrace(PTRACE_CONT, c, 0, 0); }
    }
    spin_ns /= 5;
    printf("int3 returns to rip %#lx; one round takes about %lld ns\n", after, spin_ns);
    srand(1);
    for (int it = 0; it < 30000; it++) {
        waitpid(c, &st, __WALL);               // the int3 stop (or a leftover event stop)
        if (!(WIFSTOPPED(st))) break;
        ptrace(PTRACE_CONT, c, 0, 0);
        long long d = spin_ns / 2 + rand() % (spin_ns + 1), t0 = now_ns();
        while (now_ns() - t0 < d);
        ptrace(PTRACE_INTERRUPT, c, 0, 0);
        waitpid(c, &st, __WALL);
        ptrace(PTRACE_GETREGS, c, 0, &r);
        int ev = st >> 16;
        if (ev == PTRACE_EVENT_STOP) {
            if ((long)r.rip == after) {
                // the int3 was executed, yet the event stop came first: is the SIGTRAP still to come?
                ptrace(PTRACE_CONT, c, 0, 0);
                waitpid(c, &st, __WALL);
                ptrace(PTRACE_GETREGS, c, 0, &r); ptrace(PTRACE_GETSIGINFO, c, 0, &si);
                if ((st >> 16) == 0 && WSTOPSIG(st) == SIGTRAP && si.si_code == 0x80 && (long)r.rip == after) {
                    if (++event_first_then_trap <= 3) printf("  event stop at rip %#lx first, then SIGTRAP si_code 0x80 at the same rip\n", after);
                    ptrace(PTRACE_CONT, c, 0, 0);
                } else other++;
            } else { plain++; ptrace(PTRACE_CONT, c, 0, 0); }
        } else if (ev == 0 && WSTOPSIG(st) == SIGTRAP) {
            trap_first_then_event++;
            ptrace(PTRACE_CONT, c, 0, 0);
            waitpid(c, &st, __WALL);           // the surviving event stop
            ptrace(PTRACE_CONT, c, 0, 0);
        } else other++;
    }
    printf("interrupt noticed before the int3: %d; int3 trap stop already entered (trap first, event after): %d; int3 executed but event stop reported first, SIGTRAP afterwards: %d; other: %d\n", plain, trap_first_then_event, event_first_then_trap, other);
    kill(c, SIGKILL);
    return 0;
}
