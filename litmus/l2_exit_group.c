// Litmus: a non-leader thread calls exit_group while the tracer waits for the leader only.
// Shows (a) whether siblings killed by exit_group report PTRACE_EVENT_EXIT, (b) that the leader's
// exit status is held back while the caller sits in its exit stop.
#define _GNU_SOURCE
#include <stdio.h>
#include <stdlib.h>
#include <unistd.h>
#include <signal.h>
#include <pthread.h>
#include <errno.h>
#include <string.h>
#include <sys/ptrace.h>
#include <sys/wait.h>
#include <sys/syscall.h>

static int p[2];
static void *thr(void *a) {
    char b; read(p[0], &b, 1);
    syscall(SYS_exit_group, 3);
    return 0;
}
static void *idle(void *a) { for (;;) pause(); }
static void show(const char *tag, pid_t pid, int st) {
    if (WIFSTOPPED(st)) printf("%s: tid %d stopped sig=%d event=%d\n", tag, pid, WSTOPSIG(st), st >> 16);
    else if (WIFEXITED(st)) printf("%s: tid %d exited %d\n", tag, pid, WEXITSTATUS(st));
    else if (WIFSIGNALED(st)) printf("%s: tid %d killed by %d\n", tag, pid, WTERMSIG(st));
}
static void on_alarm(int s) {}

int main() {
    setvbuf(stdout, 0, _IONBF, 0); alarm(4);
    pipe(p);
    int ready[2]; pipe(ready);
    pid_t c = fork();
    if (c == 0) {
        pthread_t t1, t2;
        pthread_create(&t1, 0, idle, 0);
        pthread_create(&t2, 0, thr, 0);
        write(ready[1], "r", 1);
        for (;;) pause();
    }
    char b; read(ready[0], &b, 1);
    usleep(50000);
    // seize every thread
    char path[64]; snprintf(path, sizeof path, "ls /proc/%d/task", c);
    FILE *f = popen(path, "r"); int tids[8], n = 0;
    while (n < 8 && fscanf(f, "%d", &tids[n]) == 1) n++;
    pclose(f);
    for (int i = 0; i < n; i++)
        if (ptrace(PTRACE_SEIZE, tids[i], 0, PTRACE_O_TRACECLONE | PTRACE_O_TRACEEXIT)) perror("seize");
    printf("seized %d threads, leader %d\n", n, c);
    write(p[1], "x", 1);            // thread 2 now calls exit_group(3)
    usleep(100000);
    struct sigaction sa = {0}; sa.sa_handler = on_alarm; sigaction(SIGALRM, &sa, 0);
    int st;
    alarm(1);
    pid_t r = waitpid(c, &st, __WALL);
    if (r < 0) printf("waitpid(leader) blocked for 1 s: %s\n", strerror(errno));
    else show("waitpid(leader)", r, st);
    alarm(0);
    for (;;) {
        alarm(1);
        r = waitpid(-1, &st, __WALL);
        alarm(0);
        if (r < 0) { printf("waitpid(-1): %s\n", strerror(errno)); break; }
        show("waitpid(-1)", r, st);
        if (WIFSTOPPED(st)) ptrace(PTRACE_CONT, r, 0, 0);
    }
    return 0;
}
