// Litmus: a traced thread creates a thread; the tracer looks late. In which order does waitpid(-1)
// hand out the parent's PTRACE_EVENT_CLONE and the child's initial PTRACE_EVENT_STOP, and can the
// child run to completion and be reaped while the parent's clone event is still unconsumed?
#define _GNU_SOURCE
#include <stdio.h>
#include <stdlib.h>
#include <unistd.h>
#include <signal.h>
#include <pthread.h>
#include <string.h>
#include <errno.h>
#include <sys/ptrace.h>
#include <sys/wait.h>
#include <sys/syscall.h>

static int p[2];
static void *quick(void *a) { return 0; }
static void show(const char *tag, pid_t pid, int st) {
    if (WIFSTOPPED(st)) printf("%s: tid %d stopped sig=%d event=%d\n", tag, pid, WSTOPSIG(st), st >> 16);
    else if (WIFEXITED(st)) printf("%s: tid %d exited %d\n", tag, pid, WEXITSTATUS(st));
    else if (WIFSIGNALED(st)) printf("%s: tid %d killed by %d\n", tag, pid, WTERMSIG(st));
}
int main() {
    setvbuf(stdout, 0, _IONBF, 0); alarm(4);
    pipe(p);
    pid_t c = fork();
    if (c == 0) {
        char b; read(p[0], &b, 1);
        pthread_t t; pthread_create(&t, 0, quick, 0);
        pthread_join(t, 0);
        _exit(0);
    }
    if (ptrace(PTRACE_SEIZE, c, 0, PTRACE_O_TRACECLONE | PTRACE_O_TRACEEXIT)) { perror("seize"); return 2; }
    printf("leader %d\n", c);
    write(p[1], "x", 1);
    usleep(100000);               // both the clone event and the child's first stop are pending now
    int st, leader_clone_seen = 0;
    for (int i = 0; i < 12; i++) {
        pid_t r = waitpid(-1, &st, __WALL);
        if (r < 0) { printf("waitpid: %s\n", strerror(errno)); break; }
        show("waitpid(-1)", r, st);
        if (r == c && WIFSTOPPED(st) && (st >> 16) == PTRACE_EVENT_CLONE) {
            leader_clone_seen = 1;
            unsigned long msg = 0; ptrace(PTRACE_GETEVENTMSG, c, 0, &msg);
            int st2; pid_t r2 = waitpid((pid_t)msg, &st2, __WALL);
            if (r2 < 0) printf("  clone event announces tid %lu; waitpid(that tid): %s\n", msg, strerror(errno));
            else show("  waitpid(new tid)", r2, st2);
        }
        if (WIFSTOPPED(st)) {
            if (r != c || leader_clone_seen) { ptrace(PTRACE_CONT, r, 0, 0); usleep(50000); }
            // a stop of the leader before we have looked at everything else is left unresumed only
            // when it is not the clone event (never happens here)
        }
        if (r == c && WIFEXITED(st)) break;
    }
    return 0;
}
