// Litmus: PTRACE_INTERRUPT issued while the tracee already sits in an (unreported) int3 trap stop.
// Prints the sequence of wait statuses seen when the tracee is then resumed with SINGLESTEP / CONT.
#define _GNU_SOURCE
#include <stdio.h>
#include <stdlib.h>
#include <unistd.h>
#include <signal.h>
#include <sys/ptrace.h>
#include <sys/wait.h>
#include <sys/user.h>

static void show(const char *tag, pid_t pid, int st) {
    siginfo_t si; si.si_code = 0;
    if (WIFSTOPPED(st)) {
        ptrace(PTRACE_GETSIGINFO, pid, 0, &si);
        struct user_regs_struct r; ptrace(PTRACE_GETREGS, pid, 0, &r);
        printf("%s: stopped sig=%d event=%d si_code=%#x rip_off=%lld\n", tag, WSTOPSIG(st), st >> 16, si.si_code, (long long)r.rip);
    } else if (WIFEXITED(st)) printf("%s: exited %d\n", tag, WEXITSTATUS(st));
    else printf("%s: status %#x\n", tag, st);
}

int main(int argc, char **argv) {
    int use_step = argc > 1 && argv[1][0] == 's';
    int p[2]; pipe(p);
    pid_t c = fork();
    if (c == 0) {
        char b; read(p[0], &b, 1);
        __asm__ volatile("int3; nop; nop; nop");
        _exit(7);
    }
    if (ptrace(PTRACE_SEIZE, c, 0, PTRACE_O_TRACECLONE | PTRACE_O_TRACEEXIT)) { perror("seize"); return 2; }
    write(p[1], "x", 1);
    usleep(100000);               // the child is now in its int3 trap stop, not yet waited for
    if (ptrace(PTRACE_INTERRUPT, c, 0, 0)) perror("interrupt");
    int st;
    waitpid(c, &st, __WALL); show("after interrupt, wait #1", c, st);
    if (ptrace(use_step ? PTRACE_SINGLESTEP : PTRACE_CONT, c, 0, 0)) perror("resume");
    waitpid(c, &st, __WALL); show(use_step ? "after SINGLESTEP, wait #2" : "after CONT, wait #2", c, st);
    if (WIFSTOPPED(st)) {
        ptrace(use_step ? PTRACE_SINGLESTEP : PTRACE_CONT, c, 0, 0);
        waitpid(c, &st, __WALL); show("wait #3", c, st);
    }
    kill(c, SIGKILL);
    return 0;
}
