#!/bin/bash
# Runs the repository's pinned test baseline with the `verif` feature OFF and checks that every
# test in BASELINE.json's stable_pass list passes.
set -u
cd /repo || exit 2
export CARGO_NET_OFFLINE=true
if [ -f /w/lib/nextest.toml ] && cargo nextest --version >/dev/null 2>&1; then
  cargo nextest run --workspace --no-fail-fast --tool-config-file pb:/w/lib/nextest.toml --profile pb --test-threads 8 --offline >/tmp/baseline_off.log 2>&1
  JUNIT=/repo/target/nextest/pb/junit.xml
  python3 - "$JUNIT" <<'PY'
import sys, json, xml.etree.ElementTree as ET
base = json.load(open('/root/.vp/BASELINE.json'))
want = set(base['stable_pass'])
root = ET.parse(sys.argv[1]).getroot()
passed = set()
for ts in root.iter('testsuite'):
    suite = ts.get('name')
    for tc in ts.iter('testcase'):
        ok = tc.find('failure') is None and tc.find('error') is None and tc.find('skipped') is None
        name = f"{suite}::{tc.get('name')}"
        if ok: passed.add(name)
missing = sorted(want - passed)
print(f"baseline(off): {len(want)-len(missing)}/{len(want)} stable tests pass")
for m in missing: print("  NOT PASSING:", m)
open('/tmp/baseline_off.missing','w').write("\n".join(m.split('::')[-1] for m in missing))
sys.exit(1 if missing else 0)
PY
  RC=$?
  # the DAP integration tests time out when the machine is busy: the ones that did not pass are run
  # once more, two at a time
  if [ $RC -ne 0 ] && [ -s /tmp/baseline_off.missing ]; then
    OUT=$(cargo nextest run --workspace --offline --no-fail-fast --test-threads 1 -E "$(sed 's/.*/test(\/&$\/)/' /tmp/baseline_off.missing | paste -sd'|')" 2>&1 | tail -n 3)
    echo "re-run of the tests that did not pass (one at a time): $OUT"
    echo "$OUT" | grep -q " passed" && ! echo "$OUT" | grep -q "failed\|error" && exit 0
    exit 1
  fi
  exit $RC
else
  cargo test --workspace --no-fail-fast --offline 2>&1 | tail -40
fi
