#!/usr/bin/env python3
"""Generates MANIFEST.json from the table below (kept in one place so it stays valid)."""
import json, subprocess
PROPS = [json.loads(l)["id"] for l in open("/verif/properties.jsonl")]
hooks_commits = subprocess.run(["git","-C","/repo","log","--format=%h %s"],capture_output=True,text=True).stdout.splitlines()
hook_commits = [l.split()[0] for l in hooks_commits if l.split(" ",1)[1].startswith("verif:")]

CHECKS = {
 "C09": dict(engine="E1 simk + E2 e2e (mt)", category="model_checking", technique="stateless model checking of the real tracer core over a simulated ptrace kernel: deviation-bounded exhaustive enumeration of kernel schedules (thread choice at every ptrace/wait call, order of ready wait events, snapshot order, late interrupt notice), kernel rules litmus-tested on the real kernel",
   text="The real Tracer::resume / single_step / TraceeCtl / Breakpoint code runs over a simulated kernel (threads of straight-line programs with spawn, join, exit, exit_group; INT3 patching through POKE; clone/exit/stop events; interrupts that are noticed late; launched and attached flavour of PTRACE_EVENT_STOP). Every execution with at most 4 (quick) / 6 (thorough) deviations from two base schedules is run for 6 (8) thread programs with breakpoints shared by workers, in main, at thread entry, adjacent, with exit storms and exit_group, each also with `stepi` after every stop and a temporary breakpoint armed (step over / step out): at every reported stop no thread runs, the tracer's thread list equals the kernel's live threads, the text carries INT3 exactly at enabled breakpoints, the reported thread sits on the breakpoint before executing it; at exit every executed breakpoint instruction had exactly one report, no instruction ran twice or was skipped, the tracer never hangs, errs or panics. The same oracles run on real-kernel sessions with libc-free multi-threaded debuggees (raw clone).",
   note="Trusted: the kernel model (rules from ptrace(2), litmus programs in /verif/litmus run on this kernel; the real-kernel part binds it). 2-4 threads, programs of 2-6 instructions; N up to 64 threads of the quantifier is not reached. The driver restates Debugger::continue_execution/step_over_breakpoint/single_step_instruction (the Debugger itself needs DWARF and is exercised by the real-kernel part). Real-kernel schedules are the kernel's (sampled), they bind the model and give witnesses, they decide nothing. Four genuine defects were repaired, four are recorded as known findings.",
   design="0.1/E1, 3/C09, App.A"),
 "C19": dict(engine="E2 e2e", category="exploration", technique="enumeration of scope skeletons (nesting, shadowing, recursion) x every stop x every frame, oracle = the generator's static scope model",
   text="Scope skeletons over {let x, let y, nested block} (blocks of up to 3 items, one nesting level, kept if they shadow or nest; quick 10 of them spread over the enumeration, thorough 120) are rendered into a recursive function (depth 3) whose every declaration is followed by a stop line; at every stop of every activation and for every frame of the backtrace the locals shown must contain each innermost live binding with that activation's own value and nothing declared later or in a closed block, `var <name>` must return exactly the innermost live binding, and `arg all` that activation's argument.",
   note="opt-level 0 only (values kept in registers by optimized code and closures are not covered).",
   design="3/C19"),
 "C06": dict(engine="E2 e2e", category="exploration", technique="one generated local per core type form with boundary values; every shown value compared with the generator's table",
   text="45 locals covering every integer width and sign at its bounds, floats, bools, chars (1/2/4-byte), unit, tuples, nested structs, C-like and data-carrying enums (tuple/struct/unit variants), Option<u8>/Option<NonZeroU32>/Option<&T> in both variants (niche encodings), arrays (nested, empty), &str (non-ASCII, empty), references and raw pointers (dereferenced; null) are read with read_local_variables in 1 (quick) / 3 (thorough) toolchain-DWARF configurations and must equal the table the program was generated from, type names of scalars and user types included.",
   note="Core (`no_std`) types only: String, Vec, VecDeque, HashMap/HashSet, BTreeMap/BTreeSet, Box/Rc/Arc, Cell/RefCell, statics and thread-locals need std-linked debuggees and are NOT covered (DESIGN.md section 0.2); no recursive type grammar, one value per form.",
   design="3/C06"),
 "C18": dict(engine="E2 e2e", category="model_checking", technique="explicit-state exploration of breakpoint histories on the same programs linked as classic (non-PIE) and position independent executables",
   text="The C01 exploration (stops = projection of the reference single-step trace, by address / file:line / function, with restart), the text-patch invariant and the backtrace oracle are run on the same generated programs linked non-PIE (ET_EXEC with libc as a dynamic dependency) and PIE; depth 4 (quick: 1 program x 2 link modes) / 5 (thorough: 4 programs x 2 link modes x 2 toolchains).",
   note="Only the PIE / non-PIE half of the property: shared libraries (startup, dlopen/dlclose), deferred breakpoints and `sharedlib info` are not covered (they need std/libc-based debuggees with dlopen, not built in this round).",
   design="3/C18"),
 "C16": dict(engine="E2 e2e (in-worker sweep)", category="exploration", technique="bounded-exhaustive sweep of argument tuples for injected calls at two stop positions, with before/after comparison of registers, text and mappings",
   text="At two stops (main, inside a callee) every call c<k>(args) for k = 0,1,2,3,6 over boundary argument tuples (134 calls quick, 2x350 thorough) is injected with Debugger::call: all registers incl. fs/gs base, the text and /proc/pid/maps are equal before and after, the target's own counter grows by exactly one and its argument checksum matches exactly these arguments; impossible calls fail with no effect; continuing prints exactly the state the calls left plus the native result.",
   note="`vard`/`argd` (Debug-formatting through the program's own fmt code) need std-linked debuggees and are not covered. Libc-free debuggees; arguments are integers and bools (pointer arguments not exercised).",
   design="3/C16"),
 "C04": dict(engine="E2 e2e (in-worker sweep)", category="exploration", technique="bounded-exhaustive sweep of every instruction address, source line and function name of every corpus binary against an independent DWARF reader",
   text="For each binary of the corpus (quick: 4 programs x {1.89 opt0 DWARF4, 1.95 opt1 DWARF5}; thorough: 56 programs x 8 PIE configurations) inside one debugger session: every instruction address of every user function -> function and (file, line) must equal the reference reader's innermost live function and row; every line 1..max+2 under two spellings of the file path -> the addresses of a line breakpoint must be statement rows of that line (of the next line only if the line has none) and every function instance with statements of the line in its body gets one; every function name -> addresses inside live instances, one per instance, at the prologue_end row.",
   note="Trusted: the reference reader (own lookup rules over gimli's row iterator; functions/rows outside executable sections are dead). gcc/assembler-shaped line tables (P-c, P-asm of the design) and non-PIE binaries are not in the corpus.",
   design="3/C04, App.C"),
 "C08": dict(engine="E4 pure", category="exploration", technique="bounded-exhaustive enumeration of console command lines and query expressions through the real parsers with panics caught",
   text="Every command line of up to 3 tokens (thorough: 4) over 81 tokens (all keywords and sub-commands, ten boundary numerals incl. 2^32, 2^64, i64::MIN, 65-bit hex, identifiers, punctuation) through Command::parse and every string of up to 4 (5) tokens over 24 expression tokens through expression::parser(): 0.9 M inputs in the quick tier; a panic is a violation. Ill-typed / missing DAP arguments are exercised by C12's request histories.",
   note="Only parsing is swept here: executing every parsed command at several stop states, arbitrary memory images behind typed casts and the bounds probes (hook H7) are not wired into a check yet.",
   design="3/C08(a)"),
 "C11": dict(engine="E2 e2e (+mt attach) + E1 simk", category="model_checking", technique="explicit-state exploration of command histories ending in drop / detach / restart at every kind of stop",
   text="Histories over breakpoints, start/continue, restart, a hardware watchpoint, and the terminals drop and detach taken from every state (not started, at a breakpoint, after restart, exited) up to depth 6 (quick) / 8: after drop no /proc/<pid> entry remains; after detach the process is not stopped, an independent PTRACE_SEIZE finds text = ELF and no enabled debug-register slot, and the released process runs to the native output and exit code; after restart breakpoints hit again at the reference positions and keep their numbers; the reported exit code is the native one.",
   note="Second part (real kernel): a two-thread program that creates a third thread 120 ms after start is started by the harness and attached to while it runs; 7 prefixes (breakpoint in worker code, at the entry of the late thread, watchpoint on a global, continue) x {detach, quit}: afterwards no task has a TracerPid or sits in a tracing stop, no task has an enabled debug-register slot, text = file, the process finishes with native output and exit code. Third part (E1): the real tracer over the simulated kernel, detach at the first/second/third stop with threads racing to breakpoints and being created, <= 3 (quick) / 5 deviations: the released process is not killed by a leftover trap, no thread stays traced, every instruction runs exactly once. Quit through the console and death by signal are not covered. One defect repaired (threads created during attach were never seized), the leftover-trap kill is a known finding.",
   design="3/C11"),
 "C15": dict(engine="E2 e2e (in-worker sweep)", category="exploration", technique="bounded-exhaustive sweep of (address, length) windows, word writes, register values and breakpoint placements against /proc/pid/mem and PTRACE_GETREGS",
   text="At two stops per program every read window (17 start offsets around a word boundary x lengths 0..17, and every (start, length) inside the last 16 bytes before each unmapped hole) is compared with /proc/pid/mem; word writes at all 8 alignments x 3 values must change exactly 8 bytes; 15 registers x 4 values are written, read back and confirmed by an independent PTRACE_GETREGS with no other register moving; with a breakpoint on every instruction the disassembly must equal the unpatched one; afterwards the program must still finish natively.",
   note="The sweep also runs with a worker thread of a multi-threaded debuggee in focus. DAP writeMemory / setVariable / setExpression are not covered yet (library API only).",
   design="3/C15"),
 "C10": dict(engine="E2 e2e + E1 simk", category="model_checking", technique="explicit-state exploration of command histories over self-signalling programs (real kernel) + deviation-bounded exhaustive schedule enumeration of the real tracer over the simulated kernel with signals landing at any kernel call",
   text="Programs raise SIGUSR1/SIGUSR2 (non-quiet) and SIGALRM (quiet) on themselves, one of them with two signals blocked, raised and unblocked together; every history of breakpoints + start/continue/stepi/step/next/finish up to depth 5 (quick) / 7 is executed: each non-quiet signal must be reported exactly once as a signal stop for the receiving thread in the state just before its handler (or cut a step short and say so), quiet ones never, and the handler counters printed at exit must equal the native run whatever mix of continue and step commands was used (delivered exactly once).",
   note="Real kernel. Signals are raised by the program on itself, plus SIGINT sent from outside while the program is stopped (must be reported, never delivered: the SIGINT handler counter is part of the output). Second part (E1): the real tracer over the simulated kernel, one- and two-thread programs, 1-3 external signals (USR1, USR2, quiet ALRM, SIGINT) sent to chosen threads at any kernel call, user = continue or stepi+continue, <= 3 (quick) / 5 deviations: each signal delivered exactly once to its thread (SIGINT never), reported once unless quiet, injection queue empty at exit; every violation is classified by cause from the kernel-side life of the signal (suppressed by a step, injected at an event stop, ...). Third part: fixed real-kernel witness histories. One defect repaired (quiet signal delivered twice), six signatures recorded as known findings (injection queue).",
   design="3/C10"),
 "C13": dict(engine="E5 dap", category="model_checking", technique="explicit-state exploration of DAP breakpoint-request histories on the real adapter, oracle = reference trace filtered by the latest sets and option semantics",
   text="Histories of initialize/launch/configurationDone/continue/restart interleaved with setBreakpoints (subsets of two lines x {plain, condition true/false/data-query, hitCondition 2 / >=2, logMessage}), setFunctionBreakpoints and setInstructionBreakpoints, each tried before launch, before configurationDone, while stopped and after restart (depth 5 quick / 7); after every resume the stop on the wire and the pc read from /proc must be the next arrival of the reference trace at a location of the latest sets that the options allow; logpoints produce one output per hit; verified = a patch exists in /proc/pid/mem.",
   note="Hit counters across a restart are not judged (unspecified). setDataBreakpoints is not in the alphabet (no hardware delivery in this VM). Conditions are the adapter's language: literals and data queries judged by truthiness.",
   design="3/C13"),
 "C01": dict(engine="E2 e2e", category="model_checking", technique="explicit-state exploration of debugger command histories on the real Debugger and kernel, reference = independent single-step trace",
   text="Every history over {start/continue, add/remove of 3 candidate breakpoints (raw address, the instruction executed right after it, file:line or function)} up to depth 4 (quick) / 6 (thorough) is executed by the real Debugger over generated libc-free Rust programs (loop, recursion, generics, closure); after each continue the stop must be exactly the next arrival of the reference single-step trace at an enabled address (reported pc = PTRACE_GETREGS pc = located trace index), hooks fire once, and the run ends with the native exit code.",
   note="Trusted: reference tracer (own ptrace single-stepper, 3 runs agree), state location by (pc, sp, register hash, stack+data hash). Which address a file:line/function designator resolves to is taken from the debugger's answer (that choice is C04's subject). PIE only; quick = 4 programs x 2 toolchains.",
   design="2/E2, 3/C01"),
 "C02": dict(engine="E2 e2e", category="model_checking", technique="explicit-state exploration of command histories incl. steps, restart and failing commands; invariant on every state",
   text="Same state space as C01 with stepi/step/next/finish, restart and a failing break in the alphabet (depth 3 quick / 4 thorough); after every command the executable's text read from /proc/pid/mem differs from the ELF exactly at the user's breakpoints (+ entry point), and every history that runs to exit produces the native stdout and exit code.",
   note="call/watch/detach are not in this alphabet yet; text comparison covers the main executable's sections.",
   design="3/C02"),
 "C03": dict(engine="E2 e2e", category="model_checking", technique="explicit-state exploration of step-command sequences from every reached stop, oracle = reference trace with shadow call stack + independent line-table reader",
   text="From `main` (and with a user breakpoint inside the stepped ranges) every sequence of stepi/step/next/finish/continue up to depth 5 (quick) / 7 is executed; each landing position is located in the reference trace and checked against the weak specification of the property (stepi = exactly one instruction; finish = first index with smaller depth; next/step = a statement boundary no later than the first boundary on another line of the function's own file in the same activation, next never deeper, reported place = real pc).",
   note="Weak spec on purpose (DESIGN 3/C03): boundaries inside inlined subroutines or in other files are neither required nor forbidden; stepping in code without debug information is unspecified. Four genuine defects are recorded as known findings.",
   design="3/C03, App.C"),
 "C05": dict(engine="E2 e2e", category="model_checking", technique="explicit-state exploration; backtrace compared with the reference tracer's shadow call stack at every reached state",
   text="At every state reached by histories over breakpoints/continue/step commands (depth 4 quick / 6) the backtrace's frame ips must equal pc + the return addresses of the calls really in progress (call/ret tracked by the reference tracer), for all frames up to main; frame_info CFA/return address of frame 0 must match the real stack.",
   note="Second part: through the real DAP adapter a 257-frame stack (recursion 255) is listed and the probed frame ids (quick 11, thorough all 257) must each select their own activation (scopes -> variables show that activation's argument), ids pairwise distinct. Multi-thread backtraces and register reads per frame are not covered. Frames below main (_start, no CFI) must not exist.",
   design="3/C05"),
 "C07": dict(engine="E4 pure", category="exploration", technique="bounded-exhaustive enumeration of expression ASTs through the real parser",
   text="Every Dqe AST up to operator depth 3 (quick) / 4 (thorough) over 3 bases x 19 operators, and every index literal of nesting <= 2, is printed by an independent printer in two renderings and must parse back to the same AST with the real chumsky parser. This decides the 'parsing is a function of the text / documented precedence' half of the property exhaustively within the bound.",
   note="Trusted: the harness's printer implements the documented precedence. The 'meaning' half (evaluation against program values) is decided by the e2e part when present in evidence.parts; if absent it is not claimed.",
   design="3/C07"),
 "C12": dict(engine="E3 sched + E5 dap", category="model_checking", technique="stateless model checking: preemption-bounded exhaustive schedule enumeration of the real session + forwarder threads under an owned scheduler",
   text="(schedules) All interleavings, up to the stated preemption bound, of the real DebugSession::run thread and the two real output-forwarder threads are executed; every wire log is checked for seq = 1,2,3.. in wire order, exactly one matching response per request, every output line exactly once. (histories) Explicit-state search over DAP request histories: 34 request symbols (valid, missing and ill-typed arguments, out of order, repeated, cancel-ahead) are executed from every distinct canonical state of the real adapter with a real debuggee, up to 4 (quick) / 6 state-changing steps; every message is checked by the protocol monitor M1-M11 (one response per request, contiguous seq, resume outcomes, thread/exit/terminated ordering, nothing after terminated, connection stays up).",
   note="Trusted: schedule points bracket every sequence-number allocation and every transport lock; the transport mutex state is read with try_lock (ground truth). Requests that leave the canonical state unchanged are chained inside one session. Envelope-level garbage belongs to C08. Three genuine defects are recorded as known findings.",
   design="2/E3, 3/C12, App.B"),
 "C14": dict(engine="E4 pure + E2 e2e (+mt)", category="model_checking", technique="explicit-state BFS over the full reachable DR7 state space of the real register-encoding code",
   text="All 1.68M DR7 images reachable from 0 under the 48 configure/enable operations are visited; in every state the image equals an independently written Intel-SDM encoder applied to a reference slot table, and dr_enabled agrees.",
   note="Bits 8/9 (LE/GE) are not constrained because the property does not mention them. Second part: real debug registers of every thread read by the harness after every command of an explored history over 7 watchpoint candidates (sizes 1/2/4/8, w/rw, same-address pair, one address that is 4- but not 8-byte aligned), add / remove by number or address / continue / restart, depth 8 (quick) / 10. Third part (E1): the real Tracer + WatchpointRegistry over the simulated kernel whose threads DO take data breakpoints: watchpoints added/removed before the first resume and at stops, threads created before and after, <= 3 (quick) / 5 deviations: registers of every thread = registry at every stop, fifth/duplicate refused without side effects, every hardware hit reported exactly once (two known findings: a hit met during a group stop is absorbed; DR6 of the main thread is copied to all threads). Fourth part: a multi-threaded debuggee (raw clone): watchpoints set before / after the threads exist, with and without restart; DR0-3/DR7 of every task must encode exactly the watchpoint list (inheritance by new threads). Hardware never delivers data breakpoints in this VM, so 'every write stops once and reports old/new value' and scope-end removal of local watchpoints are NOT decided.",
   design="3/C14(a)"),
 "C17": dict(engine="E4 pure", category="model_checking", technique="explicit-state search over insert histories of the real path-suffix index with a Vec reference model",
   text="Every ordered insert sequence up to depth 2 (3 thorough) and every multiset up to depth 3 (4) over 39 '::' paths / 51 '/' paths (incl. rooted) on the real PathSearchIndex; every query of length 1-4 plus near-misses is compared with 'matches iff query components are a suffix'.",
   note="Only the index part so far; components over {a,b,ab}.",
   design="3/C17(a)"),
}
REASONS_NOT_BUILT = "engine for this property is designed (DESIGN.md section 3) but not built yet in this round"
NA = {
 "C06": "needs std collections (String, Vec, HashMap, BTreeMap, Rc, ...): the corpus of this round is libc-free `no_std` (DESIGN.md section 0.2); the value-grammar generator of section 3/C06 is not built",
 "C19": "scope/shadowing program generator of section 3/C19 not built in this round",
 "C20": "no tokio crate in the sealed cargo cache and no tokio example binary: a debuggee containing a tokio runtime cannot be built, so nothing can be enumerated (DESIGN.md section 6)"}

checks = []
for pid in PROPS:
    if pid in CHECKS:
        c = CHECKS[pid]
        checks.append({
            "property_id": pid,
            "quick_cmd": f"./check {pid} --tier quick",
            "thorough_cmd": f"./check {pid} --tier thorough",
            "evidence_file": f"/verif/evidence/{pid}.json",
            "replay_cmd_template": "./check --replay {path}",
            "engine": c["engine"],
            "level_claimed": {"category": c["category"], "text": c["text"], "design_ref": c["design"]},
            "level_note": c["note"],
            "technique": c["technique"],
        })
na = [{"property_id": p, "reason": NA.get(p, REASONS_NOT_BUILT)} for p in PROPS if p not in CHECKS]
m = {
 "version": 1,
 "setup_cmd": "./setup.sh",
 "hooks": {
   "guard": "cargo feature `verif` of the bugstalker crate",
   "enable": "the harness crate /verif/harness depends on bugstalker = { path = \"/repo\", features = [\"verif\"] }; every check starts with an incremental `cargo build --release --offline` of the harness, so /repo's working tree is rebuilt with hooks on",
   "baseline_off_cmd": "/verif/baseline_off.sh",
   "source_commits": hook_commits,
   "add_only": True,
 },
 "engines": [
   {"name":"E1 simk","path":"/verif/harness/src/simk.rs (+ mt.rs for the real-kernel binding, /verif/litmus for the kernel rules)","serves_properties":["C09","C10","C11","C14"],"kind_free_text":"the real tracer core over a simulated ptrace kernel (feature-gated verif::sys shim); deviation-bounded stateless exploration of every kernel-side choice; every execution runs the real code"},
   {"name":"E3 sched","path":"/verif/harness/src/sched.rs","serves_properties":["C12"],"kind_free_text":"hand-rolled CHESS: real threads parked at feature-gated schedule points, preemption-bounded DFS, worker subprocess per subtree"},
   {"name":"E2 e2e","path":"/verif/harness/src/{e2x,e2w,isession,reftrace,dwarfref,corpus,c01}.rs","serves_properties":["C01","C02","C03","C04","C05","C06","C10","C11","C14","C15","C16","C18","C19"],"kind_free_text":"explicit-state exploration of command histories: one interactive worker process per session running the real Debugger over generated libc-free debuggees; reference single-step tracer; canonical-state deduplication"},
   {"name":"E5 dap","path":"/verif/harness/src/{dapx,dapw,c12}.rs","serves_properties":["C12","C13"],"kind_free_text":"explicit-state exploration of DAP request histories: the real DebugSession::run on a thread inside one worker process per session, in-memory transport, real debuggee; protocol monitor + reference-trace oracle"},
   {"name":"E4 pure","path":"/verif/harness/src/{c07,c14,c17}.rs","serves_properties":["C07","C08","C14","C17"],"kind_free_text":"bounded-exhaustive / explicit-state exploration of in-process components against reference models"},
 ],
 "checks": checks,
 "not_applicable": na,
 "notes": "See DESIGN.md. Known findings and fixed defects: /verif/known_findings.jsonl.",
}
json.dump(m, open("/verif/MANIFEST.json","w"), indent=1)
print("claimed:", [c["property_id"] for c in checks])
