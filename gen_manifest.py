#!/usr/bin/env python3
"""Generates MANIFEST.json from the table below (kept in one place so it stays valid)."""
import json, subprocess
PROPS = [json.loads(l)["id"] for l in open("/verif/properties.jsonl")]
hooks_commits = subprocess.run(["git","-C","/repo","log","--format=%h %s"],capture_output=True,text=True).stdout.splitlines()
hook_commits = [l.split()[0] for l in hooks_commits if l.split(" ",1)[1].startswith("verif:")]

CHECKS = {
 "C07": dict(engine="E4 pure", category="exploration", technique="bounded-exhaustive enumeration of expression ASTs through the real parser",
   text="Every Dqe AST up to operator depth 3 (quick) / 4 (thorough) over 3 bases x 19 operators, and every index literal of nesting <= 2, is printed by an independent printer in two renderings and must parse back to the same AST with the real chumsky parser. This decides the 'parsing is a function of the text / documented precedence' half of the property exhaustively within the bound.",
   note="Trusted: the harness's printer implements the documented precedence. The 'meaning' half (evaluation against program values) is decided by the e2e part when present in evidence.parts; if absent it is not claimed.",
   design="3/C07"),
 "C12": dict(engine="E3 sched", category="model_checking", technique="stateless model checking: preemption-bounded exhaustive schedule enumeration of the real session + forwarder threads under an owned scheduler",
   text="All interleavings (up to the stated preemption bound) of the real DebugSession::run thread and the two real output-forwarder threads are executed; every wire log is checked for seq = 1,2,3.. in wire order, exactly one matching response per request, every output line exactly once.",
   note="Trusted: schedule points bracket every sequence-number allocation and every transport lock; the transport mutex state is read with try_lock (ground truth). Harness sizes are in evidence.bounds.",
   design="2/E3, 3/C12, App.B"),
 "C14": dict(engine="E4 pure", category="model_checking", technique="explicit-state BFS over the full reachable DR7 state space of the real register-encoding code",
   text="All 1.68M DR7 images reachable from 0 under the 48 configure/enable operations are visited; in every state the image equals an independently written Intel-SDM encoder applied to a reference slot table, and dr_enabled agrees.",
   note="Only the DR7 encoding part so far; bits 8/9 (LE/GE) are not constrained because the property does not mention them.",
   design="3/C14(a)"),
 "C17": dict(engine="E4 pure", category="model_checking", technique="explicit-state search over insert histories of the real path-suffix index with a Vec reference model",
   text="Every ordered insert sequence up to depth 2 (3 thorough) and every multiset up to depth 3 (4) over 39 '::' paths / 51 '/' paths (incl. rooted) on the real PathSearchIndex; every query of length 1-4 plus near-misses is compared with 'matches iff query components are a suffix'.",
   note="Only the index part so far; components over {a,b,ab}.",
   design="3/C17(a)"),
}
REASONS_NOT_BUILT = "engine for this property is designed (DESIGN.md section 3) but not built yet in this round"
NA = {"C20": "no tokio crate in the sealed cargo cache and no tokio example binary: a debuggee containing a tokio runtime cannot be built, so nothing can be enumerated (DESIGN.md section 6)"}

checks = []
for pid in PROPS:
    if pid in CHECKS:
        c = CHECKS[pid]
        checks.append({
            "property_id": pid,
            "quick_cmd": f"./check {pid} --tier quick",
            "thorough_cmd": f"./check {pid} --tier thorough",
            "evidence_file": f"/verif/evidence/{pid}.json",
            "replay_cmd_template": "./check --replay {path}",
            "engine": c["engine"],
            "level_claimed": {"category": c["category"], "text": c["text"], "design_ref": c["design"]},
            "level_note": c["note"],
            "technique": c["technique"],
        })
na = [{"property_id": p, "reason": NA.get(p, REASONS_NOT_BUILT)} for p in PROPS if p not in CHECKS]
m = {
 "version": 1,
 "setup_cmd": "./setup.sh",
 "hooks": {
   "guard": "cargo feature `verif` of the bugstalker crate",
   "enable": "the harness crate /verif/harness depends on bugstalker = { path = \"/repo\", features = [\"verif\"] }; every check starts with an incremental `cargo build --release --offline` of the harness, so /repo's working tree is rebuilt with hooks on",
   "baseline_off_cmd": "/verif/baseline_off.sh",
   "source_commits": hook_commits,
   "add_only": True,
 },
 "engines": [
   {"name":"E3 sched","path":"/verif/harness/src/sched.rs","serves_properties":["C12"],"kind_free_text":"hand-rolled CHESS: real threads parked at feature-gated schedule points, preemption-bounded DFS, worker subprocess per subtree"},
   {"name":"E4 pure","path":"/verif/harness/src/{c07,c14,c17}.rs","serves_properties":["C07","C14","C17"],"kind_free_text":"bounded-exhaustive / explicit-state exploration of in-process components against reference models"},
 ],
 "checks": checks,
 "not_applicable": na,
 "notes": "See DESIGN.md. Known findings and fixed defects: /verif/known_findings.jsonl.",
}
json.dump(m, open("/verif/MANIFEST.json","w"), indent=1)
print("claimed:", [c["property_id"] for c in checks])
