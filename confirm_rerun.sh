#!/bin/bash
# usage: confirm_rerun.sh <worktree>: re-runs (one at a time) the baseline tests that did not pass
# in the confirm_seed.sh run of that worktree (the DAP integration tests time out under load).
WT=$1
M=$WT/target/nextest/pb/junit.xml.missing
[ -s "$M" ] || { echo "   nothing to re-run"; exit 0; }
cd $WT || exit 2
export CARGO_NET_OFFLINE=true
EXPR=$(sed 's/.*:://; s/.*/test(\/&$\/)/' $M | paste -sd'|')
OUT=$(cargo nextest run --workspace --offline --no-fail-fast --test-threads 1 -E "$EXPR" 2>&1 | tail -n 3)
echo "   re-run of $(wc -l < $M | tr -d ' ')+1 tests that did not pass, one at a time: $(echo $OUT | tr '\n' ' ')"
