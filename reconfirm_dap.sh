#!/bin/bash
# usage: reconfirm_dap.sh <ID e.g. C07> <seed dir e.g. C07-1>
# The DAP integration tests time out when the machine is loaded.  Re-creates the worktree with the
# seeded patch applied and re-runs only the baseline tests named in <seed dir>/rerun.txt (default:
# all dap_integration tests), two at a time; appends the result to confirm.log.
ID=$1; DIR=$2
WT=/tmp/seed/$ID
mkdir -p /tmp/seed
git -C /repo worktree remove --force $WT 2>/dev/null
git -C /repo worktree add -q --detach $WT HEAD || exit 2
cp -a /repo/target $WT/target
ln -s /repo/examples/target $WT/examples/target
(cd $WT && git apply /verif/seeded/$DIR/patch.diff) || { echo "patch does not apply"; exit 2; }
cd $WT
export CARGO_NET_OFFLINE=true
cargo nextest run --workspace --no-fail-fast --tool-config-file pb:/w/lib/nextest.toml --profile pb --test-threads 2 --offline -E 'test(/dap_integration/)' > /tmp/seed/${ID}_dap_rerun.log 2>&1
python3 - "$WT/target/nextest/pb/junit.xml" <<'PY' | tee -a /verif/seeded/$DIR/confirm.log
import sys, json, xml.etree.ElementTree as ET
base = json.load(open('/root/.vp/BASELINE.json')); want = set(t for t in base['stable_pass'] if 'dap_integration' in t)
root = ET.parse(sys.argv[1]).getroot(); passed=set()
for ts in root.iter('testsuite'):
    for tc in ts.iter('testcase'):
        if tc.find('failure') is None and tc.find('error') is None and tc.find('skipped') is None:
            passed.add(f"{ts.get('name')}::{tc.get('name')}")
missing = sorted(want-passed)
print(f"   re-run of the DAP integration tests with the patch, two at a time: {len(want)-len(missing)}/{len(want)} of the baseline's pass", missing[:5])
PY
cd /; git -C /repo worktree remove --force $WT; git -C /repo worktree prune
