#!/bin/bash
# Build the verification harness offline (first build ~4 min on 16 cores).
set -e
cd /verif/harness
export CARGO_NET_OFFLINE=true
mkdir -p /verif/build /verif/evidence /verif/replays
cargo build --release --offline 2>&1 | tail -3
