#!/bin/bash
# Runs every registered quick check once (refreshes /verif/evidence/*.json) and prints one line each.
cd /verif
for id in C01 C02 C03 C04 C05 C06 C07 C08 C09 C10 C11 C12 C13 C14 C15 C16 C17 C18 C19; do
  s=$(date +%s); out=$(./check $id --tier quick 2>&1); rc=$?; e=$(date +%s)
  echo "$id rc=$rc $((e-s))s $(echo "$out" | tail -n 1 | cut -c1-160)"
  echo "$out" | grep "^VIOLATION" | head -3
done
