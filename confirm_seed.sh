#!/bin/bash
# usage: confirm_seed.sh <worktree> <demo command...>
# Confirms a seeded change: demo fails with the patch, passes without it, baseline suite passes with it.
WT=$1; shift
DEMO="$*"
cd $WT || exit 2
export CARGO_NET_OFFLINE=true
echo "== [$WT] demo WITH patch (must fail)"
( eval "$DEMO" ) > $WT/seed_out/confirm_with.log 2>&1; W=$?
echo "   exit=$W"
git apply -R seed_out/patch.diff || { echo "cannot revert patch"; exit 2; }
echo "== demo WITHOUT patch (must pass)"
( eval "$DEMO" ) > $WT/seed_out/confirm_without.log 2>&1; WO=$?
echo "   exit=$WO"
git apply seed_out/patch.diff || { echo "cannot re-apply patch"; exit 2; }
echo "== baseline suite WITH patch"
cargo build --offline --features verif > $WT/seed_out/confirm_build_verif.log 2>&1; BV=$?
cargo nextest run --workspace --no-fail-fast --tool-config-file pb:/w/lib/nextest.toml --profile pb --test-threads 6 --offline > $WT/seed_out/confirm_suite.log 2>&1
python3 - "$WT/target/nextest/pb/junit.xml" <<'PY'
import sys, json, xml.etree.ElementTree as ET
base = json.load(open('/root/.vp/BASELINE.json')); want = set(base['stable_pass'])
root = ET.parse(sys.argv[1]).getroot(); passed=set()
for ts in root.iter('testsuite'):
    for tc in ts.iter('testcase'):
        if tc.find('failure') is None and tc.find('error') is None and tc.find('skipped') is None:
            passed.add(f"{ts.get('name')}::{tc.get('name')}")
missing = sorted(want-passed)
print(f"   baseline: {len(want)-len(missing)}/{len(want)} stable tests pass", missing[:5])
open(sys.argv[1]+'.missing','w').write("\n".join(missing))
PY
echo "RESULT $WT with=$W without=$WO build_verif=$BV"
