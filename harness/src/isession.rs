//! Interactive worker sessions: one subprocess per debugger session, commands sent one at a
//! time so that the explorer can decide the next action after seeing the previous observation.

use serde_json::Value;
use std::io::{BufRead, BufReader, Read, Write};
use std::process::{Child, ChildStdin, Command, Stdio};
use std::sync::mpsc::{Receiver, RecvTimeoutError, channel};
use std::time::Duration;

pub struct ISession {
    child: Child,
    stdin: Option<ChildStdin>,
    rx: Receiver<String>,
    err_rx: Receiver<String>,
    pub commands_sent: usize,
}

#[derive(Debug, Clone)]
pub enum SessErr {
    Timeout,
    Crashed { status: String, stderr: String },
}

impl ISession {
    pub fn start(kind: &str, init: &Value) -> Result<ISession, String> {
        let exe = std::env::current_exe().map_err(|e| e.to_string())?;
        use std::os::unix::process::CommandExt;
        let mut child = Command::new(exe)
            // own process group: a signal the debugger under test sends to "its group" (pid 0)
            // must not reach the explorer
            .process_group(0)
            .arg("worker")
            .arg(kind)
            .env_clear()
            .envs(crate::common::worker_env())
            .stdin(Stdio::piped())
            .stdout(Stdio::piped())
            .stderr(Stdio::piped())
            .spawn()
            .map_err(|e| e.to_string())?;
        let out = child.stdout.take().unwrap();
        let mut err = child.stderr.take().unwrap();
        let (tx, rx) = channel();
        std::thread::spawn(move || {
            let rd = BufReader::new(out);
            for l in rd.lines() {
                let Ok(l) = l else { break };
                if l.starts_with("OBS ") || l.starts_with("RESULT ") || l.starts_with("READY") {
                    if tx.send(l).is_err() {
                        break;
                    }
                }
            }
        });
        let (etx, err_rx) = channel();
        std::thread::spawn(move || {
            let mut s = Vec::new();
            let _ = err.read_to_end(&mut s);
            let s = String::from_utf8_lossy(&s).to_string();
            let n = s.len();
            let mut st = n.saturating_sub(3000);
            while !s.is_char_boundary(st) {
                st += 1;
            }
            let _ = etx.send(s[st..].to_string());
        });
        let mut s = ISession { child, stdin: None, rx, err_rx, commands_sent: 0 };
        let mut stdin = s.child.stdin.take().unwrap();
        writeln!(stdin, "{}", serde_json::to_string(init).unwrap()).map_err(|e| e.to_string())?;
        s.stdin = Some(stdin);
        Ok(s)
    }

    fn recv(&mut self, prefix: &str, timeout: Duration) -> Result<Value, SessErr> {
        match self.rx.recv_timeout(timeout) {
            Ok(l) => {
                let body = l.strip_prefix(prefix).unwrap_or(&l);
                serde_json::from_str(body.trim()).map_err(|e| SessErr::Crashed { status: format!("bad worker line: {e}"), stderr: l.clone() })
            }
            Err(RecvTimeoutError::Timeout) => Err(SessErr::Timeout),
            Err(RecvTimeoutError::Disconnected) => {
                let status = self.child.wait().map(|s| format!("{s:?}")).unwrap_or_default();
                let stderr = self.err_rx.recv_timeout(Duration::from_secs(2)).unwrap_or_default();
                Err(SessErr::Crashed { status, stderr })
            }
        }
    }

    pub fn cmd(&mut self, cmd: &Value, timeout: Duration) -> Result<Value, SessErr> {
        let line = serde_json::to_string(cmd).unwrap();
        if let Some(stdin) = self.stdin.as_mut() {
            if writeln!(stdin, "{line}").is_err() {
                return self.recv("OBS ", Duration::from_millis(500));
            }
            let _ = stdin.flush();
        }
        self.commands_sent += 1;
        self.recv("OBS ", timeout)
    }

    /// Ask the worker to tear the session down and report the final facts.
    pub fn end(mut self, timeout: Duration) -> Result<Value, SessErr> {
        if let Some(mut stdin) = self.stdin.take() {
            let _ = writeln!(stdin, "{{\"end\":true}}");
        }
        let r = self.recv("RESULT ", timeout);
        self.kill();
        r
    }

    pub fn kill(&mut self) {
        crate::common::kill_tree(self.child.id() as i32);
        let _ = self.child.kill();
        let _ = self.child.wait();
    }
}

impl Drop for ISession {
    fn drop(&mut self) {
        self.kill();
    }
}
