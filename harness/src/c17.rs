//! C17 — names select exactly the functions, files and symbols they denote.
//! Part (a): explicit-state exploration of the real `PathSearchIndex`.

use crate::common::*;
use bugstalker::debugger::verif_exports::PathSearchIndex;
use serde_json::json;
use std::collections::{BTreeMap, HashSet};
use std::time::Instant;

const COMPONENTS: [&str; 3] = ["a", "b", "ab"];

/// All component paths of length 1..=3 (39), optionally rooted (leading delimiter component).
fn paths(max_len: usize) -> Vec<Vec<String>> {
    let mut out = vec![];
    let mut cur: Vec<Vec<String>> = vec![vec![]];
    for _ in 0..max_len {
        let mut next = vec![];
        for p in &cur {
            for c in COMPONENTS {
                let mut q = p.clone();
                q.push(c.to_string());
                next.push(q);
            }
        }
        out.extend(next.iter().cloned());
        cur = next;
    }
    out
}

/// Queries: all component strings of length 1..=4 plus near-misses (partial components, empty
/// components, trailing/leading delimiters).
fn queries(delim: &str, rooted: bool) -> Vec<String> {
    let mut qs: Vec<String> = paths(4).iter().map(|p| p.join(delim)).collect();
    let extra_components = ["", "aa", "ba", "abb", "A"];
    for e in extra_components {
        qs.push(e.to_string());
        for c in COMPONENTS {
            qs.push(format!("{e}{delim}{c}"));
            qs.push(format!("{c}{delim}{e}"));
            for c2 in COMPONENTS {
                qs.push(format!("{c}{delim}{e}{delim}{c2}"));
            }
        }
    }
    if rooted {
        let base: Vec<String> = paths(3).iter().map(|p| p.join(delim)).collect();
        for b in base {
            qs.push(format!("{delim}{b}"));
        }
        qs.push(delim.to_string());
    }
    qs.sort();
    qs.dedup();
    qs
}

/// Reference semantics of a query: split on the delimiter; a leading delimiter denotes the root
/// component. A stored path matches iff the query components are a suffix of its components.
fn ref_split(q: &str, delim: &str) -> Vec<String> {
    if let Some(rest) = q.strip_prefix(delim) {
        let mut v = vec![delim.to_string()];
        v.extend(rest.split(delim).map(|s| s.to_string()));
        v
    } else {
        q.split(delim).map(|s| s.to_string()).collect()
    }
}

fn ref_get(stored: &[(Vec<String>, u32)], q: &str, delim: &str) -> Vec<u32> {
    let qc = ref_split(q, delim);
    let mut r: Vec<u32> = stored
        .iter()
        .filter(|(p, _)| p.len() >= qc.len() && p[p.len() - qc.len()..] == qc[..])
        .map(|(_, v)| *v)
        .collect();
    r.sort();
    r
}

fn explore_from(
    root: usize,
    delim: &str,
    alphabet: &[Vec<String>],
    qs: &[String],
    seq_depth: usize,
    multiset_depth: usize,
) -> (Part, HashSet<Vec<usize>>) {
    let mut part = Part::new("sub");
    let mut outcomes: HashSet<Vec<usize>> = HashSet::new();
    let n = alphabet.len();
    let mut stack: Vec<Vec<usize>> = vec![vec![root]];
    while let Some(state) = stack.pop() {
        if state.len() < multiset_depth {
            let ordered_only = state.len() >= seq_depth;
            let lo = if ordered_only { *state.last().unwrap_or(&0) } else { 0 };
            let ok_prefix = !ordered_only || state.windows(2).all(|w| w[0] <= w[1]);
            if ok_prefix {
                for i in lo..n {
                    let mut s = state.clone();
                    s.push(i);
                    if s.len() > seq_depth && !s.windows(2).all(|w| w[0] <= w[1]) {
                        continue;
                    }
                    stack.push(s);
                    part.transitions += 1;
                }
            }
        }
        // build the real index by replaying the insert history
        let mut idx: PathSearchIndex<u32> = PathSearchIndex::new(delim);
        let mut stored = vec![];
        for (k, &pi) in state.iter().enumerate() {
            let p = &alphabet[pi];
            // alternate the two real insertion entry points
            if k % 2 == 0 {
                idx.insert(p.iter(), k as u32);
            } else {
                idx.insert_w_head(p[..p.len() - 1].iter(), &p[p.len() - 1], k as u32);
            }
            stored.push((p.clone(), k as u32));
        }
        part.states += 1;
        let mut any_match = false;
        let mut outcome_sizes = vec![];
        for q in qs {
            let mut got: Vec<u32> = idx.get(q).into_iter().copied().collect();
            got.sort();
            let want = ref_get(&stored, q, delim);
            part.evaluations += 1;
            if !want.is_empty() {
                any_match = true;
            }
            outcome_sizes.push(got.len());
            if got != want {
                let kind = if got.len() > want.len() {
                    "extra"
                } else if got.len() < want.len() {
                    "missing"
                } else {
                    "different"
                };
                part.violate(
                    format!("C17:index:{kind}-match"),
                    format!(
                        "delimiter {delim:?}: after inserting {:?} query {q:?} returned values {got:?}, reference {want:?}",
                        state.iter().map(|&i| alphabet[i].join(delim)).collect::<Vec<_>>()
                    ),
                    json!({"engine":"pathindex","delimiter":delim,"inserts": state.iter().map(|&i| alphabet[i].clone()).collect::<Vec<_>>(),"query":q}),
                );
            }
        }
        if any_match {
            part.distinct_nontrivial += 1;
        }
        if outcomes.len() < 20_000 {
            outcomes.insert(outcome_sizes);
        }
        if part.states % 5000 == 1 {
            part.sample(json!({"delimiter": delim, "inserts": state.iter().map(|&i| alphabet[i].join(delim)).collect::<Vec<_>>(), "queries_evaluated": qs.len()}));
        }
    }
    (part, outcomes)
}

pub fn part_index(tier: Tier) -> Part {
    let mut part = Part::new("pathindex");
    let t0 = Instant::now();
    let (seq_depth, multiset_depth) = match tier {
        Tier::Quick => (2usize, 3usize),
        Tier::Thorough => (3, 4),
    };
    part.bounds = json!({"components": COMPONENTS, "path_len": "1..=3", "delimiters": ["::", "/ (with rooted paths)"],
        "insert_sequences_all_orders_depth": seq_depth, "insert_multisets_depth": multiset_depth, "query_len": "1..=4 + near-misses"});
    part.rule = "explicit-state search over insert histories of the real PathSearchIndex: every ordered insert sequence up to depth d1 and every multiset (canonical order) up to depth d2 over 39 (+39 rooted for '/') component paths; in each state every query is evaluated against a Vec reference ('matches iff query components are a suffix'); a state is non-trivial if at least one query matched a stored path".into();

    let mut outcomes: HashSet<Vec<usize>> = HashSet::new();
    for (delim, rooted) in [("::", false), ("/", true)] {
        let mut alphabet = paths(3);
        if rooted {
            let r: Vec<Vec<String>> = paths(2)
                .into_iter()
                .map(|p| {
                    let mut v = vec![delim.to_string()];
                    v.extend(p);
                    v
                })
                .collect();
            alphabet.extend(r);
        }
        let qs = queries(delim, rooted);
        let n = alphabet.len();
        use rayon::prelude::*;
        let subs: Vec<(Part, HashSet<Vec<usize>>)> = (0..n)
            .into_par_iter()
            .map(|root| explore_from(root, delim, &alphabet, &qs, seq_depth, multiset_depth))
            .collect();
        part.transitions += n as u64;
        for (sp, so) in subs {
            part.states += sp.states;
            part.transitions += sp.transitions;
            part.evaluations += sp.evaluations;
            part.distinct_nontrivial += sp.distinct_nontrivial;
            for v in sp.violations {
                part.violate(v.sig, v.detail, v.replay);
            }
            for s in sp.samples {
                if part.samples.len() < 6 {
                    part.samples.push(s);
                }
            }
            if outcomes.len() < 200_000 {
                outcomes.extend(so);
            }
        }
    }
    part.distinct_outcomes = outcomes.len() as u64;
    part.traces_validated = part.states; // every state is a history executed on the real index
    part.extra.insert("wall_s".into(), json!(t0.elapsed().as_secs_f64()));
    part
}

/// Replay one recorded case (insert list + query) on the real index.
pub fn replay_index(v: &serde_json::Value) -> (Vec<u32>, Vec<u32>) {
    let delim = v["delimiter"].as_str().unwrap();
    let inserts: Vec<Vec<String>> = serde_json::from_value(v["inserts"].clone()).unwrap();
    let q = v["query"].as_str().unwrap();
    let mut idx: PathSearchIndex<u32> = PathSearchIndex::new(delim);
    let mut stored = vec![];
    for (k, p) in inserts.iter().enumerate() {
        if k % 2 == 0 {
            idx.insert(p.iter(), k as u32);
        } else {
            idx.insert_w_head(p[..p.len() - 1].iter(), &p[p.len() - 1], k as u32);
        }
        stored.push((p.clone(), k as u32));
    }
    let mut got: Vec<u32> = idx.get(q).into_iter().copied().collect();
    got.sort();
    (got, ref_get(&stored, q, delim))
}

#[allow(dead_code)]
fn unused(_: BTreeMap<u8, u8>) {}
