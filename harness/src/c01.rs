//! C01 (breakpoint projection) and C02 (no patch left behind, output unchanged): explicit-state
//! exploration of command histories over the generated corpus.

use crate::common::*;
use crate::corpus::{self, Config};
use crate::e2x::*;
use serde_json::{Value, json};
use std::collections::BTreeSet;
use std::time::{Duration, Instant};

fn corpus_for(tier: Tier) -> Result<Vec<Prog>, String> {
    let (bodies, cfgs) = match tier {
        Tier::Quick => (
            corpus::quick_bodies(),
            vec![Config::default_cfg(), Config { toolchain: "stable".into(), opt: 0, dwarf: 5, pie: true }],
        ),
        Tier::Thorough => (
            corpus::enumerate_bodies(2),
            vec![
                Config::default_cfg(),
                Config { toolchain: "stable".into(), opt: 0, dwarf: 5, pie: true },
                Config { toolchain: "stable".into(), opt: 1, dwarf: 4, pie: true },
            ],
        ),
    };
    let builts = corpus::build_many(&bodies, &cfgs)?;
    prepare(builts)
}

pub fn part_c01(tier: Tier) -> Part {
    let mut part = Part::new("e2e-breakpoint-projection");
    let cfg = ExploreCfg {
        prop: "C01",
        depth: if tier == Tier::Quick { 4 } else { 6 },
        oracles: oracles_for("C01"),
        steps: false,
        restart: false,
        failing: false,
        remove_by_num: true,
        bp_only_before_start: false,
        continue_after_start: true,
        watches: 0,
        terminals: false,
        ext_sigint: false,
        wall: wall_cap(tier, 50, 2400),
    };
    explore_all(tier, &cfg, 3, &mut part);
    part
}

pub fn part_c02(tier: Tier) -> Part {
    let mut part = Part::new("e2e-no-trace-left");
    let cfg = ExploreCfg {
        prop: "C02",
        depth: if tier == Tier::Quick { 3 } else { 4 },
        oracles: oracles_for("C02"),
        steps: true,
        restart: true,
        failing: true,
        remove_by_num: false,
        bp_only_before_start: false,
        continue_after_start: true,
        watches: 0,
        terminals: false,
        ext_sigint: false,
        wall: wall_cap(tier, 50, 2400),
    };
    explore_all(tier, &cfg, 2, &mut part);
    // the same invariant with a hardware watchpoint in play and with the terminals detach / drop:
    // the released process must carry no patch and no enabled debug register and must compute
    // what it computes natively
    let cfg_w = ExploreCfg {
        prop: "C02",
        depth: if tier == Tier::Quick { 3 } else { 4 },
        oracles: crate::e2x::Oracles { projection: false, text: true, output: true, teardown: true, steps: false, bt: false, signals: false, dregs: false },
        steps: false,
        restart: false,
        failing: false,
        remove_by_num: false,
        bp_only_before_start: false,
        continue_after_start: true,
        watches: 1,
        terminals: true,
        ext_sigint: false,
        wall: wall_cap(tier, 25, 1200),
    };
    explore_all(tier, &cfg_w, 1, &mut part);
    // a step cut short by a signal must not leave its temporary breakpoints behind either
    {
        use crate::corpus::Stmt;
        let deadline = Instant::now() + Duration::from_secs(if tier == Tier::Quick { 15 } else { 600 });
        match corpus::build_many(&[vec![Stmt::Raise(10), Stmt::CallF]], &[Config::default_cfg()]).and_then(prepare) {
            Ok(ps) => {
                for p in &ps {
                    let cands: Vec<Cand> = ["raise", "post"].iter().filter_map(|m| p.line_of(m)).map(Cand::Line).collect();
                    explore_program(p, &cands, &cfg, &mut part, deadline);
                }
            }
            Err(e) => part.violate("C02:machinery:corpus", e, json!({})),
        }
        part.traces_validated = part.transitions;
    }
    part
}

pub fn part_c03(tier: Tier) -> Part {
    let mut part = Part::new("e2e-step-semantics");
    let cfg = ExploreCfg {
        prop: "C03",
        depth: if tier == Tier::Quick { 5 } else { 7 },
        oracles: oracles_for("C03"),
        steps: true,
        restart: false,
        failing: false,
        remove_by_num: false,
        bp_only_before_start: true,
        continue_after_start: true,
        watches: 0,
        terminals: false,
        ext_sigint: false,
        wall: wall_cap(tier, 50, 3000),
    };
    explore_all_with(tier, &cfg, &mut part, |p| {
        // main (so that stepping starts at the top), plus a statement inside the stepped ranges
        let mut c = vec![Cand::Fn("main".into())];
        c.extend(candidates(p, 4).into_iter().filter(|c| matches!(c, Cand::Line(_))).take(1));
        c
    });
    part
}

/// C03 on inlined code: `next` must pass over a call that was inlined (and over the calls inlined
/// into that one) as over any other call.
pub fn part_c03_inlined(tier: Tier) -> Part {
    use crate::corpus::{Config, Stmt};
    let mut part = Part::new("e2e-step-inlined-calls");
    let cfg = ExploreCfg {
        prop: "C03",
        depth: if tier == Tier::Quick { 6 } else { 9 },
        oracles: oracles_for("C03"),
        steps: true,
        restart: false,
        failing: false,
        remove_by_num: false,
        bp_only_before_start: true,
        continue_after_start: false,
        watches: 0,
        terminals: false,
        ext_sigint: false,
        wall: wall_cap(tier, 25, 1200),
    };
    let cfgs = if tier == Tier::Quick { vec![Config::default_cfg()] } else { vec![Config::default_cfg(), Config { toolchain: "stable".into(), opt: 0, dwarf: 5, pie: true }, Config { toolchain: "stable".into(), opt: 1, dwarf: 5, pie: false }] };
    let progs = match crate::corpus::build_many(&[vec![Stmt::CallInl, Stmt::Assign]], &cfgs).and_then(prepare) {
        Ok(p) => p,
        Err(e) => {
            part.violate("C03:machinery:corpus", e, json!({}));
            part.exhaustive = false;
            return part;
        }
    };
    part.rule = "program whose main calls an #[inline(always)] function of the same file that contains a further inlined call followed by a statement of its own (nested DW_TAG_inlined_subroutine ranges), twice: every history of stepi / step / next / finish from the breakpoint at main up to the depth bound, judged by the C03 oracle plus: a `next` that did not start inside an inlined body of this file must not end inside one".into();
    part.bounds = json!({"programs": progs.len(), "depth": cfg.depth, "wall_cap_s": cfg.wall.as_secs()});
    let deadline = Instant::now() + cfg.wall;
    for p in &progs {
        explore_program(p, &[Cand::Fn("main".into())], &cfg, &mut part, deadline);
    }
    // tail-position recursion: start in the innermost activation (breakpoint on its `return`) and
    // step outwards; every return lands on a line number the step has just left in the callee
    match crate::corpus::build_many(&[vec![Stmt::TailRec(3), Stmt::Assign]], &cfgs).and_then(prepare) {
        Ok(tp) => {
            for p in &tp {
                if let Some(l) = p.line_of("tail.2") {
                    explore_program(p, &[Cand::Line(l)], &cfg, &mut part, deadline);
                }
            }
        }
        Err(e) => part.violate("C03:machinery:corpus", e, json!({})),
    }
    if Instant::now() > deadline {
        part.exhaustive = false;
        part.caps_hit.push("wall cap".into());
    }
    part.traces_validated = part.transitions;
    part
}

/// C11: the end of the program reached by a STEP (not by `continue`), then restart.
pub fn part_c11_step_into_exit(tier: Tier) -> Part {
    use crate::corpus::{Config, Stmt};
    let mut part = Part::new("e2e-exit-by-step-then-restart");
    part.rule = "histories [break at a statement of main, break at one of the last four instructions of main, start, continue, stepi until the step reports the end of the process, restart, continue, continue, (drop)] judged by the E2 oracle of C11: the restarted program must stop at the first breakpoint again (reference trace index), then at the second, then end with the native exit code and output, and no process is left; second program: a breakpoint ON the instruction that makes the exit system call, then continue / stepi, then restart or drop".into();
    let cfgs = if tier == Tier::Quick { vec![Config::default_cfg()] } else { vec![Config::default_cfg(), Config { toolchain: "stable".into(), opt: 1, dwarf: 5, pie: false }] };
    let progs = match crate::corpus::build_many(&[vec![Stmt::Assign, Stmt::CallF]], &cfgs).and_then(prepare) {
        Ok(p) => p,
        Err(e) => {
            part.violate("C11:machinery:corpus", e, json!({}));
            part.exhaustive = false;
            return part;
        }
    };
    let oracles = oracles_for("C11");
    for p in &progs {
        let n = p.trace.steps.len();
        let Some(first) = p.line_of("s0.assign").and_then(|l| p.stmt_addrs(l).into_iter().find(|a| p.in_trace(*a))) else {
            part.violate("C11:machinery:no-first-breakpoint", p.name(), json!({}));
            continue;
        };
        // the last instructions of the program that belong to a function with debug information
        // (what follows main is `_start`: assembly without any, where an address breakpoint is not
        // within the property)
        let Some(last_in_fn) = (0..n).rev().find(|j| p.dref.func_at(p.trace.steps[*j].pc.wrapping_sub(p.base)).is_some()) else { continue };
        for back in 0..4usize {
            if last_in_fn < back + 2 {
                continue;
            }
            let j = last_in_fn - back;
            let k = n - j; // single steps from there until the last instruction has been executed
            let near_end = p.trace.steps[j].pc;
            if near_end == first || p.trace.steps.iter().filter(|s| s.pc == near_end).count() != 1 || k > 12 {
                continue;
            }
            let cands = vec![Cand::Addr(first), Cand::Addr(near_end)];
            let mut path = vec![Action::Add(0), Action::Add(1), Action::Start, Action::Continue];
            for _ in 0..k {
                path.push(Action::Stepi);
            }
            let k = k - 1;
            path.extend([Action::Restart, Action::Continue, Action::Continue]);
            let (_, out) = run_session(p, &cands, &path, false);
            part.states += path.len() as u64;
            part.transitions += path.len() as u64;
            part.evaluations += 1;
            part.traces_validated += 1;
            let replay = json!({"engine":"e2e","prop":"C11","exe":p.built.exe,"cands":cands,"path":path,"history":path.iter().map(|a| a.label(&cands)).collect::<Vec<_>>()});
            match out {
                WorkerOutcome::Ok(res) => {
                    let (models, findings) = interpret(p, &cands, &path, &res, &oracles, "C11");
                    for f in findings {
                        part.violate(f.sig, f.detail, replay.clone());
                    }
                    // the history must really have gone the intended way: exit inside the steps,
                    // stop at the first breakpoint after the restart
                    let exited_by_step = models.get(4 + k).map(|m| m.exited).unwrap_or(false) && !models.get(3 + k).map(|m| m.exited).unwrap_or(true);
                    let after_restart = models.get(5 + k).map(|m| m.idx).unwrap_or(None);
                    let want = p.trace.steps.iter().position(|s| s.pc == first);
                    if !exited_by_step {
                        part.violate("C11:machinery:exit-not-reached-by-the-last-step", format!("[{}] k={k}: states {:?}", p.name(), models.iter().map(|m| (m.exited, m.idx)).collect::<Vec<_>>()), replay.clone());
                    } else if after_restart != want {
                        part.violate("C11:restart-after-exit-by-step:first-breakpoint-not-reached", format!("[{}] k={k}: after the restart the program is at trace index {after_restart:?}, the first breakpoint is reached at {want:?}", p.name()), replay.clone());
                    } else {
                        part.distinct_nontrivial += 1;
                    }
                    if part.samples.len() < 2 {
                        part.sample(json!({"program": p.name(), "k": k, "history": path.iter().map(|a| a.label(&cands)).collect::<Vec<_>>(), "positions": models.iter().map(|m| json!([m.exited, m.idx])).collect::<Vec<_>>()}));
                    }
                }
                WorkerOutcome::Crashed { status, stderr, .. } => {
                    let first = stderr.lines().find(|l| l.contains("panicked")).unwrap_or(stderr.lines().last().unwrap_or("")).to_string();
                    part.violate("C11:debugger-crashed", format!("[{}] k={k}: {status}: {first}", p.name()), replay);
                }
                WorkerOutcome::Timeout { .. } => part.violate("C11:debugger-hung", format!("[{}] k={k}", p.name()), replay),
            }
        }
    }
    // a breakpoint ON the instruction that ends the process (a Rust function that makes the exit
    // system call itself): continue from it must report the end, after which nothing is left
    let quit = "#[inline(never)]\nfn quit(code: i32) -> ! {\n    unsafe { core::arch::asm!(\"syscall\", in(\"rax\") 231, in(\"rdi\") code, options(noreturn)) }\n}\n";
    let prog = crate::corpus::generate_custom("p_quit", quit, "    a = a * 2 + 1; if a > 0 { emit(a); quit((a % 200) as i32); }");
    match crate::corpus::build(&prog, &Config::default_cfg()).and_then(|b| prepare(vec![b])) {
        Err(e) => part.violate("C11:machinery:corpus", e, json!({})),
        Ok(ps) => {
            for p in &ps {
                let n = p.trace.steps.len();
                let last = p.trace.steps[n - 1].pc;
                if p.dref.func_at(last.wrapping_sub(p.base)).is_none() {
                    part.violate("C11:machinery:last-instruction-without-function", format!("{last:#x}"), json!({}));
                    continue;
                }
                let cands = vec![Cand::Addr(last)];
                for path in [vec![Action::Add(0), Action::Start, Action::Continue, Action::Restart, Action::Continue], vec![Action::Add(0), Action::Start, Action::Continue, Action::Drop], vec![Action::Add(0), Action::Start, Action::Stepi, Action::Drop]] {
                    let (_, out) = run_session(p, &cands, &path, false);
                    part.states += path.len() as u64;
                    part.transitions += path.len() as u64;
                    part.evaluations += 1;
                    part.traces_validated += 1;
                    let replay = json!({"engine":"e2e","prop":"C11","exe":p.built.exe,"cands":cands,"path":path,"history":path.iter().map(|a| a.label(&cands)).collect::<Vec<_>>()});
                    match out {
                        WorkerOutcome::Ok(res) => {
                            let (models, findings) = interpret(p, &cands, &path, &res, &oracles, "C11");
                            for f in findings {
                                part.violate(f.sig, f.detail, replay.clone());
                            }
                            if !models.get(2).map(|m| m.exited).unwrap_or(false) {
                                part.violate("C11:breakpoint-on-the-exit-instruction:end-not-reported", format!("[{}] {:?}: states {:?}", p.name(), path.iter().map(|a| a.label(&cands)).collect::<Vec<_>>(), models.iter().map(|m| (m.exited, m.idx)).collect::<Vec<_>>()), replay.clone());
                            } else {
                                part.distinct_nontrivial += 1;
                            }
                        }
                        WorkerOutcome::Crashed { status, stderr, .. } => {
                            let first = stderr.lines().find(|l| l.contains("panicked")).unwrap_or(stderr.lines().last().unwrap_or("")).to_string();
                            part.violate("C11:debugger-crashed", format!("[{}] {:?}: {status}: {first}", p.name(), path.iter().map(|a| a.label(&cands)).collect::<Vec<_>>()), replay);
                        }
                        WorkerOutcome::Timeout { .. } => part.violate("C11:debugger-hung", format!("[{}] breakpoint on the exit instruction", p.name()), replay),
                    }
                }
            }
        }
    }
    part.bounds = json!({"programs": progs.len() + 1, "k": "1..=4"});
    part
}

pub fn part_c11(tier: Tier) -> Part {
    use crate::corpus::Stmt;
    let mut part = Part::new("e2e-lifecycle");
    let cfg = ExploreCfg {
        prop: "C11",
        depth: if tier == Tier::Quick { 6 } else { 8 },
        oracles: oracles_for("C11"),
        steps: tier == Tier::Thorough,
        restart: true,
        failing: false,
        remove_by_num: false,
        bp_only_before_start: true,
        continue_after_start: true,
        watches: 1,
        terminals: true,
        ext_sigint: false,
        wall: wall_cap(tier, 50, 3000),
    };
    // exit codes 0..199 come from the computed value; the sleep keeps a released process alive
    // long enough to be inspected
    let bodies = match tier {
        Tier::Quick => vec![vec![Stmt::Assign, Stmt::Sleep(60), Stmt::CallF]],
        Tier::Thorough => vec![vec![Stmt::Assign, Stmt::Sleep(60), Stmt::CallF], vec![Stmt::While(2), Stmt::Sleep(60), Stmt::Rec(2)], vec![Stmt::Raise(10), Stmt::Sleep(60)]],
    };
    let progs = match corpus::build_many(&bodies, &[Config::default_cfg()]).and_then(prepare) {
        Ok(p) => p,
        Err(e) => {
            part.violate("C11:machinery:corpus", e, json!({}));
            part.exhaustive = false;
            return part;
        }
    };
    part.bounds = json!({"programs": progs.len(), "depth": cfg.depth, "alphabet": "breakpoint add/remove before start, start/continue, restart, watch+/watch- on a global, then the terminals drop and detach from every state"});
    part.rule = "explicit-state exploration of command histories ending in drop / detach / restart at every kind of stop (not started, breakpoint, exited, after restart); oracles: after drop no /proc/<pid> remains (not even a zombie); after detach the process is not stopped, an independent PTRACE_SEIZE finds the text equal to the ELF and no enabled debug-register slot, and the released process runs to the native output and exit code; after restart the breakpoints hit again at the reference positions; reported exit code = native".into();
    let deadline = Instant::now() + cfg.wall;
    for p in &progs {
        let mut cands = vec![];
        for mark in ["presleep", "callf", "body1", "assign"] {
            if let Some(l) = p.line_of(mark) {
                if !p.stmt_addrs(l).is_empty() && cands.len() < 2 {
                    cands.push(Cand::Line(l));
                }
            }
        }
        explore_program(p, &cands, &cfg, &mut part, deadline);
    }
    part.traces_validated = part.transitions;
    part
}

pub fn part_c14_regs(tier: Tier) -> Part {
    use crate::corpus::Stmt;
    let mut part = Part::new("e2e-debug-registers");
    let cfg = ExploreCfg {
        prop: "C14",
        depth: if tier == Tier::Quick { 8 } else { 10 },
        oracles: oracles_for("C14"),
        steps: false,
        restart: true,
        failing: false,
        remove_by_num: false,
        bp_only_before_start: true,
        continue_after_start: true,
        watches: 7,
        terminals: tier == Tier::Thorough,
        ext_sigint: false,
        wall: wall_cap(tier, 50, 3000),
    };
    let bodies = vec![vec![Stmt::Raise(14), Stmt::Assign, Stmt::Sleep(40)]];
    let progs = match corpus::build_many(&bodies, &[Config::default_cfg()]).and_then(prepare) {
        Ok(p) => p,
        Err(e) => {
            part.violate("C14:machinery:corpus", e, json!({}));
            part.exhaustive = false;
            return part;
        }
    };
    part.bounds = json!({"programs": progs.len(), "depth": cfg.depth, "watch_candidates": "6 locations on two globals: sizes 1/2/4/8, write and read-write, two of them on the same address", "alphabet": "one breakpoint before start, start/continue, restart, watch+/watch- (removal by number or by address)"});
    part.rule = "explicit-state exploration over the active watchpoint set: after every command u_debugreg[0..7] of every thread is read with the harness's own PTRACE_PEEKUSER: each active watchpoint occupies exactly one locally enabled slot with its address, length and condition, no other enable bit is set, a fifth watchpoint or a second one on the same address is refused without side effects, freed slots are reused, the set is still encoded after restart, and watchpoint_list() agrees".into();
    let deadline = Instant::now() + cfg.wall;
    for p in &progs {
        let mut cands = vec![];
        if let Some(l) = p.line_of("assign") {
            cands.push(Cand::Line(l));
        }
        explore_program(p, &cands, &cfg, &mut part, deadline);
    }
    part.traces_validated = part.transitions;
    part
}

pub fn part_c18(tier: Tier) -> Part {
    let mut part = Part::new("e2e-load-address-independence");
    let cfg = ExploreCfg {
        prop: "C18",
        depth: if tier == Tier::Quick { 4 } else { 5 },
        oracles: oracles_for("C18"),
        steps: false,
        restart: true,
        failing: false,
        remove_by_num: false,
        bp_only_before_start: false,
        continue_after_start: true,
        watches: 0,
        terminals: false,
        ext_sigint: false,
        wall: wall_cap(tier, 50, 2400),
    };
    // the same programs linked as classic (ET_EXEC) and as position independent executables:
    // every address-based answer must be right for both
    let mut cfgs = vec![];
    for pie in [false, true] {
        cfgs.push(Config { toolchain: "1.89".into(), opt: 0, dwarf: 4, pie });
        if tier == Tier::Thorough {
            cfgs.push(Config { toolchain: "stable".into(), opt: 1, dwarf: 5, pie });
        }
    }
    let bodies = match tier {
        Tier::Quick => vec![corpus::quick_bodies()[1].clone()],
        Tier::Thorough => corpus::quick_bodies(),
    };
    let progs = match corpus::build_many(&bodies, &cfgs).and_then(prepare) {
        Ok(p) => p,
        Err(e) => {
            part.violate("C18:machinery:corpus", e, json!({}));
            part.exhaustive = false;
            return part;
        }
    };
    part.bounds = json!({"programs": progs.len(), "link_modes": ["non-PIE (ET_EXEC, linked at 0x200000/0x400000)", "PIE"], "depth": cfg.depth, "alphabet": "start/continue, restart, add/remove of 3 breakpoints (address, next-instruction address, file:line or function)"});
    part.rule = "the C01 exploration (breakpoint projection against the reference trace), the text-patch invariant and the backtrace oracle, on the same programs linked non-PIE and PIE: breakpoints by function / line / address, stop addresses, source lookup and unwinding must be right wherever the object is loaded".into();
    let deadline = Instant::now() + cfg.wall;
    for p in &progs {
        let cands = candidates(p, if tier == Tier::Quick { 2 } else { 3 });
        explore_program(p, &cands, &cfg, &mut part, deadline);
    }
    part.traces_validated = part.transitions;
    part
}

pub fn part_c10(tier: Tier) -> Part {
    use crate::corpus::Stmt;
    let mut part = Part::new("e2e-signals-self-raised");
    let cfg = ExploreCfg {
        prop: "C10",
        depth: if tier == Tier::Quick { 5 } else { 7 },
        oracles: oracles_for("C10"),
        steps: true,
        restart: false,
        failing: false,
        remove_by_num: false,
        bp_only_before_start: true,
        continue_after_start: true,
        watches: 0,
        terminals: false,
        ext_sigint: true,
        wall: wall_cap(tier, 50, 3000),
    };
    let bodies = vec![
        vec![Stmt::Raise(10), Stmt::CallF, Stmt::Raise(14)],
        vec![Stmt::RaiseBurst, Stmt::Assign],
        vec![Stmt::Raise(12), Stmt::While(2), Stmt::Raise(10)],
    ];
    let progs = corpus::build_many(&bodies, &[Config::default_cfg()]).and_then(prepare);
    let progs = match progs {
        Ok(p) => p,
        Err(e) => {
            part.violate("C10:machinery:corpus", e, json!({}));
            part.exhaustive = false;
            return part;
        }
    };
    part.bounds = json!({"programs": progs.len(), "depth": cfg.depth, "signals": "SIGUSR1, SIGUSR2 (non-quiet), SIGALRM (quiet), raised by the program on itself; one program blocks USR1+USR2, raises both and unblocks (two pending at once)", "alphabet": "breakpoints before start; start/continue/stepi/step/next/finish at every stop"});
    part.rule = "explicit-state exploration of command histories over programs that raise signals on themselves and count handler runs; oracle: every non-quiet signal of the reference trace is reported once as a signal stop (with the receiving thread) in the state just before its handler, quiet ones are not reported, and whatever mix of continue and step commands is used the handler counters printed at exit equal the native run (each signal delivered exactly once); text patches as in C02".into();
    let deadline = Instant::now() + cfg.wall;
    for p in &progs {
        let mut cands = vec![];
        for mark in ["raise", "raise1", "post", "unblock"] {
            if let Some(l) = p.line_of(mark) {
                if !p.stmt_addrs(l).is_empty() && cands.len() < 2 {
                    cands.push(Cand::Line(l));
                }
            }
        }
        explore_program(p, &cands, &cfg, &mut part, deadline);
    }
    part.traces_validated = part.transitions;
    part
}

pub fn part_c05(tier: Tier) -> Part {
    let mut part = Part::new("e2e-backtrace");
    let cfg = ExploreCfg {
        prop: "C05",
        depth: if tier == Tier::Quick { 4 } else { 6 },
        oracles: oracles_for("C05"),
        steps: true,
        restart: false,
        failing: false,
        remove_by_num: false,
        bp_only_before_start: true,
        continue_after_start: true,
        watches: 0,
        terminals: false,
        ext_sigint: false,
        wall: wall_cap(tier, 50, 3000),
    };
    explore_all_with(tier, &cfg, &mut part, |p| candidates(p, 4).into_iter().filter(|c| !matches!(c, Cand::Line(_))).take(2).collect());
    part
}

fn explore_all(tier: Tier, cfg: &ExploreCfg, n_cands: usize, part: &mut Part) {
    explore_all_with(tier, cfg, part, |p| candidates(p, n_cands));
    let e = part.bounds["candidates_per_program"].take();
    let _ = e;
    part.bounds["candidates_per_program"] = json!(n_cands);
}

fn explore_all_with(tier: Tier, cfg: &ExploreCfg, part: &mut Part, pick: impl Fn(&Prog) -> Vec<Cand>) {
    let n_cands = 0;
    let progs = match corpus_for(tier) {
        Ok(p) => p,
        Err(e) => {
            part.violate(format!("{}:machinery:corpus", cfg.prop), e, json!({}));
            part.exhaustive = false;
            return;
        }
    };
    part.bounds = json!({"programs": progs.len(), "depth": cfg.depth, "candidates_per_program": n_cands,
        "alphabet": format!("start/continue, b+/b- per candidate (by address, file:line, function{}){}{}{}",
            if cfg.remove_by_num { ", removal also by number" } else { "" },
            if cfg.steps { ", stepi/step/next/finish" } else { "" },
            if cfg.restart { ", restart" } else { "" },
            if cfg.failing { ", failing break 0x10" } else { "" }),
        "wall_cap_s": cfg.wall.as_secs()});
    part.rule = "explicit-state BFS over command histories of the real Debugger, one worker process per history; canonical state = (started, exited, reference-trace index located from PTRACE_GETREGS + stack/data hash, enabled candidate set, observed text diff vs ELF, debugger's breakpoint list); every action of the alphabet is executed from every distinct state up to the depth bound; oracle = reference single-step trace of the same binary (independent tracer). Non-trivial = state with a located trace index or a breakpoint set".into();
    let deadline = Instant::now() + cfg.wall;
    for p in &progs {
        let cands = pick(p);
        if cands.is_empty() {
            continue;
        }
        explore_program(p, &cands, cfg, part, deadline);
        if Instant::now() > deadline {
            part.exhaustive = false;
            if !part.caps_hit.iter().any(|c| c.starts_with("wall cap")) {
                part.caps_hit.push("wall cap".into());
            }
            break;
        }
    }
    part.traces_validated = part.transitions;
    part.extra.insert("reference_traces".into(), json!(progs.iter().map(|p| json!({"program": p.name(), "steps": p.trace.steps.len()})).collect::<Vec<_>>()));
    let _ = Duration::from_secs(0);
}

/// Addresses the kernel does not accept for a debug register (outside the user address space):
/// a watchpoint there either is refused or, if the debugger lists it, must be in the registers.
pub fn part_c14_refused_addresses(_tier: Tier) -> Part {
    use crate::corpus::Stmt;
    let mut part = Part::new("e2e-watch-addresses-the-kernel-refuses");
    part.rule = "at a stop, set_watchpoint_on_memory is called for addresses outside the user address space (0x800000000000, 0xaaaaaaaad000, 0xffff800000000000, 0xfffffffffffffff8; sizes 1 and 8; write and read-write), alone, after two good watchpoints and before five good ones; after every call the enabled slots of u_debugreg of every thread (read with the harness's own PTRACE_PEEKUSER) must be exactly the watchpoints the debugger lists - a watchpoint the debugger accepts but no register holds is a violation - and the capacity (four, a fifth refused) must be unchanged afterwards".into();
    let progs = match corpus::build_many(&[vec![Stmt::Raise(14), Stmt::Assign, Stmt::Sleep(40)]], &[Config::default_cfg()]).and_then(prepare) {
        Ok(p) => p,
        Err(e) => {
            part.violate("C14:machinery:corpus", e, json!({}));
            part.exhaustive = false;
            return part;
        }
    };
    let p = &progs[0];
    let Some(line) = p.line_of("assign") else {
        part.violate("C14:machinery:no-line", "assign".to_string(), json!({}));
        return part;
    };
    let good: Vec<u64> = {
        let mut v: Vec<u64> = p.watch_cands.iter().map(|c| c.0 & !7).collect();
        v.sort();
        v.dedup();
        let b = v[0];
        (0..5).map(|i| b + 8 * i).collect()
    };
    let bad = BAD_ADDRS;
    let mut scripts: Vec<Vec<Value>> = vec![];
    for b in bad {
        for (size, rw) in [(8u64, false), (1, true)] {
            let w = |a: u64, size: u64, rw: bool| json!({"op":"watch_addr","addr":a,"size":size,"rw":rw});
            // alone, then the capacity
            let mut s1 = vec![w(b, size, rw)];
            s1.extend(good.iter().map(|g| w(*g, 8, false)));
            scripts.push(s1);
            // after two good ones, twice, then the capacity
            let mut s2 = vec![w(good[0], 8, false), w(good[1], 8, false), w(b, size, rw), w(b, size, rw)];
            s2.extend(good[2..].iter().map(|g| w(*g, 8, false)));
            scripts.push(s2);
        }
    }
    part.bounds = json!({"addresses": bad.len(), "scripts": scripts.len()});
    let jobs: Vec<Value> = scripts
        .iter()
        .map(|sc| {
            let mut job = init_json(p, false);
            let mut cmds = vec![json!({"op":"break_line","file":p.built.program.src_file,"line":line}), json!({"op":"start"})];
            cmds.extend(sc.iter().cloned());
            job["commands"] = json!(cmds);
            job
        })
        .collect();
    use rayon::prelude::*;
    let outs: Vec<WorkerOutcome> = jobs.par_iter().map(|j| run_worker("e2e", j, Duration::from_secs(120))).collect();
    for (j, out) in jobs.iter().zip(outs) {
        let replay = json!({"engine":"e2e-script","exe":p.built.exe,"commands":j["commands"]});
        part.states += 1;
        let WorkerOutcome::Ok(v) = out else {
            part.violate("C14:bad-address:debugger-crashed-or-hung", format!("[{}] {:?}", p.name(), out).chars().take(400).collect::<String>(), replay);
            continue;
        };
        let obs = v["obs"].as_array().cloned().unwrap_or_default();
        part.transitions += obs.len().saturating_sub(2) as u64;
        part.evaluations += obs.len().saturating_sub(2) as u64;
        let f = judge_bad_addresses(&p.name(), &obs);
        if f.is_empty() {
            part.distinct_nontrivial += 1;
        }
        for (sig, detail) in f {
            part.violate(sig, detail, replay.clone());
        }
    }
    part.traces_validated = part.states;
    part
}

const BAD_ADDRS: [u64; 4] = [0x8000_0000_0000, 0xaaaa_aaaa_d000, 0xffff_8000_0000_0000, 0xffff_ffff_ffff_fff8];

fn judge_bad_addresses(name: &str, obs: &[Value]) -> Vec<(String, String)> {
    let bad = BAD_ADDRS;
    let mut out = vec![];
    let mut hist = String::new();
    'obs: for o in obs.iter().skip(2) {
        let addr = o["cmd"]["addr"].as_u64().unwrap_or(0);
        let ok = o["res"]["ok"].as_bool().unwrap_or(false);
        let is_bad = bad.contains(&addr);
        hist.push_str(&format!("watch {addr:#x}:{} -> {}; ", o["cmd"]["size"], if ok { "accepted" } else { "refused" }));
        let listed: BTreeSet<u64> = o["wps"].as_array().map(|v| v.iter().filter_map(|w| w["addr"].as_u64()).collect()).unwrap_or_default();
        for th in o["dregs"].as_array().cloned().unwrap_or_default() {
            let dr7 = th["dr7"].as_u64().unwrap_or(0);
            let enabled: BTreeSet<u64> = (0..4u64).filter(|n| dr7 >> (2 * n) & 1 == 1).map(|n| th["dr"][n as usize].as_u64().unwrap_or(0)).collect();
            if enabled != listed {
                let kind = if is_bad && ok { "accepted-but-in-no-register:address-outside-user-space" } else if enabled.len() < listed.len() { "missing-slot" } else { "stale-or-extra-slot" };
                out.push((format!("C14:bad-address:{kind}"), format!("[{name}] {hist}thread {} has enabled slots {enabled:x?} (DR7 {dr7:#x}), the debugger lists watchpoints at {listed:x?}", th["tid"])));
                break 'obs;
            }
        }
    }
    // capacity afterwards: exactly four of the five good addresses
    let good_results: Vec<bool> = obs.iter().skip(2).filter(|o| !bad.contains(&o["cmd"]["addr"].as_u64().unwrap_or(0))).map(|o| o["res"]["ok"].as_bool().unwrap_or(false)).collect();
    if good_results != [true, true, true, true, false] {
        out.push(("C14:bad-address:capacity-changed".to_string(), format!("[{name}] {hist}the five good watchpoints were answered {good_results:?}, expected four accepted and the fifth refused")));
    }
    out
}

pub fn replay_bad_addresses(v: &Value) -> i32 {
    let p = match load_prog(v["exe"].as_str().unwrap_or("")) {
        Ok(p) => p,
        Err(e) => {
            eprintln!("{e}");
            return 2;
        }
    };
    let mut job = init_json(&p, false);
    job["commands"] = v["commands"].clone();
    match run_worker("e2e", &job, Duration::from_secs(120)) {
        WorkerOutcome::Ok(r) => {
            let f = judge_bad_addresses(&p.name(), &r["obs"].as_array().cloned().unwrap_or_default());
            for (sig, d) in &f {
                println!("violated {sig}: {d}");
            }
            if f.is_empty() { 0 } else { 1 }
        }
        o => {
            println!("{o:?}");
            1
        }
    }
}
