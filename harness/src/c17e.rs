//! C17 end to end: function templates, file templates and symbol regexes against a generated
//! program with nested modules, same-named functions and files, generics — compared with the
//! binary's own DWARF / symbol table read independently.

use crate::common::{Part, Tier};
use crate::corpus::{self, Config};
use crate::mt::session;
use serde_json::json;
use std::collections::{BTreeMap, BTreeSet};
use std::time::Duration;

const FN_TEXT: &str = r#"
pub mod a {
    pub mod b {
        #[inline(never)]
        pub fn f(x: u64) -> u64 {
            x + 1
        }
        #[inline(never)]
        pub fn gnr<T: Copy + Into<u64>>(t: T) -> u64 {
            t.into() + 2
        }
        #[inline(never)]
        pub fn fb(x: u64) -> u64 {
            x + 3
        }
    }
    #[inline(never)]
    pub fn f(x: u64) -> u64 {
        x + 4
    }
}
pub mod ab {
    #[inline(never)]
    pub fn f(x: u64) -> u64 {
        x + 5
    }
}
pub mod c {
    pub mod ab {
        #[inline(never)]
        pub fn f(x: u64) -> u64 {
            x + 6
        }
    }
    pub mod b {
        #[inline(never)]
        pub fn ff(x: u64) -> u64 {
            x + 7
        }
        #[inline(never)]
        pub fn f(x: u64) -> u64 {
            x + 8
        }
    }
}
#[path = "x/util.rs"]
pub mod xu;
#[path = "y/util.rs"]
pub mod yu;
#[path = "xx/util.rs"]
pub mod xxu;
#[path = "x/til.rs"]
pub mod xt;
#[inline(never)]
pub fn f(x: u64) -> u64 {
    x + 9
}
"#;

const MAIN_STMT: &str = "    a = a::b::f(a) + a::b::gnr(1u8) + a::b::gnr(2u64) + a::b::fb(a) + a::f(a) + ab::f(a) + c::ab::f(a) + c::b::ff(a) + c::b::f(a) + xu::helper(a) + yu::helper(a) + xxu::helper(a) + xt::helper(a) + f(a);";

fn util(n: u64) -> String {
    format!("#[inline(never)]\npub fn helper(x: u64) -> u64 {{\n    let y = x + {n};\n    y * 2\n}}\n")
}

pub fn part_names(tier: Tier) -> Part {
    let mut part = Part::new("c17_names_end_to_end");
    part.rule = "generated program with nested modules (a::b::f, a::f, ab::f, c::ab::f, c::b::f, c::b::ff, f, generic a::b::gnr with two instantiations) and same-named source files in different directories (x/util.rs, y/util.rs, xx/util.rs, x/til.rs): every '::'-suffix of every function path plus near-misses (partial first component, extra component, wrong case) as a function breakpoint template, every '/'-suffix of every file path plus partial-component near-misses as file template of a line breakpoint, and 12 regexes for `symbol`; the selected set must equal the set computed from the binary's DWARF / symbol table by an independent reader (gimli, rustc-demangle)".into();
    let prog = corpus::generate_custom("names", FN_TEXT, MAIN_STMT);
    let cfgs = if tier == Tier::Quick { vec![Config::default_cfg()] } else { vec![Config::default_cfg(), Config { toolchain: "stable".into(), opt: 0, dwarf: 5, pie: true }, Config { toolchain: "1.89".into(), opt: 0, dwarf: 5, pie: false }] };
    for cfg in cfgs {
        // the module files must exist next to the main source before rustc runs
        let dir = corpus::corpus_dir().join(format!("{}-{}", prog.name, cfg.tag()));
        for (p, n) in [("x/util.rs", 11), ("y/util.rs", 12), ("xx/util.rs", 13), ("x/til.rs", 14)] {
            let f = dir.join(p);
            let _ = std::fs::create_dir_all(f.parent().unwrap());
            let _ = std::fs::write(&f, util(n));
        }
        let built = match corpus::build(&prog, &cfg) {
            Ok(b) => b,
            Err(e) => {
                part.violate("MACHINERY:names-build", e, json!(null));
                continue;
            }
        };
        let dref = match crate::dwarfref::load(&built.exe) {
            Ok(d) => d,
            Err(e) => {
                part.violate("MACHINERY:dwarfref", e, json!(null));
                continue;
            }
        };
        // universe: live functions with their demangled paths
        let mut universe: Vec<(Vec<String>, u64, u64)> = vec![]; // (path components, lo, hi)
        for f in dref.live_funcs() {
            let Some(l) = &f.linkage else { continue };
            let dem = format!("{:#}", rustc_demangle::demangle(l));
            if !dem.starts_with("names::") {
                continue;
            }
            // strip generic arguments for the component split ("gen<u8>" stays one component)
            let mut comps = vec![];
            let mut depth = 0;
            let mut cur = String::new();
            let chars: Vec<char> = dem.chars().collect();
            let mut i = 0;
            while i < chars.len() {
                let c = chars[i];
                if c == '<' {
                    depth += 1;
                } else if c == '>' {
                    depth -= 1;
                }
                if depth == 0 && c == ':' && chars.get(i + 1) == Some(&':') {
                    comps.push(std::mem::take(&mut cur));
                    i += 2;
                    continue;
                }
                cur.push(c);
                i += 1;
            }
            comps.push(cur);
            for (lo, hi) in &f.ranges {
                universe.push((comps.clone(), *lo, *hi));
            }
        }
        let fn_of = |addr: u64| -> Option<String> { universe.iter().find(|(_, lo, hi)| addr >= *lo && addr < *hi).map(|(c, _, _)| c.join("::")) };
        // templates
        let base_name = |c: &str| c.split('<').next().unwrap_or(c).to_string();
        let mut templates: BTreeSet<String> = BTreeSet::new();
        for (comps, _, _) in &universe {
            let plain: Vec<String> = comps.iter().map(|c| base_name(c)).collect();
            for k in 0..plain.len() {
                let t = plain[k..].join("::");
                templates.insert(t.clone());
                // near misses
                if plain[k].len() > 1 {
                    templates.insert(format!("{}::{}", &plain[k][1..], plain[k + 1..].join("::")).trim_end_matches("::").to_string());
                }
                templates.insert(format!("z::{t}"));
                templates.insert(t.to_uppercase());
            }
        }
        templates.insert("b".into());
        templates.insert("a::b".into());
        templates.insert("helper".into());
        templates.insert("xu::helper".into());
        templates.insert("u::helper".into());
        let expected_fn = |t: &str| -> BTreeSet<String> {
            let want: Vec<&str> = t.split("::").collect();
            universe
                .iter()
                .filter(|(comps, _, _)| {
                    let plain: Vec<String> = comps.iter().map(|c| base_name(c)).collect();
                    plain.len() >= want.len() && plain[plain.len() - want.len()..].iter().zip(want.iter()).all(|(a, b)| a == b)
                })
                .map(|(c, _, _)| c.join("::"))
                .collect()
        };
        // file templates: every suffix of the four module files + the main file, and near misses
        let files = ["x/util.rs", "y/util.rs", "xx/util.rs", "x/til.rs"];
        let mut ftemplates: BTreeSet<String> = BTreeSet::new();
        for f in files {
            let full = dir.join(f).display().to_string();
            let comps: Vec<&str> = full.split('/').filter(|c| !c.is_empty()).collect();
            for k in (comps.len().saturating_sub(4))..comps.len() {
                ftemplates.insert(comps[k..].join("/"));
            }
            ftemplates.insert(format!("/{}", comps.join("/")));
        }
        for nm in ["til.rs", "util.r", "/util.rs", "x/x/util.rs", "til", "UTIL.RS", "y/til.rs", "xx/til.rs"] {
            ftemplates.insert(nm.to_string());
        }
        let expected_files = |t: &str| -> BTreeSet<String> {
            let rooted = t.starts_with('/');
            let want: Vec<&str> = t.split('/').filter(|c| !c.is_empty()).collect();
            files
                .iter()
                .filter(|f| {
                    let full = dir.join(f).display().to_string();
                    let comps: Vec<&str> = full.split('/').filter(|c| !c.is_empty()).collect();
                    if want.is_empty() || want.len() > comps.len() {
                        return false;
                    }
                    if rooted { comps == want } else { comps[comps.len() - want.len()..] == want[..] }
                })
                .map(|f| dir.join(f).display().to_string())
                .collect()
        };
        // (the demangled names carry the hash suffix `::h<16 hex>`, as `symbol` prints them)
        let regexes = ["helper", "^names::a::b::f::h", "names::.*::f::h[0-9a-f]+$", "gnr", "gnr<u8>", "::ab::", "^main$", "nosuchsymbol", "util", "^_start$", "f$", "a::b", "^names::f::"];
        let cmds = vec![json!({"op": "start"}), json!({"op": "c17_names", "fn_templates": templates.iter().collect::<Vec<_>>(), "file_templates": ftemplates.iter().collect::<Vec<_>>(), "line": 3, "regexes": regexes})];
        let run = session(&built.exe, |obs| cmds.get(obs.len()).cloned(), Duration::from_secs(120), cmds.len());
        let replay = json!({"engine": "mt", "exe": built.exe, "commands": cmds});
        part.states += run.obs.len() as u64;
        part.traces_validated += 1;
        if run.hang_at.is_some() || run.crashed.is_some() || run.obs.len() < 2 {
            part.violate("C17:e2e:session-broke", format!("[{}] hang {:?} crash {:?}", cfg.tag(), run.hang_at, run.crashed), replay);
            continue;
        }
        let res = &run.obs[1]["res"];
        let base = crate::reftrace::elf_info(&built.exe).map(|i| i.base).unwrap_or(0);
        for t in &templates {
            part.evaluations += 1;
            let addrs: Vec<u64> = res["fn"][t]["addrs"].as_array().map(|a| a.iter().filter_map(|x| x.as_u64()).collect()).unwrap_or_default();
            let got: BTreeSet<String> = addrs.iter().map(|a| fn_of(a.wrapping_sub(base).wrapping_add(dref.min_load_addr.min(0))).or_else(|| fn_of(*a)).or_else(|| fn_of(a.wrapping_sub(base))).unwrap_or(format!("?{a:#x}"))).collect();
            let want = expected_fn(t);
            if !want.is_empty() {
                part.distinct_nontrivial += 1;
            }
            if got != want {
                let missing: Vec<_> = want.difference(&got).collect();
                let extra: Vec<_> = got.difference(&want).collect();
                let kind = if !missing.is_empty() && extra.is_empty() { "misses-functions" } else if missing.is_empty() { "selects-extra-functions" } else { "selects-other-functions" };
                part.violate(format!("C17:e2e:function-template-{kind}"), format!("[{}] template `{t}` selects {got:?}, the binary has {want:?} ending with these components", cfg.tag()), replay.clone());
            }
        }
        for t in &ftemplates {
            part.evaluations += 1;
            let got: BTreeSet<String> = res["file"][t]["files"].as_array().map(|a| a.iter().filter_map(|x| x.as_str().map(|s| s.to_string())).collect()).unwrap_or_default();
            let want = expected_files(t);
            if !want.is_empty() {
                part.distinct_nontrivial += 1;
            }
            if got != want {
                let kind = if got.is_subset(&want) { "misses-files" } else if want.is_subset(&got) { "selects-extra-files" } else { "selects-other-files" };
                part.violate(format!("C17:e2e:file-template-{kind}"), format!("[{}] file template `{t}` (line 3) selects {got:?}, expected {want:?}", cfg.tag()), replay.clone());
            }
        }
        // symbols
        let symtab: Vec<String> = crate::reftrace::elf_info(&built.exe).map(|i| i.symbols.iter().map(|(s, _, _)| format!("{}", rustc_demangle::demangle(s))).chain(i.data_symbols.iter().map(|(s, _, _)| format!("{}", rustc_demangle::demangle(s)))).collect()).unwrap_or_default();
        for r in regexes {
            part.evaluations += 1;
            let re = regex::Regex::new(r).unwrap();
            let want: BTreeSet<String> = symtab.iter().filter(|s| re.is_match(s)).cloned().collect();
            let got: BTreeSet<String> = res["sym"][r]["names"].as_array().map(|a| a.iter().filter_map(|x| x.as_str().map(|s| s.to_string())).collect()).unwrap_or_default();
            // the harness's symbol list holds functions and data objects only: compare on those
            let got_known: BTreeSet<String> = got.iter().filter(|g| symtab.contains(g)).cloned().collect();
            if got_known != want {
                part.violate("C17:e2e:symbol-regex-result-differs", format!("[{}] symbol `{r}`: listed {:?}, the symbol table has {:?}", cfg.tag(), got_known.iter().take(8).collect::<Vec<_>>(), want.iter().take(8).collect::<Vec<_>>()), replay.clone());
            }
            if !want.is_empty() {
                part.distinct_nontrivial += 1;
            }
        }
        let mut by: BTreeMap<&str, usize> = BTreeMap::new();
        by.insert("function_templates", templates.len());
        by.insert("file_templates", ftemplates.len());
        by.insert("functions", universe.len());
        part.sample(json!({"config": cfg.tag(), "counts": by, "example": {"b::f": expected_fn("b::f"), "ab::f": expected_fn("ab::f"), "util.rs": expected_files("util.rs")}}));
    }
    part
}

fn crate_lib(only: &str, k: u64) -> String {
    format!("pub mod util;\n#[inline(never)]\npub fn init_unit(seed: u64) -> u64 {{\n    let value = seed + {k};\n    std::hint::black_box(value)\n}}\n#[inline(never)]\npub fn {only}(seed: u64) -> u64 {{\n    let value = seed * {k};\n    std::hint::black_box(value)\n}}\n")
}

const TWINS_MAIN: &str = "fn main() {\n    let mut a = std::env::args().count() as u64;\n    a = alpha::init_unit(a) + beta::init_unit(a);\n    a += alpha::only_a(a) + beta::only_b(a);\n    a += alpha::util::helper(a) + beta::util::helper(a);\n    println!(\"{a}\");\n}\n";

fn build_crates() -> Result<(String, std::path::PathBuf), String> {
    let dir = crate::common::build_dir().join("c17crates");
    let mut fresh = true;
    let srcs = [("alpha/src/lib.rs", crate_lib("only_a", 3)), ("beta/src/lib.rs", crate_lib("only_b", 5)), ("alpha/src/util.rs", util(21)), ("beta/src/util.rs", util(22)), ("twins.rs", TWINS_MAIN.to_string())];
    for (n, t) in &srcs {
        let p = dir.join(n);
        std::fs::create_dir_all(p.parent().unwrap()).map_err(|e| e.to_string())?;
        if std::fs::read_to_string(&p).map(|x| &x != t).unwrap_or(true) {
            std::fs::write(&p, t).map_err(|e| e.to_string())?;
            fresh = false;
        }
    }
    let exe = dir.join("twins");
    if fresh && exe.exists() {
        return Ok((exe.display().to_string(), dir));
    }
    let d = dir.display().to_string();
    let run = |args: &[&str]| -> Result<(), String> {
        let o = std::process::Command::new("rustc").current_dir("/").arg("+1.89").args(["--edition", "2021", "-g", "-C", "opt-level=0"]).args(args).output().map_err(|e| e.to_string())?;
        if o.status.success() { Ok(()) } else { Err(String::from_utf8_lossy(&o.stderr).to_string()) }
    };
    for c in ["alpha", "beta"] {
        run(&["--crate-type", "rlib", "--crate-name", c, "-o", &format!("{d}/lib{c}.rlib"), &format!("{d}/{c}/src/lib.rs")])?;
    }
    run(&["--extern", &format!("alpha={d}/libalpha.rlib"), "--extern", &format!("beta={d}/libbeta.rlib"), "-o", &format!("{d}/twins"), &format!("{d}/twins.rs")])?;
    Ok((exe.display().to_string(), dir))
}

/// Same-named source files and same-named functions, declared on the same lines, in two crates
/// (two compilation units whose file tables number their files alike).
pub fn part_crates(_tier: Tier) -> Part {
    let mut part = Part::new("c17_names_across_crates");
    part.rule = "program of three crates: alpha and beta each consist of src/lib.rs (fn init_unit on line 3, fn only_a / only_b on line 8) and src/util.rs (fn helper on line 2) with identical layout, so that the two compilation units give their files the same numbers and their functions the same names and declaration lines; every '/'-suffix of the four file paths plus partial-component near-misses as file template of a line breakpoint on a body line (4, 9 for lib.rs, 3 for util.rs), and every '::'-suffix of the six function paths plus near-misses as function template: the files / functions of the returned locations must be exactly those whose path ends with the components given (computed from the paths and from the binary's DWARF by an independent reader)".into();
    let (exe, dir) = match build_crates() {
        Ok(x) => x,
        Err(e) => {
            part.violate("MACHINERY:c17crates-build", e, json!(null));
            return part;
        }
    };
    let dref = match crate::dwarfref::load(&exe) {
        Ok(d) => d,
        Err(e) => {
            part.violate("MACHINERY:dwarfref", e, json!(null));
            return part;
        }
    };
    let mut universe: Vec<(Vec<String>, u64, u64)> = vec![];
    for f in dref.live_funcs() {
        let Some(l) = &f.linkage else { continue };
        let dem = format!("{:#}", rustc_demangle::demangle(l));
        if !(dem.starts_with("alpha::") || dem.starts_with("beta::")) {
            continue;
        }
        let comps: Vec<String> = dem.split("::").map(|s| s.to_string()).collect();
        for (lo, hi) in &f.ranges {
            universe.push((comps.clone(), *lo, *hi));
        }
    }
    let fn_of = |addr: u64| -> Option<String> { universe.iter().find(|(_, lo, hi)| addr >= *lo && addr < *hi).map(|(c, _, _)| c.join("::")) };
    let mut templates: BTreeSet<String> = BTreeSet::new();
    for (comps, _, _) in &universe {
        for k in 0..comps.len() {
            let t = comps[k..].join("::");
            templates.insert(t.clone());
            if comps[k].len() > 1 && k + 1 < comps.len() {
                templates.insert(format!("{}::{}", &comps[k][1..], comps[k + 1..].join("::")));
            }
            templates.insert(format!("z::{t}"));
        }
    }
    let expected_fn = |t: &str| -> BTreeSet<String> {
        let want: Vec<&str> = t.split("::").collect();
        universe.iter().filter(|(c, _, _)| c.len() >= want.len() && c[c.len() - want.len()..].iter().zip(want.iter()).all(|(a, b)| a == b)).map(|(c, _, _)| c.join("::")).collect()
    };
    let groups: [(&[&str], u64); 3] = [(&["alpha/src/lib.rs", "beta/src/lib.rs"], 4), (&["alpha/src/lib.rs", "beta/src/lib.rs"], 9), (&["alpha/src/util.rs", "beta/src/util.rs"], 3)];
    let all_files = ["alpha/src/lib.rs", "beta/src/lib.rs", "alpha/src/util.rs", "beta/src/util.rs"];
    let expected_files = |t: &str| -> BTreeSet<String> {
        let rooted = t.starts_with('/');
        let want: Vec<&str> = t.split('/').filter(|c| !c.is_empty()).collect();
        all_files
            .iter()
            .filter(|f| {
                let full = dir.join(f).display().to_string();
                let comps: Vec<&str> = full.split('/').filter(|c| !c.is_empty()).collect();
                if want.is_empty() || want.len() > comps.len() {
                    return false;
                }
                if rooted { comps == want } else { comps[comps.len() - want.len()..] == want[..] }
            })
            .map(|f| dir.join(f).display().to_string())
            .collect()
    };
    let mut cmds = vec![json!({"op": "start"})];
    let mut tsets = vec![];
    for (i, (files, line)) in groups.iter().enumerate() {
        let mut ft: BTreeSet<String> = BTreeSet::new();
        for f in files.iter() {
            let full = dir.join(f).display().to_string();
            let comps: Vec<&str> = full.split('/').filter(|c| !c.is_empty()).collect();
            for k in (comps.len().saturating_sub(4))..comps.len() {
                ft.insert(comps[k..].join("/"));
                if comps[k].len() > 1 {
                    ft.insert(format!("{}/{}", &comps[k][1..], comps[k + 1..].join("/")).trim_end_matches('/').to_string());
                }
            }
            ft.insert(format!("/{}", comps.join("/")));
        }
        ft.insert("gamma/src/lib.rs".into());
        let fts: Vec<&String> = if i == 0 { templates.iter().collect() } else { vec![] };
        cmds.push(json!({"op": "c17_names", "fn_templates": fts, "file_templates": ft.iter().collect::<Vec<_>>(), "line": line, "regexes": []}));
        tsets.push((ft, *line));
    }
    let run = session(&exe, |obs| cmds.get(obs.len()).cloned(), Duration::from_secs(120), cmds.len());
    let replay = json!({"engine": "mt", "exe": exe, "commands": cmds});
    part.states += run.obs.len() as u64;
    part.traces_validated += 1;
    if run.hang_at.is_some() || run.crashed.is_some() || run.obs.len() < cmds.len() {
        part.violate("C17:e2e:session-broke", format!("[crates] hang {:?} crash {:?}", run.hang_at, run.crashed), replay);
        return part;
    }
    let base = crate::reftrace::elf_info(&exe).map(|i| i.base).unwrap_or(0);
    let res = &run.obs[1]["res"];
    for t in &templates {
        part.evaluations += 1;
        let addrs: Vec<u64> = res["fn"][t]["addrs"].as_array().map(|a| a.iter().filter_map(|x| x.as_u64()).collect()).unwrap_or_default();
        let got: BTreeSet<String> = addrs.iter().map(|a| fn_of(*a).or_else(|| fn_of(a.wrapping_sub(base))).unwrap_or(format!("?{a:#x}"))).collect();
        let want = expected_fn(t);
        if !want.is_empty() {
            part.distinct_nontrivial += 1;
        }
        if got != want {
            let missing = want.difference(&got).count();
            let extra = got.difference(&want).count();
            let kind = if missing > 0 && extra == 0 { "misses-functions" } else if missing == 0 { "selects-extra-functions" } else { "selects-other-functions" };
            part.violate(format!("C17:e2e:function-template-{kind}:across-crates"), format!("[crates] template `{t}` selects {got:?}, the binary has {want:?} ending with these components"), replay.clone());
        }
    }
    for (i, (ft, line)) in tsets.iter().enumerate() {
        let res = &run.obs[i + 1]["res"];
        for t in ft {
            part.evaluations += 1;
            let got: BTreeSet<String> = res["file"][t]["files"].as_array().map(|a| a.iter().filter_map(|x| x.as_str().map(|s| s.to_string())).collect()).unwrap_or_default();
            let want: BTreeSet<String> = expected_files(t).into_iter().filter(|f| groups[i].0.iter().any(|g| f.ends_with(g))).collect();
            if !want.is_empty() {
                part.distinct_nontrivial += 1;
            }
            if got != want {
                let kind = if got.is_subset(&want) { "misses-files" } else if want.is_subset(&got) { "selects-extra-files" } else { "selects-other-files" };
                part.violate(format!("C17:e2e:file-template-{kind}:across-crates"), format!("[crates] file template `{t}` (line {line}) selects {got:?}, expected {want:?}"), replay.clone());
            }
        }
    }
    part.sample(json!({"functions": universe.iter().map(|(c, _, _)| c.join("::")).collect::<Vec<_>>(), "function_templates": templates.len(), "file_templates": tsets.iter().map(|(f, _)| f.len()).sum::<usize>(), "example": {"lib.rs": expected_files("lib.rs"), "init_unit": expected_fn("init_unit")}}));
    part
}
