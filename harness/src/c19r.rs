//! C19, "values kept in registers by optimized code are read from the right register": an
//! optimized (opt-level 1) program is walked instruction by instruction; at every stop and for every
//! frame of the executable the scalar locals and parameters the debugger shows are compared with an
//! independent evaluation of the same DWARF: own DIE walk (scope by lexical-block ranges), own
//! location-list selection (half-open ranges; return address - 1 for caller frames), own register
//! numbering, own CFI unwinder for the caller frames (gimli decodes the bytes, nothing else).

use crate::common::{Part, Tier};
use crate::e2w::Session;
use gimli::{EndianSlice, RunTimeEndian, UnwindSection};
use object::{Object, ObjectSection};
use serde_json::{Value, json};
use std::borrow::Cow;
use std::time::Duration;

type R = EndianSlice<'static, RunTimeEndian>;

struct Loaded {
    dwarf: gimli::Dwarf<R>,
    eh_frame: gimli::EhFrame<R>,
    bases: gimli::BaseAddresses,
    text: (u64, u64),
}

fn load(exe: &str) -> Result<&'static Loaded, String> {
    use std::sync::OnceLock;
    static CELL: OnceLock<Result<Loaded, String>> = OnceLock::new();
    CELL.get_or_init(|| {
        let data: &'static [u8] = Box::leak(std::fs::read(exe).map_err(|e| e.to_string())?.into_boxed_slice());
        let obj: &'static object::File<'static> = Box::leak(Box::new(object::File::parse(data).map_err(|e| e.to_string())?));
        let load_section = |id: gimli::SectionId| -> Result<R, gimli::Error> {
            let bytes: &'static [u8] = match obj.section_by_name(id.name()) {
                Some(s) => match s.uncompressed_data().unwrap_or(Cow::Borrowed(&[])) {
                    Cow::Borrowed(b) => b,
                    Cow::Owned(v) => Box::leak(v.into_boxed_slice()),
                },
                None => &[],
            };
            Ok(EndianSlice::new(bytes, RunTimeEndian::Little))
        };
        let dwarf = gimli::Dwarf::load(load_section).map_err(|e| e.to_string())?;
        let eh = obj.section_by_name(".eh_frame").ok_or("no .eh_frame")?;
        let eh_data: &'static [u8] = match eh.uncompressed_data().map_err(|e| e.to_string())? {
            Cow::Borrowed(b) => b,
            Cow::Owned(v) => Box::leak(v.into_boxed_slice()),
        };
        let text = obj.section_by_name(".text").ok_or("no .text")?;
        let mut bases = gimli::BaseAddresses::default().set_eh_frame(eh.address()).set_text(text.address());
        if let Some(h) = obj.section_by_name(".eh_frame_hdr") {
            bases = bases.set_eh_frame_hdr(h.address());
        }
        if let Some(g) = obj.section_by_name(".got") {
            bases = bases.set_got(g.address());
        }
        Ok(Loaded { dwarf, eh_frame: gimli::EhFrame::new(eh_data, RunTimeEndian::Little), bases, text: (text.address(), text.address() + text.size()) })
    })
    .as_ref()
    .map_err(|e| e.clone())
}

/// DWARF register number -> value, this file's own table (System V x86-64 psABI, figure 3.36)
fn regs_of(r: &libc::user_regs_struct) -> [u64; 17] {
    [r.rax, r.rdx, r.rcx, r.rbx, r.rsi, r.rdi, r.rbp, r.rsp, r.r8, r.r9, r.r10, r.r11, r.r12, r.r13, r.r14, r.r15, r.rip]
}

fn read_mem(pid: i32, addr: u64, len: usize) -> Option<Vec<u8>> {
    use std::os::unix::fs::FileExt;
    let f = std::fs::File::open(format!("/proc/{pid}/mem")).ok()?;
    let mut buf = vec![0u8; len];
    f.read_exact_at(&mut buf, addr).ok()?;
    Some(buf)
}

/// One frame of the reference unwinder: registers (DWARF numbering), CFA, and the pc to use for
/// lookups (the pc itself in frame 0, return address - 1 above).
struct Frame {
    regs: [u64; 17],
    cfa: Option<u64>,
    lookup_pc: u64,
    /// a caller frame: only rsp, rip and the callee-saved registers (rbx, rbp, r12-r15) are known
    caller: bool,
}

/// registers the calling convention preserves across a call (DWARF numbers) + rsp, rip
const PRESERVED: [u16; 8] = [3, 6, 7, 12, 13, 14, 15, 16];

fn unwind(l: &Loaded, pid: i32, base: u64, regs0: [u64; 17], max: usize) -> Vec<Frame> {
    let mut frames = vec![];
    let mut regs = regs0;
    let mut lookup_pc = regs[16];
    let mut ctx = gimli::UnwindContext::new();
    for _ in 0..max {
        let file_pc = lookup_pc.wrapping_sub(base);
        if file_pc < l.text.0 || file_pc >= l.text.1 {
            break;
        }
        let row = match l.eh_frame.unwind_info_for_address(&l.bases, &mut ctx, file_pc, gimli::EhFrame::cie_from_offset) {
            Ok(r) => r.clone(),
            Err(_) => {
                frames.push(Frame { regs, cfa: None, lookup_pc, caller: !frames.is_empty() });
                break;
            }
        };
        let cfa = match row.cfa() {
            gimli::CfaRule::RegisterAndOffset { register, offset } if (register.0 as usize) < 17 => Some(regs[register.0 as usize].wrapping_add(*offset as u64)),
            _ => None,
        };
        let caller = !frames.is_empty();
        frames.push(Frame { regs, cfa, lookup_pc, caller });
        let Some(cfa) = cfa else { break };
        let mut next = regs;
        let mut ra = None;
        for (reg, rule) in row.registers() {
            let idx = reg.0 as usize;
            if idx >= 17 {
                continue;
            }
            let v = match rule {
                gimli::RegisterRule::Offset(o) => read_mem(pid, cfa.wrapping_add(*o as u64), 8).map(|b| u64::from_le_bytes(b.try_into().unwrap())),
                gimli::RegisterRule::ValOffset(o) => Some(cfa.wrapping_add(*o as u64)),
                gimli::RegisterRule::Register(r) if (r.0 as usize) < 17 => Some(regs[r.0 as usize]),
                gimli::RegisterRule::SameValue => Some(regs[idx]),
                _ => None,
            };
            if let Some(v) = v {
                if idx == 16 {
                    ra = Some(v);
                } else {
                    next[idx] = v;
                }
            }
        }
        let Some(ra) = ra else { break };
        next[7] = cfa;
        next[16] = ra;
        regs = next;
        lookup_pc = ra.wrapping_sub(1);
    }
    frames
}

#[derive(Debug)]
enum Expect {
    /// the DWARF gives this value (little-endian bytes of the type's size)
    Bytes(Vec<u8>),
    /// no location covers the pc / the piece is empty
    Unavailable,
    /// forms this reader does not evaluate (entry values, vector registers, composite types)
    Skip(&'static str),
}

struct RefVar {
    name: String,
    is_arg: bool,
    signed: bool,
    is_bool: bool,
    expect: Expect,
    how: String,
}

fn eval_expr(l: &Loaded, unit: &gimli::Unit<R>, expr: gimli::Expression<R>, fr: &Frame, frame_base: Option<u64>, pid: i32, base: u64, size: usize) -> (Expect, String) {
    let mut how = String::new();
    let mut eval = expr.evaluation(unit.encoding());
    let mut res = match eval.evaluate() {
        Ok(r) => r,
        Err(_) => return (Expect::Skip("evaluation error"), how),
    };
    loop {
        res = match res {
            gimli::EvaluationResult::Complete => break,
            gimli::EvaluationResult::RequiresRegister { register, .. } => {
                if register.0 as usize >= 17 {
                    return (Expect::Skip("vector register"), how);
                }
                if fr.caller && !PRESERVED.contains(&register.0) {
                    return (Expect::Skip("call-clobbered register in a caller frame"), how);
                }
                how.push_str(&format!("breg{} ", register.0));
                match eval.resume_with_register(gimli::Value::Generic(fr.regs[register.0 as usize])) {
                    Ok(r) => r,
                    Err(_) => return (Expect::Skip("evaluation error"), how),
                }
            }
            gimli::EvaluationResult::RequiresFrameBase => {
                let Some(fb) = frame_base else { return (Expect::Skip("frame base"), how) };
                how.push_str("fbreg ");
                match eval.resume_with_frame_base(fb) {
                    Ok(r) => r,
                    Err(_) => return (Expect::Skip("evaluation error"), how),
                }
            }
            gimli::EvaluationResult::RequiresCallFrameCfa => {
                let Some(cfa) = fr.cfa else { return (Expect::Skip("cfa"), how) };
                how.push_str("cfa ");
                match eval.resume_with_call_frame_cfa(cfa) {
                    Ok(r) => r,
                    Err(_) => return (Expect::Skip("evaluation error"), how),
                }
            }
            gimli::EvaluationResult::RequiresMemory { address, size, .. } => {
                let Some(b) = read_mem(pid, address, size as usize) else { return (Expect::Skip("memory"), how) };
                let mut w = [0u8; 8];
                w[..b.len().min(8)].copy_from_slice(&b[..b.len().min(8)]);
                how.push_str("deref ");
                match eval.resume_with_memory(gimli::Value::Generic(u64::from_le_bytes(w))) {
                    Ok(r) => r,
                    Err(_) => return (Expect::Skip("evaluation error"), how),
                }
            }
            gimli::EvaluationResult::RequiresRelocatedAddress(a) => match eval.resume_with_relocated_address(a.wrapping_add(base)) {
                Ok(r) => r,
                Err(_) => return (Expect::Skip("evaluation error"), how),
            },
            gimli::EvaluationResult::RequiresEntryValue(_) => return (Expect::Skip("entry value"), how),
            _ => return (Expect::Skip("unsupported requirement"), how),
        };
    }
    let _ = l;
    let pieces = eval.result();
    if pieces.is_empty() {
        return (Expect::Unavailable, how);
    }
    let mut out: Vec<u8> = vec![];
    for p in &pieces {
        let n = p.size_in_bits.map(|b| (b / 8) as usize).unwrap_or(size);
        if p.bit_offset.unwrap_or(0) != 0 || p.size_in_bits.map(|b| b % 8 != 0).unwrap_or(false) {
            return (Expect::Skip("bit piece"), how);
        }
        match &p.location {
            gimli::Location::Register { register } => {
                if register.0 as usize >= 17 {
                    return (Expect::Skip("vector register"), how);
                }
                if fr.caller && !PRESERVED.contains(&register.0) {
                    return (Expect::Skip("call-clobbered register in a caller frame"), how);
                }
                how.push_str(&format!("reg{} ", register.0));
                out.extend_from_slice(&fr.regs[register.0 as usize].to_le_bytes()[..n.min(8)]);
            }
            gimli::Location::Address { address } => {
                how.push_str(&format!("mem[{address:#x}] "));
                match read_mem(pid, *address, n) {
                    Some(b) => out.extend_from_slice(&b),
                    None => return (Expect::Skip("memory"), how),
                }
            }
            gimli::Location::Value { value } => {
                how.push_str("stack_value ");
                let v = match value {
                    gimli::Value::Generic(v) | gimli::Value::U64(v) => *v,
                    gimli::Value::I64(v) => *v as u64,
                    gimli::Value::U32(v) => *v as u64,
                    gimli::Value::I32(v) => *v as i64 as u64,
                    gimli::Value::U16(v) => *v as u64,
                    gimli::Value::I16(v) => *v as i64 as u64,
                    gimli::Value::U8(v) => *v as u64,
                    gimli::Value::I8(v) => *v as i64 as u64,
                    _ => return (Expect::Skip("float value"), how),
                };
                out.extend_from_slice(&v.to_le_bytes()[..n.min(8)]);
            }
            gimli::Location::Bytes { value } => {
                how.push_str("implicit ");
                out.extend_from_slice(&value.slice()[..n.min(value.len())]);
            }
            gimli::Location::Empty => return (Expect::Unavailable, how),
            _ => return (Expect::Skip("implicit pointer"), how),
        }
    }
    if out.len() != size {
        return (Expect::Skip("size mismatch"), how);
    }
    (Expect::Bytes(out), how)
}

/// The scalar (base-type) locals and parameters of the innermost non-inlined function at the
/// frame's lookup pc, with the value this reader derives from their DWARF locations.
fn ref_vars(l: &Loaded, pid: i32, base: u64, fr: &Frame) -> Result<(String, Vec<RefVar>, Vec<(String, bool)>), String> {
    let pc = fr.lookup_pc.wrapping_sub(base);
    let mut units = l.dwarf.units();
    while let Some(h) = units.next().map_err(|e| e.to_string())? {
        let unit = l.dwarf.unit(h).map_err(|e| e.to_string())?;
        let mut tree = unit.entries_tree(None).map_err(|e| e.to_string())?;
        let root = tree.root().map_err(|e| e.to_string())?;
        let mut found: Option<gimli::UnitOffset> = None;
        // subprograms may sit under namespaces
        fn find_fn(l: &Loaded, unit: &gimli::Unit<R>, node: gimli::EntriesTreeNode<R>, pc: u64, found: &mut Option<gimli::UnitOffset>) -> Result<(), String> {
            let mut ch = node.children();
            while let Some(c) = ch.next().map_err(|e| e.to_string())? {
                let e = c.entry();
                match e.tag() {
                    gimli::DW_TAG_subprogram => {
                        let mut rs = l.dwarf.die_ranges(unit, e).map_err(|e| e.to_string())?;
                        while let Some(r) = rs.next().map_err(|e| e.to_string())? {
                            if r.begin <= pc && pc < r.end {
                                *found = Some(e.offset());
                            }
                        }
                    }
                    gimli::DW_TAG_namespace => find_fn(l, unit, c, pc, found)?,
                    _ => {}
                }
            }
            Ok(())
        }
        find_fn(l, &unit, root, pc, &mut found)?;
        let Some(off) = found else { continue };
        let mut tree = unit.entries_tree(Some(off)).map_err(|e| e.to_string())?;
        let node = tree.root().map_err(|e| e.to_string())?;
        let fe = node.entry();
        let fname = fe.attr_value(gimli::DW_AT_name).and_then(|v| l.dwarf.attr_string(&unit, v).ok()).map(|s| s.to_string_lossy().into_owned()).unwrap_or_default();
        // frame base: a register location (DW_OP_reg7) or the CFA
        let frame_base = match fe.attr_value(gimli::DW_AT_frame_base) {
            Some(gimli::AttributeValue::Exprloc(e)) => match eval_expr(l, &unit, e, fr, None, pid, base, 8).0 {
                Expect::Bytes(b) => Some(u64::from_le_bytes(b.try_into().unwrap())),
                _ => None,
            },
            _ => None,
        };
        let mut vars = vec![];
        let mut names: Vec<(String, bool)> = vec![];
        fn walk(l: &Loaded, unit: &gimli::Unit<R>, node: gimli::EntriesTreeNode<R>, pc: u64, fr: &Frame, frame_base: Option<u64>, pid: i32, base: u64, vars: &mut Vec<RefVar>, names: &mut Vec<(String, bool)>) -> Result<(), String> {
            let mut ch = node.children();
            while let Some(c) = ch.next().map_err(|e| e.to_string())? {
                let e = c.entry();
                match e.tag() {
                    gimli::DW_TAG_lexical_block => {
                        let mut inside = false;
                        let mut rs = l.dwarf.die_ranges(unit, e).map_err(|e| e.to_string())?;
                        while let Some(r) = rs.next().map_err(|e| e.to_string())? {
                            if r.begin <= pc && pc < r.end {
                                inside = true;
                            }
                        }
                        if inside {
                            walk(l, unit, c, pc, fr, frame_base, pid, base, vars, names)?;
                        }
                    }
                    gimli::DW_TAG_formal_parameter | gimli::DW_TAG_variable => {
                        let Some(name) = e.attr_value(gimli::DW_AT_name).and_then(|v| l.dwarf.attr_string(unit, v).ok()).map(|s| s.to_string_lossy().into_owned()) else { continue };
                        names.push((name.clone(), e.tag() == gimli::DW_TAG_formal_parameter));
                        // type: base types only
                        let ty = match e.attr_value(gimli::DW_AT_type) {
                            Some(gimli::AttributeValue::UnitRef(o)) => unit.entry(o).ok(),
                            _ => None,
                        };
                        let Some(ty) = ty else { continue };
                        if ty.tag() != gimli::DW_TAG_base_type {
                            continue;
                        }
                        let size = ty.attr_value(gimli::DW_AT_byte_size).and_then(|v| v.udata_value()).unwrap_or(0) as usize;
                        let enc = match ty.attr_value(gimli::DW_AT_encoding) {
                            Some(gimli::AttributeValue::Encoding(e)) => e,
                            _ => continue,
                        };
                        let (signed, is_bool) = match enc {
                            gimli::DW_ATE_signed | gimli::DW_ATE_signed_char => (true, false),
                            gimli::DW_ATE_unsigned | gimli::DW_ATE_unsigned_char => (false, false),
                            gimli::DW_ATE_boolean => (false, true),
                            _ => continue,
                        };
                        if size == 0 || size > 8 {
                            continue;
                        }
                        let is_arg = e.tag() == gimli::DW_TAG_formal_parameter;
                        let (expect, how) = match e.attr(gimli::DW_AT_location) {
                            None => (Expect::Unavailable, "no location attribute".to_string()),
                            Some(attr) => match attr.value() {
                                gimli::AttributeValue::Exprloc(x) => eval_expr(l, unit, x, fr, frame_base, pid, base, size),
                                v => match l.dwarf.attr_locations(unit, v).map_err(|e| e.to_string())? {
                                    Some(mut it) => {
                                        let mut chosen = None;
                                        while let Some(le) = it.next().map_err(|e| e.to_string())? {
                                            if le.range.begin <= pc && pc < le.range.end {
                                                chosen = Some(le.data);
                                                break;
                                            }
                                        }
                                        match chosen {
                                            Some(x) => eval_expr(l, unit, x, fr, frame_base, pid, base, size),
                                            None => (Expect::Unavailable, "no list entry covers the pc".to_string()),
                                        }
                                    }
                                    None => (Expect::Skip("location form"), String::new()),
                                },
                            },
                        };
                        vars.push(RefVar { name, is_arg, signed, is_bool, expect, how });
                    }
                    _ => {}
                }
            }
            Ok(())
        }
        walk(l, &unit, node, pc, fr, frame_base, pid, base, &mut vars, &mut names)?;
        return Ok((fname, vars, names));
    }
    Err(format!("no function at {pc:#x}"))
}

fn render(v: &RefVar, b: &[u8]) -> Value {
    let mut w = [0u8; 8];
    w[..b.len()].copy_from_slice(b);
    let u = u64::from_le_bytes(w);
    if v.is_bool {
        return json!(u & 0xff != 0);
    }
    if v.signed {
        let shift = 64 - 8 * b.len() as u32;
        json!((((u << shift) as i64) >> shift).to_string())
    } else {
        json!(u.to_string())
    }
}

/// {"op":"regwalk","max_steps":N,"until_fn":"main"}: from the current stop, `stepi` up to N times
/// (stopping when the innermost function is `until_fn`); at every stop compare every frame.
pub fn regwalk(s: &mut Session, cmd: &Value) -> Value {
    let max_steps = cmd["max_steps"].as_u64().unwrap_or(100);
    let until = cmd["until_fn"].as_str().unwrap_or("main").to_string();
    let l = match load(&s.exe) {
        Ok(l) => l,
        Err(e) => return json!({"ok": false, "error": e}),
    };
    let base = s.elf.base;
    let mut findings: Vec<Value> = vec![];
    let (mut stops, mut compared, mut unavailable, mut skipped, mut upper_frame_compared, mut reg_located, mut scope_checked, mut bt_compared, mut fi_compared) = (0u64, 0u64, 0u64, 0u64, 0u64, 0u64, 0u64, 0u64, 0u64);
    let mut skip_reasons: std::collections::BTreeMap<String, u64> = Default::default();
    let mut regs_seen: std::collections::BTreeSet<String> = Default::default();
    let mut samples: Vec<Value> = vec![];
    let mut fns_seen: std::collections::BTreeSet<String> = Default::default();
    let mut ended = "max_steps";
    for step in 0..=max_steps {
        let d = s.dbg.as_mut().unwrap();
        let tid = d.ecx().pid_on_focus();
        let Ok(regs) = nix::sys::ptrace::getregs(tid) else {
            ended = "no registers";
            break;
        };
        let frames = unwind(l, tid.as_raw(), base, regs_of(&regs), 8);
        if frames.is_empty() {
            ended = "left the executable";
            break;
        }
        stops += 1;
        // the step before this stop was issued while an outer frame was selected: the new stop must
        // be looked at from its innermost frame again
        if step > 0 {
            let d = s.dbg.as_ref().unwrap();
            if d.ecx().frame_num() != 0 {
                findings.push(json!({"sig": "C05:optimized:frame-selection-survives-a-step", "detail": format!("step {step} pc {:#x}: after stepi the frame in focus is number {}", regs.rip.wrapping_sub(base), d.ecx().frame_num())}));
            } else if let (Ok(fi), Some(cfa)) = (d.frame_info(), frames[0].cfa) {
                if fi.cfa.as_u64() != cfa {
                    findings.push(json!({"sig": "C05:optimized:frame-selection-survives-a-step", "detail": format!("step {step} pc {:#x}: frame info right after stepi reports the CFA {:#x}, the innermost frame's is {cfa:#x}", regs.rip.wrapping_sub(base), fi.cfa.as_u64())}));
                }
            }
        }
        // C05 on optimized code: the debugger's backtrace against this file's unwinder, frame by
        // frame (instruction pointer = pc / return address, function = the subprogram DIE found here)
        {
            let d = s.dbg.as_ref().unwrap();
            match d.backtrace(tid) {
                Ok(bt) => {
                    for (k, fr) in frames.iter().enumerate() {
                        bt_compared += 1;
                        let want_ip = if k == 0 { fr.lookup_pc } else { fr.lookup_pc + 1 };
                        let want_fn = ref_vars(l, tid.as_raw(), base, fr).map(|x| x.0).unwrap_or_default();
                        match bt.get(k) {
                            None => findings.push(json!({"sig": "C05:optimized:backtrace-too-short", "detail": format!("step {step} pc {:#x}: the backtrace has {} frames, this reader's unwinder finds frame {k} ({want_fn}) at {want_ip:#x}", regs.rip.wrapping_sub(base), bt.len())})),
                            Some(f) => {
                                let ip = f.ip.as_u64();
                                if ip != want_ip {
                                    findings.push(json!({"sig": format!("C05:optimized:frame-address-differs:{}", if k == 0 { "innermost" } else { "caller" }), "detail": format!("step {step} pc {:#x}: frame {k} reported at {:#x}, the CFI of the frame below gives the return address {:#x} ({want_fn})", regs.rip.wrapping_sub(base), ip.wrapping_sub(base), want_ip.wrapping_sub(base))}));
                                    break;
                                }
                                let name = f.func_name.clone().unwrap_or_default();
                                if !want_fn.is_empty() && !(name == want_fn || name.ends_with(&format!("::{want_fn}"))) {
                                    findings.push(json!({"sig": "C05:optimized:frame-function-differs", "detail": format!("step {step} pc {:#x}: frame {k} at {:#x} is named `{name}`, the subprogram that contains the call is `{want_fn}`", regs.rip.wrapping_sub(base), ip.wrapping_sub(base))}));
                                }
                            }
                        }
                    }
                }
                Err(e) => findings.push(json!({"sig": "C05:optimized:backtrace-failed", "detail": format!("step {step} pc {:#x}: {e}", regs.rip.wrapping_sub(base))})),
            }
        }
        let mut innermost = String::new();
        for (k, fr) in frames.iter().enumerate() {
            let (fname, vars, in_scope) = match ref_vars(l, tid.as_raw(), base, fr) {
                Ok(x) => x,
                Err(_) => break,
            };
            if k == 0 {
                innermost = fname.clone();
            }
            if fname == "main" || fname.contains("lang_start") || fname.is_empty() {
                break;
            }
            fns_seen.insert(fname.clone());
            let d = s.dbg.as_mut().unwrap();
            if d.set_frame_into_focus(k as u32).is_err() {
                findings.push(json!({"sig": "C19:registers:frame-cannot-be-selected", "detail": format!("step {step}: frame {k} ({fname}) of pc {:#x} cannot be selected", regs.rip)}));
                break;
            }
            let d = s.dbg.as_ref().unwrap();
            // `frame info` of the selected frame: number, canonical frame address, return address
            match d.frame_info() {
                Ok(fi) => {
                    fi_compared += 1;
                    let want_ra = frames.get(k + 1).map(|f| f.lookup_pc + 1);
                    if fi.num as usize != k {
                        findings.push(json!({"sig": "C05:optimized:frame-info:wrong-frame-number", "detail": format!("step {step}: frame {k} ({fname}) selected, frame info reports number {}", fi.num)}));
                    }
                    if let Some(cfa) = fr.cfa {
                        if fi.cfa.as_u64() != cfa {
                            findings.push(json!({"sig": format!("C05:optimized:frame-info:cfa-differs:{}", if k == 0 { "innermost" } else { "caller" }), "detail": format!("step {step}: frame {k} ({fname}) lookup pc {:#x}: frame info reports the CFA {:#x}, the CFI row applied to this frame's registers gives {cfa:#x}", fr.lookup_pc.wrapping_sub(base), fi.cfa.as_u64())}));
                        }
                    }
                    if let (Some(w), Some(g)) = (want_ra, fi.return_addr) {
                        if g.as_u64() != w {
                            findings.push(json!({"sig": "C05:optimized:frame-info:return-address-differs", "detail": format!("step {step}: frame {k} ({fname}): frame info reports the return address {:#x}, the frame above is at {w:#x}", g.as_u64())}));
                        }
                    }
                }
                Err(e) => findings.push(json!({"sig": "C05:optimized:frame-info:failed", "detail": format!("step {step}: frame {k} ({fname}): {e}")})),
            }
            use bugstalker::debugger::variable::dqe::{Dqe, Selector};
            let locals = d.read_local_variables().map(|v| v.into_iter().map(|q| (q.identity().name.clone().unwrap_or_default(), crate::valw::vjson(q.value()))).collect::<Vec<_>>());
            let args = d.read_argument(Dqe::Variable(Selector::Any)).map(|v| v.into_iter().map(|q| (q.identity().name.clone().unwrap_or_default(), crate::valw::vjson(q.value()))).collect::<Vec<_>>());
            let (Ok(locals), Ok(args)) = (locals, args) else {
                findings.push(json!({"sig": "C19:registers:variables-cannot-be-read", "detail": format!("step {step}: frame {k} ({fname}) at pc {:#x}", regs.rip)}));
                continue;
            };
            // nothing may be listed that is not in scope at this frame's position (for a caller frame:
            // the call instruction, i.e. return address - 1)
            for (n, _) in &locals {
                scope_checked += 1;
                if !in_scope.iter().any(|(m, is_arg)| m == n && !*is_arg) {
                    findings.push(json!({"sig": format!("C19:registers:variable-listed-outside-its-scope{}", if k > 0 { ":caller-frame" } else { "" }), "detail": format!("step {step}: frame {k} ({fname}) lookup pc {:#x}: `{n}` is listed among the locals, the blocks that contain this position declare {:?}", fr.lookup_pc.wrapping_sub(base), in_scope.iter().filter(|x| !x.1).map(|x| x.0.clone()).collect::<Vec<_>>())}));
                }
            }
            for (m, is_arg) in &in_scope {
                if *is_arg && !args.iter().any(|(n, _)| n == m) {
                    findings.push(json!({"sig": "C19:registers:parameter-not-listed", "detail": format!("step {step}: frame {k} ({fname}): parameter `{m}` is not among the arguments shown")}));
                }
            }
            for v in &vars {
                let shown = if v.is_arg { args.iter().find(|(n, _)| *n == v.name) } else { locals.iter().find(|(n, _)| *n == v.name) };
                let shown_val: Option<Value> = shown.and_then(|(_, j)| if j["k"] == "scalar" && !j["v"].is_null() { Some(j["v"].clone()) } else { None });
                match &v.expect {
                    Expect::Skip(why) => {
                        skipped += 1;
                        *skip_reasons.entry(why.to_string()).or_default() += 1;
                    }
                    Expect::Unavailable => {
                        unavailable += 1;
                        if let Some(sv) = shown_val {
                            findings.push(json!({"sig": "C19:registers:value-shown-where-the-dwarf-has-no-location", "detail": format!("step {step}: frame {k} ({fname}) lookup pc {:#x}: `{}` shown as {sv}, {}", fr.lookup_pc.wrapping_sub(base), v.name, v.how)}));
                        }
                    }
                    Expect::Bytes(b) => {
                        compared += 1;
                        if k > 0 {
                            upper_frame_compared += 1;
                        }
                        if v.how.starts_with("reg") {
                            reg_located += 1;
                            regs_seen.insert(format!("{}{}", if k > 0 { "caller:" } else { "" }, v.how.trim()));
                        }
                        let want = render(v, b);
                        if samples.len() < 4 && k > 0 && v.how.starts_with("reg") {
                            samples.push(json!({"frame": k, "function": fname, "variable": v.name, "location": v.how.trim(), "value": want}));
                        }
                        match shown_val {
                            Some(sv) if sv == want => {}
                            Some(sv) => findings.push(json!({"sig": format!("C19:registers:value-differs-from-the-dwarf-location{}", if k > 0 { ":caller-frame" } else { "" }), "detail": format!("step {step}: frame {k} ({fname}) lookup pc {:#x}: `{}` shown as {sv}, its location ({}) holds {want}", fr.lookup_pc.wrapping_sub(base), v.name, v.how.trim())})),
                            None => findings.push(json!({"sig": format!("C19:registers:located-variable-not-shown{}", if k > 0 { ":caller-frame" } else { "" }), "detail": format!("step {step}: frame {k} ({fname}) lookup pc {:#x}: `{}` has the location {} = {want}; shown: {}", fr.lookup_pc.wrapping_sub(base), v.name, v.how.trim(), shown.map(|(_, j)| j.to_string()).unwrap_or("not listed".into()))})),
                        }
                    }
                }
            }
        }
        let d = s.dbg.as_mut().unwrap();
        if innermost == until || innermost.is_empty() {
            let _ = d.set_frame_into_focus(0);
            ended = "reached until_fn";
            break;
        }
        if step == max_steps {
            let _ = d.set_frame_into_focus(0);
            break;
        }
        // (the outermost inspected frame stays selected across the step)
        if d.stepi().is_err() {
            ended = "stepi failed";
            break;
        }
        if s.exited.is_some() {
            ended = "exited";
            break;
        }
    }
    findings.truncate(40);
    json!({"ok": true, "stops": stops, "compared": compared, "compared_in_caller_frames": upper_frame_compared, "register_located": reg_located, "unavailable": unavailable, "scope_checked": scope_checked, "backtrace_frames_compared": bt_compared, "frame_infos_compared": fi_compared, "skipped": skipped, "skip_reasons": skip_reasons, "locations_seen": regs_seen, "functions": fns_seen, "findings": findings, "samples": samples, "ended": ended})
}

// ------------------------------------------------------------------------------------------------
// harness side

const PROGRAM: &str = r#"use std::hint::black_box;

#[inline(never)]
fn six(a: u64, b: u64, c: u64, d: u64, e: u64, f: u64) -> u64 {
    let s = a ^ (b << 1) ^ (c << 2) ^ (d << 3) ^ (e << 4) ^ (f << 5);
    let t = black_box(s) + a;
    t.wrapping_mul(b | 1)
}

#[inline(never)]
fn keep(a: u64, b: u64, c: u64, d: u64, e: u64) -> u64 {
    let p = a + 1;
    let q = b.wrapping_mul(3);
    let r = c ^ 0x55;
    let t = d + e;
    let u = e.wrapping_sub(7);
    let m = six(p, q, r, t, u, 6);
    let n = six(u, t, r, q, p, m);
    m ^ n ^ p ^ q ^ r ^ t ^ u
}

#[inline(never)]
fn rec(n: u64, acc: u64) -> u64 {
    let here = n * 100 + acc;
    if n == 0 {
        return six(here, 1, 2, 3, 4, 5);
    }
    let below = rec(n - 1, acc + n);
    below ^ here
}

#[inline(never)]
fn mixed(x: u32, y: i16, z: u8, w: i64, fl: f64, b: bool) -> i64 {
    let xx = x as i64 * 2;
    let yy = y as i64 - 5;
    let zz = z as i64 + 1;
    let k = six(xx as u64, yy as u64, zz as u64, w as u64, fl as u64, b as u64) as i64;
    k + xx + yy + zz + w
}

#[inline(never)]
fn narrow(a: u8, b: i8, c: u16, d: i32, e: bool, f: u32) -> i32 {
    let aa = a.wrapping_add(200);
    let bb = b.wrapping_sub(100);
    let cc = c.wrapping_mul(3);
    let dd = d.wrapping_neg();
    let s = six(aa as u64, bb as u64, cc as u64, dd as u64, e as u64, f as u64);
    (s as i32) ^ (aa as i32) ^ (bb as i32) ^ (cc as i32) ^ dd ^ (e as i32)
}

fn main() {
    let a = black_box(11u64);
    let r1 = keep(a, a + 1, a + 2, a + 3, a + 4);
    let r2 = rec(black_box(3), 7);
    let r3 = mixed(black_box(4000000000u32), black_box(-3i16), black_box(200u8), black_box(-9i64), black_box(2.5f64), black_box(true));
    let r4 = narrow(black_box(100u8), black_box(-100i8), black_box(40000u16), black_box(i32::MIN + 1), black_box(true), black_box(u32::MAX));
    println!("{r1} {r2} {r3} {r4}");
}
"#;

fn build(opt: u8, toolchain: &str) -> Result<String, String> {
    let dir = crate::common::build_dir().join("regs");
    std::fs::create_dir_all(&dir).map_err(|e| e.to_string())?;
    let src = dir.join("regs.rs");
    let exe = dir.join(format!("regs_o{opt}_{}", toolchain.replace('.', "")));
    let fresh = std::fs::read_to_string(&src).map(|t| t == PROGRAM).unwrap_or(false);
    if !fresh {
        std::fs::write(&src, PROGRAM).map_err(|e| e.to_string())?;
    }
    if !fresh || !exe.exists() {
        let out = std::process::Command::new("rustc").current_dir("/").arg(format!("+{toolchain}")).args(["--edition", "2021", "-g", "-C", &format!("opt-level={opt}"), "-o"]).arg(&exe).arg(&src).output().map_err(|e| e.to_string())?;
        if !out.status.success() {
            return Err(String::from_utf8_lossy(&out.stderr).to_string());
        }
    }
    Ok(exe.display().to_string())
}

/// `prop` = "C19" (variables) or "C05" (backtrace): one walk produces both kinds of findings, each
/// check reports its own.
pub fn part_registers(tier: Tier, prop: &str) -> Part {
    let mut part = Part::new(if prop == "C05" { "c05_optimized_code" } else { "c19_registers" });
    if prop == "C05" {
        part.rule = "the optimized program of C19's register part (no frame pointer, callee-saved registers pushed and popped around the body, recursion) walked with stepi from the entry of four functions until it is back in main: at EVERY instruction (prologues and epilogues included, where the CFA rule changes from one instruction to the next) the debugger's backtrace is compared frame by frame with an independent CFI unwinder (gimli decodes .eh_frame, the register rules are applied here): same number of frames inside the executable, same return addresses, and each frame named after the subprogram DIE that contains the call".into();
    } else {
    part.rule = "std-linked program compiled with opt-level 1 (thorough: also 2, two toolchains): functions with six integer parameters (all argument registers), locals kept in callee-saved registers across calls, recursion, narrow and signed types; from the entry of each of four functions the program is walked with `stepi` until it is back in main (every instruction of every function, including the callees); at every stop and for every frame of the executable (set_frame_into_focus(k)) every scalar local and parameter is compared with an independent evaluation of its DWARF location: own scope walk, own location-list entry selection (half-open ranges, return address - 1 in caller frames), own DWARF register numbering over PTRACE_GETREGS, own CFI unwinder restoring the callee-saved registers of caller frames. A variable whose location evaluates must be shown with exactly that value; one without a location at that pc must not be shown with a value; entry-value expressions, vector registers and composite types are not compared".into();
    }
    let configs: Vec<(u8, &str)> = if tier == Tier::Quick { vec![(1, "1.89")] } else { vec![(1, "1.89"), (2, "1.89"), (1, "stable"), (3, "stable")] };
    for (opt, tc) in &configs {
        let exe = match build(*opt, tc) {
            Ok(e) => e,
            Err(e) => {
                part.violate("MACHINERY:regs-build", e, json!(null));
                continue;
            }
        };
        let native = std::process::Command::new(&exe).output().map(|o| String::from_utf8_lossy(&o.stdout).to_string()).unwrap_or_default();
        let entries = ["keep", "rec", "mixed", "narrow"];
        let cmds_for = |entry: &str| vec![json!({"op": "break_fn", "name": entry}), json!({"op": "start"}), json!({"op": "regwalk", "max_steps": 1500, "until_fn": "main"}), json!({"op": "remove_fn", "name": entry}), json!({"op": "continue"})];
        let mut runs: std::collections::VecDeque<crate::mt::Run> = {
            use rayon::prelude::*;
            let pool = rayon::ThreadPoolBuilder::new().num_threads(4).build().unwrap();
            pool.install(|| {
                entries
                    .par_iter()
                    .map(|entry| {
                        let cmds = cmds_for(entry);
                        crate::mt::session(&exe, |obs| cmds.get(obs.len()).cloned(), Duration::from_secs(120), cmds.len())
                    })
                    .collect::<Vec<_>>()
                    .into()
            })
        };
        for entry in entries {
            let cmds = cmds_for(entry);
            let run = runs.pop_front().unwrap();
            let replay = json!({"engine": "mt", "exe": exe, "commands": cmds});
            part.traces_validated += 1;
            if run.hang_at.is_some() || run.crashed.is_some() || run.obs.len() < 5 {
                part.violate(format!("{prop}:optimized:session-broke"), format!("[o{opt} {tc} {entry}] hang {:?} crash {:?}", run.hang_at, run.crashed), replay);
                continue;
            }
            let w = &run.obs[2]["res"];
            if w["ok"] != true {
                part.violate("MACHINERY:regwalk", format!("[o{opt} {tc} {entry}] {w}"), replay);
                continue;
            }
            part.states += w["stops"].as_u64().unwrap_or(0);
            part.transitions += w["stops"].as_u64().unwrap_or(0);
            if prop == "C05" {
                part.evaluations += w["backtrace_frames_compared"].as_u64().unwrap_or(0);
                part.distinct_nontrivial += w["backtrace_frames_compared"].as_u64().unwrap_or(0);
            } else {
                part.evaluations += w["compared"].as_u64().unwrap_or(0) + w["unavailable"].as_u64().unwrap_or(0);
                part.distinct_nontrivial += w["register_located"].as_u64().unwrap_or(0);
            }
            for f in w["findings"].as_array().cloned().unwrap_or_default() {
                if !f["sig"].as_str().unwrap_or("").starts_with(prop) {
                    continue;
                }
                part.violate(f["sig"].as_str().unwrap_or("C19:registers:?"), format!("[o{opt} {tc} {entry}] {}", f["detail"].as_str().unwrap_or("")), replay.clone());
            }
            if w["ended"] != "reached until_fn" {
                part.violate("MACHINERY:regwalk-did-not-return-to-main", format!("[o{opt} {tc} {entry}] ended: {}", w["ended"]), replay.clone());
            }
            part.sample(json!({"config": format!("o{opt} {tc}"), "entry": entry, "stops": w["stops"], "backtrace_frames_compared": w["backtrace_frames_compared"], "compared": w["compared"], "in_caller_frames": w["compared_in_caller_frames"], "unavailable": w["unavailable"], "skipped": w["skip_reasons"], "locations": w["locations_seen"], "examples": w["samples"]}));
            let stdout = run.result.as_ref().and_then(|r| r["stdout"].as_str()).unwrap_or("").to_string();
            if run.obs[4]["res"]["kind"] != "exit" || stdout != native {
                part.violate(format!("{prop}:optimized:program-did-not-finish-natively"), format!("[o{opt} {tc} {entry}] {} stdout {stdout:?} native {native:?}", run.obs[4]["res"]), replay.clone());
            }
        }
    }
    part.bounds = json!({"configurations": configs.iter().map(|(o, t)| format!("opt-level {o}, rustc {t}")).collect::<Vec<_>>(), "entries": 4, "max_steps": 1500, "frames": 8});
    part
}
