//! E2 worker: one real `Debugger` session over one debuggee process. Executes a command list and
//! reports, after every command, what the debugger said and what the harness observed
//! independently (ptrace registers, /proc/<pid>/mem text, /proc task list).

use crate::common::*;
use crate::reftrace;
use bugstalker::debugger::address::{Address, GlobalAddress, RelocatedAddress};
use bugstalker::debugger::process::Child;
use bugstalker::debugger::register::debug::{BreakCondition, BreakSize};
use bugstalker::debugger::variable::value::Value as BsValue;
use bugstalker::debugger::{
    Debugger, DebuggerBuilder, EventHook, FunctionInfo, PlaceDescriptor, StopReason, rust,
};
use nix::sys::signal::Signal;
use nix::unistd::Pid;
use serde_json::{Value, json};
use std::cell::RefCell;
use std::io::Read;
use std::os::unix::fs::FileExt;
use std::rc::Rc;
use std::sync::{Arc, Mutex};

#[derive(Clone, Default)]
pub struct Events(pub Rc<RefCell<Vec<Value>>>);

pub struct Hooks {
    ev: Events,
}

impl EventHook for Hooks {
    fn on_breakpoint(
        &self,
        pc: RelocatedAddress,
        num: u32,
        place: Option<PlaceDescriptor>,
        function: Option<&FunctionInfo>,
        _: Option<u32>,
    ) -> anyhow::Result<()> {
        self.ev.0.borrow_mut().push(json!({"ev":"breakpoint","pc":pc.as_u64(),"num":num,
            "line":place.as_ref().map(|p| p.line_number),"file":place.as_ref().map(|p| p.file.display().to_string()),
            "fn": function.and_then(|f| f.name.clone())}));
        Ok(())
    }
    fn on_watchpoint(
        &self,
        pc: RelocatedAddress,
        num: u32,
        place: Option<PlaceDescriptor>,
        cond: BreakCondition,
        dqe: Option<&str>,
        old: Option<&BsValue>,
        new: Option<&BsValue>,
        end_of_scope: bool,
    ) -> anyhow::Result<()> {
        self.ev.0.borrow_mut().push(json!({"ev":"watchpoint","pc":pc.as_u64(),"num":num,
            "line":place.as_ref().map(|p| p.line_number),"cond":cond.to_string(),"dqe":dqe,
            "old": old.map(|_| true), "new": new.map(|_| true), "end_of_scope": end_of_scope}));
        Ok(())
    }
    fn on_step(
        &self,
        pc: RelocatedAddress,
        place: Option<PlaceDescriptor>,
        function: Option<&FunctionInfo>,
        _: Option<u32>,
    ) -> anyhow::Result<()> {
        self.ev.0.borrow_mut().push(json!({"ev":"step","pc":pc.as_u64(),
            "line":place.as_ref().map(|p| p.line_number),"file":place.as_ref().map(|p| p.file.display().to_string()),
            "fn": function.and_then(|f| f.name.clone())}));
        Ok(())
    }
    fn on_async_step(
        &self,
        pc: RelocatedAddress,
        _: Option<PlaceDescriptor>,
        _: Option<&FunctionInfo>,
        _: u64,
        _: bool,
    ) -> anyhow::Result<()> {
        self.ev.0.borrow_mut().push(json!({"ev":"async_step","pc":pc.as_u64()}));
        Ok(())
    }
    fn on_signal(&self, signal: Signal) {
        self.ev.0.borrow_mut().push(json!({"ev":"signal","sig":signal as i32}));
    }
    fn on_exit(&self, code: i32) {
        self.ev.0.borrow_mut().push(json!({"ev":"exit","code":code}));
    }
    fn on_process_install(&self, pid: Pid, _: Option<&object::File>) {
        self.ev.0.borrow_mut().push(json!({"ev":"install","pid":pid.as_raw()}));
    }
}

pub struct Session {
    pub dbg: Option<Debugger>,
    pub events: Events,
    pub exe: String,
    pub elf: reftrace::ElfInfo,
    pub file_text: Vec<(u64, Vec<u8>)>,
    pub out: Arc<Mutex<Vec<u8>>>,
    pub main_entry_sp: u64,
    pub exited: Option<i32>,
    pub detached_pid: Option<i32>,
    pub tags: std::collections::HashMap<u64, Vec<u64>>,
    pub wtags: std::collections::HashMap<u64, u64>,
    pub post: Option<Value>,
    pub reader: Option<std::thread::JoinHandle<()>>,
}

pub fn err_kind(e: &bugstalker::debugger::Error) -> String {
    let s = format!("{e:?}");
    s.split(['(', ' ', '{']).next().unwrap_or("").to_string()
}

impl Session {
    pub fn launch(exe: &str, args: &[String], main_entry_sp: u64) -> Result<Session, String> {
        let elf = reftrace::elf_info(exe)?;
        let data = std::fs::read(exe).map_err(|e| e.to_string())?;
        let file_text = elf
            .text
            .iter()
            .map(|(addr, off, size)| (*addr, data[*off as usize..(*off + *size) as usize].to_vec()))
            .collect();
        let (reader, writer) = os_pipe::pipe().map_err(|e| e.to_string())?;
        let out = Arc::new(Mutex::new(Vec::new()));
        let o2 = out.clone();
        let reader_thread = std::thread::spawn(move || {
            let mut reader = reader;
            let mut buf = [0u8; 4096];
            loop {
                match reader.read(&mut buf) {
                    Ok(0) | Err(_) => break,
                    Ok(n) => o2.lock().unwrap().extend_from_slice(&buf[..n]),
                }
            }
        });
        rust::Environment::init(None);
        let tpl = Child::new(
            exe,
            args.to_vec(),
            None::<&std::path::Path>,
            writer.try_clone().map_err(|e| e.to_string())?,
            writer,
        );
        let t0 = std::time::Instant::now();
        let process = tpl.install().map_err(|e| format!("install: {e:?}"))?;
        let install_ms = t0.elapsed().as_millis();
        let events = Events::default();
        let dbg = DebuggerBuilder::new()
            .with_hooks(Hooks { ev: events.clone() })
            .build(process)
            .map_err(|e| format!("build: {e:?}"))?;
        if std::env::var("BSMC_TIMING").is_ok() {
            eprintln!("TIMING install={install_ms}ms build={}ms", t0.elapsed().as_millis() - install_ms);
        }
        Ok(Session {
            dbg: Some(dbg),
            events,
            exe: exe.to_string(),
            elf,
            file_text,
            out,
            main_entry_sp,
            exited: None,
            detached_pid: None,
            tags: Default::default(),
            wtags: Default::default(),
            post: None,
            reader: Some(reader_thread),
        })
    }

    /// Start the program as a plain child of this worker, let it run for `delay_ms`, then attach
    /// the debugger to it (DebuggerBuilder::build_attached).
    pub fn attach(exe: &str, args: &[String], delay_ms: u64) -> Result<Session, String> {
        let elf = reftrace::elf_info(exe)?;
        let data = std::fs::read(exe).map_err(|e| e.to_string())?;
        let file_text = elf.text.iter().map(|(addr, off, size)| (*addr, data[*off as usize..(*off + *size) as usize].to_vec())).collect();
        let (reader, writer) = os_pipe::pipe().map_err(|e| e.to_string())?;
        let out = Arc::new(Mutex::new(Vec::new()));
        let o2 = out.clone();
        let reader_thread = std::thread::spawn(move || {
            let mut reader = reader;
            let mut buf = [0u8; 4096];
            loop {
                match reader.read(&mut buf) {
                    Ok(0) | Err(_) => break,
                    Ok(n) => o2.lock().unwrap().extend_from_slice(&buf[..n]),
                }
            }
        });
        rust::Environment::init(None);
        use std::os::unix::process::CommandExt;
        let mut command = std::process::Command::new(exe);
        // same address-space layout as under the debugger (which switches randomization off)
        unsafe {
            command.pre_exec(|| {
                libc::personality(0x0040000);
                Ok(())
            });
        }
        let child = command
            .args(args)
            .stdin(std::process::Stdio::null())
            .stdout(writer.try_clone().map_err(|e| e.to_string())?)
            .stderr(writer.try_clone().map_err(|e| e.to_string())?)
            .spawn()
            .map_err(|e| format!("spawn {exe}: {e}"))?;
        let pid = child.id() as i32;
        std::mem::forget(child); // reaped by this worker's own waitpid calls
        std::thread::sleep(std::time::Duration::from_millis(delay_ms));
        let events = Events::default();
        let dbg = DebuggerBuilder::new()
            .with_hooks(Hooks { ev: events.clone() })
            .build_attached(Pid::from_raw(pid), writer.try_clone().map_err(|e| e.to_string())?, writer)
            .map_err(|e| format!("attach: {e:?}"))?;
        Ok(Session {
            dbg: Some(dbg),
            events,
            exe: exe.to_string(),
            elf,
            file_text,
            out,
            main_entry_sp: 0,
            exited: None,
            detached_pid: None,
            tags: Default::default(),
            wtags: Default::default(),
            post: None,
            reader: Some(reader_thread),
        })
    }

    pub fn d(&mut self) -> &mut Debugger {
        self.dbg.as_mut().expect("debugger dropped")
    }

    pub fn pid(&self) -> i32 {
        self.dbg.as_ref().map(|d| d.process().pid().as_raw()).unwrap_or(0)
    }

    fn stop_json(&mut self, r: Result<StopReason, bugstalker::debugger::Error>) -> Value {
        match r {
            Ok(StopReason::Breakpoint(pid, pc)) => {
                json!({"ok":true,"kind":"breakpoint","tid":pid.as_raw(),"pc":pc.as_u64()})
            }
            Ok(StopReason::DebugeeExit(code)) => {
                self.exited = Some(code);
                json!({"ok":true,"kind":"exit","code":code})
            }
            Ok(StopReason::DebugeeStart) => json!({"ok":true,"kind":"start"}),
            Ok(StopReason::SignalStop(pid, sig)) => {
                json!({"ok":true,"kind":"signal","tid":pid.as_raw(),"sig":sig as i32})
            }
            Ok(StopReason::Watchpoint(pid, pc, ty)) => {
                json!({"ok":true,"kind":"watchpoint","tid":pid.as_raw(),"pc":pc.as_u64(),"hit":format!("{ty:?}")})
            }
            Ok(StopReason::NoSuchProcess(pid)) => json!({"ok":true,"kind":"nosuchprocess","tid":pid.as_raw()}),
            Err(e) => self.err_json(e),
        }
    }

    fn err_json(&mut self, e: bugstalker::debugger::Error) -> Value {
        if let bugstalker::debugger::Error::ProcessExit(code) = e {
            self.exited = Some(code);
        }
        json!({"ok":false,"err":err_kind(&e),"msg":format!("{e}")})
    }

    fn unit(&mut self, r: Result<(), bugstalker::debugger::Error>) -> Value {
        match r {
            Ok(()) => json!({"ok":true,"kind":"done"}),
            Err(e) => self.err_json(e),
        }
    }

    fn views(vs: Vec<bugstalker::debugger::BreakpointView>) -> Value {
        json!(vs.iter().map(view_json).collect::<Vec<_>>())
    }

    pub fn exec(&mut self, cmd: &Value) -> Value {
        let mut r = self.exec_inner(cmd);
        if let (Some(tag), Some(num)) = (cmd["wtag"].as_u64(), r["num"].as_u64()) {
            if cmd["op"] == "watch_addr" {
                self.wtags.insert(tag, num);
            }
        }
        if let Some(then) = cmd["then"].as_str() {
            if r["ok"].as_bool().unwrap_or(false) {
                let r2 = self.exec_inner(&json!({"op": then}));
                self.post = Some(r2);
            }
        }
        let _ = &mut r;
        if let (Some(tag), Some(views)) = (cmd["tag"].as_u64(), r["views"].as_array()) {
            let nums = views.iter().filter_map(|v| v["num"].as_u64()).collect();
            self.tags.insert(tag, nums);
        }
        r
    }

    fn exec_inner(&mut self, cmd: &Value) -> Value {
        let op = cmd["op"].as_str().unwrap_or("");
        let u = |k: &str| cmd[k].as_u64().unwrap_or(0);
        let s = |k: &str| cmd[k].as_str().unwrap_or("").to_string();
        match op {
            "start" => {
                let r = self.d().start_debugee_with_reason();
                self.stop_json(r)
            }
            "continue" => {
                let r = self.d().continue_debugee_with_reason();
                self.stop_json(r)
            }
            "break_addr" => match self.d().set_breakpoint_at_addr(RelocatedAddress::from(u("addr"))) {
                Ok(v) => json!({"ok":true,"views":[view_json(&v)]}),
                Err(e) => self.err_json(e),
            },
            "break_line" => match self.d().set_breakpoint_at_line(&s("file"), u("line")) {
                Ok(v) => json!({"ok":true,"views":Self::views(v)}),
                Err(e) => self.err_json(e),
            },
            "break_fn" => match self.d().set_breakpoint_at_fn(&s("name")) {
                Ok(v) => json!({"ok":true,"views":Self::views(v)}),
                Err(e) => self.err_json(e),
            },
            "break_fn_deferred" => match self.d().set_breakpoint_at_fn(&s("name")) {
                Ok(v) => json!({"ok":true,"views":v.iter().map(view_json).collect::<Vec<_>>(),"deferred":false}),
                Err(_) => {
                    self.d().add_deferred_at_function(&s("name"));
                    json!({"ok":true,"views":[],"deferred":true})
                }
            },
            "break_addr_deferred" => {
                let a = RelocatedAddress::from(u("addr"));
                match self.d().set_breakpoint_at_addr(a) {
                    Ok(v) => json!({"ok":true,"views":[view_json(&v)],"deferred":false}),
                    Err(_) => {
                        self.d().add_deferred_at_addr(a);
                        json!({"ok":true,"views":[],"deferred":true})
                    }
                }
            }
            "defer_addr" => {
                self.d().add_deferred_at_addr(RelocatedAddress::from(u("addr")));
                json!({"ok":true,"views":[],"deferred":true})
            }
            "break_line_deferred" => match self.d().set_breakpoint_at_line(&s("file"), u("line")) {
                Ok(v) => json!({"ok":true,"views":v.iter().map(view_json).collect::<Vec<_>>(),"deferred":false}),
                Err(_) => {
                    self.d().add_deferred_at_line(&s("file"), u("line"));
                    json!({"ok":true,"views":[],"deferred":true})
                }
            },
            "sharedlibs" => {
                let libs: Vec<Value> = self.d().shared_libs().iter().map(|r| json!({"path": r.path.display().to_string(), "has_debug_info": r.has_debug_info, "range": r.range.as_ref().map(|x| json!([x.from.as_u64(), x.to.as_u64()]))})).collect();
                // the kernel's view: file-backed executable objects of the process
                let pid = self.pid();
                let maps = std::fs::read_to_string(format!("/proc/{pid}/maps")).unwrap_or_default();
                let mut objs: std::collections::BTreeMap<String, (u64, u64)> = Default::default();
                for l in maps.lines() {
                    let parts: Vec<&str> = l.split_whitespace().collect();
                    if parts.len() >= 6 && parts[5].starts_with('/') {
                        let (a, b) = parts[0].split_once('-').unwrap_or(("0", "0"));
                        let (a, b) = (u64::from_str_radix(a, 16).unwrap_or(0), u64::from_str_radix(b, 16).unwrap_or(0));
                        let e = objs.entry(parts[5].to_string()).or_insert((a, b));
                        e.0 = e.0.min(a);
                        e.1 = e.1.max(b);
                    }
                }
                json!({"ok": true, "libs": libs, "maps": objs.iter().map(|(p, (a, b))| json!({"path": p, "from": a, "to": b})).collect::<Vec<_>>()})
            }
            "remove_addr" => {
                let addr = if cmd["global"].as_bool().unwrap_or(false) {
                    Address::Global(GlobalAddress::from(u("addr")))
                } else {
                    Address::Relocated(RelocatedAddress::from(u("addr")))
                };
                match self.d().remove_breakpoint(addr) {
                    Ok(v) => json!({"ok":true,"views": v.iter().map(view_json).collect::<Vec<_>>()}),
                    Err(e) => self.err_json(e),
                }
            }
            "remove_num_of_tag" => {
                let num = self.tags.get(&u("tag")).and_then(|n| n.first().copied()).unwrap_or(99999);
                match self.d().remove_breakpoint_by_number(num as u32) {
                    Ok(v) => json!({"ok":true,"num":num,"views": v.iter().map(view_json).collect::<Vec<_>>()}),
                    Err(e) => self.err_json(e),
                }
            }
            "remove_num" => match self.d().remove_breakpoint_by_number(u("num") as u32) {
                Ok(v) => json!({"ok":true,"views": v.iter().map(view_json).collect::<Vec<_>>()}),
                Err(e) => self.err_json(e),
            },
            "remove_line" => match self.d().remove_breakpoint_at_line(&s("file"), u("line")) {
                Ok(v) => json!({"ok":true,"views":Self::views(v)}),
                Err(e) => self.err_json(e),
            },
            "remove_fn" => match self.d().remove_breakpoint_at_fn(&s("name")) {
                Ok(v) => json!({"ok":true,"views":Self::views(v)}),
                Err(e) => self.err_json(e),
            },
            "stepi" => {
                let r = self.d().stepi();
                self.unit(r)
            }
            "step" => {
                let r = self.d().step_into();
                self.unit(r)
            }
            "next" => {
                let r = self.d().step_over();
                self.unit(r)
            }
            "finish" => {
                let r = self.d().step_out();
                self.unit(r)
            }
            "restart" => match self.d().restart_debugee() {
                Ok(pid) => {
                    self.exited = None;
                    // restart_debugee() runs to the next stop but only returns the pid: what the
                    // stop was is visible through the hooks
                    let evs = self.events.0.borrow().clone();
                    let last = evs.iter().rev().find(|e| e["ev"] == "breakpoint" || e["ev"] == "exit" || e["ev"] == "signal");
                    match last {
                        Some(e) if e["ev"] == "breakpoint" => json!({"ok":true,"kind":"breakpoint","pc":e["pc"],"tid":pid.as_raw(),"pid":pid.as_raw(),"via":"restart"}),
                        Some(e) if e["ev"] == "exit" => {
                            self.exited = e["code"].as_i64().map(|c| c as i32);
                            json!({"ok":true,"kind":"exit","code":e["code"],"pid":pid.as_raw(),"via":"restart"})
                        }
                        Some(e) if e["ev"] == "signal" => json!({"ok":true,"kind":"signal","sig":e["sig"],"tid":pid.as_raw(),"pid":pid.as_raw(),"via":"restart"}),
                        _ => json!({"ok":true,"kind":"restarted","pid":pid.as_raw()}),
                    }
                }
                Err(e) => self.err_json(e),
            },
            "detach" => {
                let pid = self.pid();
                let r = self.d().detach();
                if r.is_ok() {
                    self.detached_pid = Some(pid);
                }
                self.unit(r)
            }
            "post_detach_check" => {
                // the process must be alive and running with original code and no hardware
                // breakpoints: look at it with an independent PTRACE_SEIZE, then let it finish
                let Some(pid) = self.detached_pid else {
                    return json!({"ok":false,"err":"NotDetached"});
                };
                let p = Pid::from_raw(pid);
                std::thread::sleep(std::time::Duration::from_millis(5));
                let stat = std::fs::read_to_string(format!("/proc/{pid}/stat")).unwrap_or_default();
                let state = stat.rsplit(") ").next().and_then(|r| r.chars().next()).map(|c| c.to_string());
                let mut out = serde_json::Map::new();
                out.insert("ok".into(), json!(true));
                out.insert("state_after_detach".into(), json!(state));
                let mut early_exit: Option<i32> = None;
                match nix::sys::ptrace::seize(p, nix::sys::ptrace::Options::empty()) {
                    Ok(()) => {
                        let _ = nix::sys::ptrace::interrupt(p);
                        // the process may finish right now: this wait can already return its exit
                        match nix::sys::wait::waitpid(p, None) {
                            Ok(nix::sys::wait::WaitStatus::Exited(_, c)) => early_exit = Some(c),
                            Ok(nix::sys::wait::WaitStatus::Signaled(_, sg, _)) => early_exit = Some(-(sg as i32)),
                            _ => {}
                        }
                        if early_exit.is_some() {
                            out.insert("seized".into(), json!(false));
                            out.insert("seize_err".into(), json!("exited while being seized"));
                        } else {
                        let base = std::mem::offset_of!(libc::user, u_debugreg);
                        let dr7 = nix::sys::ptrace::read_user(p, (base + 7 * 8) as nix::sys::ptrace::AddressType).map(|v| v as u64).ok();
                        out.insert("seized".into(), json!(true));
                        out.insert("dr7".into(), json!(dr7));
                        out.insert("text_diff".into(), json!(self.text_diff(pid)));
                        out.insert("foreign_text_diff".into(), json!(self.foreign_text_diff(pid)));
                        let _ = nix::sys::ptrace::detach(p, None);
                        }
                    }
                    Err(e) => {
                        out.insert("seized".into(), json!(false));
                        out.insert("seize_err".into(), json!(format!("{e}")));
                    }
                }
                // run to completion
                let t0 = std::time::Instant::now();
                let mut code = early_exit;
                while code.is_none() && t0.elapsed() < std::time::Duration::from_secs(5) {
                    match nix::sys::wait::waitpid(p, Some(nix::sys::wait::WaitPidFlag::WNOHANG)) {
                        Ok(nix::sys::wait::WaitStatus::Exited(_, c)) => {
                            code = Some(c);
                            break;
                        }
                        Ok(nix::sys::wait::WaitStatus::Signaled(_, sg, _)) => {
                            code = Some(-(sg as i32));
                            break;
                        }
                        Ok(_) => std::thread::sleep(std::time::Duration::from_millis(2)),
                        Err(_) => break,
                    }
                }
                out.insert("exit_code".into(), json!(code));
                // the pipe reader runs on its own thread: wait until the output stops growing
                let t1 = std::time::Instant::now();
                let mut last_len = usize::MAX;
                while t1.elapsed() < std::time::Duration::from_millis(1500) {
                    std::thread::sleep(std::time::Duration::from_millis(20));
                    let n = self.out.lock().unwrap().len();
                    if n == last_len && n > 0 {
                        break;
                    }
                    last_len = n;
                }
                out.insert("stdout".into(), json!(String::from_utf8_lossy(&self.out.lock().unwrap()).to_string()));
                Value::Object(out)
            }
            "post_detach_check_mt" => {
                // after detach from a (multi-threaded, attached) process: no task may still be
                // traced or stopped, the text is the file's, no debug register is enabled in any
                // task; then the process must run to its end
                let Some(pid) = self.detached_pid else {
                    return json!({"ok":false,"err":"NotDetached"});
                };
                std::thread::sleep(std::time::Duration::from_millis(u("settle_ms").max(5)));
                let mut tasks = vec![];
                let mut early: Option<i32> = None;
                if let Ok(rd) = std::fs::read_dir(format!("/proc/{pid}/task")) {
                    for t in rd.flatten() {
                        let tid: i32 = t.file_name().to_string_lossy().parse().unwrap_or(0);
                        let status = std::fs::read_to_string(t.path().join("status")).unwrap_or_default();
                        let field = |k: &str| status.lines().find(|l| l.starts_with(k)).map(|l| l[k.len()..].trim().to_string()).unwrap_or_default();
                        let tracer: i64 = field("TracerPid:").parse().unwrap_or(-1);
                        let state = field("State:").chars().next().unwrap_or('?').to_string();
                        // independent look at the debug registers
                        let tp = Pid::from_raw(tid);
                        let mut dr7 = None;
                        if tracer == 0 && nix::sys::ptrace::seize(tp, nix::sys::ptrace::Options::empty()).is_ok() {
                            let _ = nix::sys::ptrace::interrupt(tp);
                            match nix::sys::wait::waitpid(tp, Some(nix::sys::wait::WaitPidFlag::__WALL)) {
                                Ok(nix::sys::wait::WaitStatus::PtraceEvent(..)) | Ok(nix::sys::wait::WaitStatus::Stopped(..)) => {
                                    let base = std::mem::offset_of!(libc::user, u_debugreg);
                                    dr7 = nix::sys::ptrace::read_user(tp, (base + 7 * 8) as nix::sys::ptrace::AddressType).map(|v| v as u64).ok();
                                    let _ = nix::sys::ptrace::detach(tp, None);
                                }
                                // the process finished under our eyes: keep its status
                                Ok(nix::sys::wait::WaitStatus::Exited(p, c)) if p.as_raw() == pid => early = Some(c),
                                Ok(nix::sys::wait::WaitStatus::Signaled(p, sg, _)) if p.as_raw() == pid => early = Some(-(sg as i32)),
                                _ => {}
                            }
                        }
                        tasks.push(json!({"tid": tid, "tracer_pid": tracer, "state": state, "dr7": dr7}));
                    }
                }
                let text_diff = self.text_diff(pid);
                let foreign_text_diff = self.foreign_text_diff(pid);
                // run to completion (the process is a child of this worker)
                let t0 = std::time::Instant::now();
                let mut code: Option<i32> = early;
                while code.is_none() && t0.elapsed() < std::time::Duration::from_secs(8) {
                    match nix::sys::wait::waitpid(Pid::from_raw(pid), Some(nix::sys::wait::WaitPidFlag::WNOHANG)) {
                        Ok(nix::sys::wait::WaitStatus::Exited(_, c)) => code = Some(c),
                        Ok(nix::sys::wait::WaitStatus::Signaled(_, sg, _)) => code = Some(-(sg as i32)),
                        Ok(_) => std::thread::sleep(std::time::Duration::from_millis(2)),
                        Err(_) => break,
                    }
                }
                if code.is_none() {
                    unsafe { libc::kill(pid, 9) };
                }
                let t1 = std::time::Instant::now();
                let mut last_len = usize::MAX;
                while t1.elapsed() < std::time::Duration::from_millis(800) {
                    std::thread::sleep(std::time::Duration::from_millis(20));
                    let n = self.out.lock().unwrap().len();
                    if n == last_len && n > 0 {
                        break;
                    }
                    last_len = n;
                }
                json!({"ok": true, "tasks": tasks, "text_diff": text_diff, "foreign_text_diff": foreign_text_diff, "exit_code": code, "stdout": String::from_utf8_lossy(&self.out.lock().unwrap()).to_string()})
            }
            "c04_sweep" => {
                let fns: Vec<String> = serde_json::from_value(cmd["fns"].clone()).unwrap_or_default();
                let mut v = crate::c04w::sweep(self, &s("file"), &fns);
                v["ok"] = json!(true);
                v
            }
            "c16_sweep" => {
                let mut v = crate::c16w::sweep(self, cmd["full"].as_bool().unwrap_or(false));
                v["ok"] = json!(true);
                v
            }
            "kill" => {
                // a signal from outside while the debuggee is stopped (it becomes pending)
                let pid = self.pid();
                let r = unsafe { libc::kill(pid, u("sig") as i32) };
                json!({"ok": r == 0, "kind": "sent"})
            }
            "tgkill" => {
                // a signal for one thread, sent from outside while the debuggee is stopped
                let pid = self.pid();
                let r = unsafe { libc::syscall(libc::SYS_tgkill, pid, u("tid") as i32, u("sig") as i32) };
                json!({"ok": r == 0, "kind": "sent"})
            }
            "thread" => match self.d().set_thread_into_focus(u("num") as u32) {
                Ok(t) => json!({"ok": true, "kind": "focus", "tid": t.pid.as_raw()}),
                Err(e) => self.err_json(e),
            },
            "call_fn" => {
                // one injected call in the thread in focus; ALL registers of that thread (orig_rax
                // included: it decides whether an interrupted system call is restarted) before / after
                use bugstalker::debugger::variable::dqe::Literal;
                let tid = self.d().ecx().pid_on_focus();
                let args: Vec<Literal> = cmd["args"].as_array().map(|a| a.iter().filter_map(|x| x.as_i64().map(Literal::Int)).collect()).unwrap_or_default();
                let all = |r: &libc::user_regs_struct| -> Vec<u64> { vec![r.rax, r.rbx, r.rcx, r.rdx, r.rsi, r.rdi, r.rbp, r.rsp, r.r8, r.r9, r.r10, r.r11, r.r12, r.r13, r.r14, r.r15, r.rip, r.eflags & !0x10100, r.fs_base, r.gs_base, r.orig_rax, r.cs, r.ss] };
                let before = nix::sys::ptrace::getregs(tid).ok().map(|r| all(&r));
                let res = self.d().call(&s("name"), &args);
                let after = nix::sys::ptrace::getregs(tid).ok().map(|r| all(&r));
                let names = ["rax", "rbx", "rcx", "rdx", "rsi", "rdi", "rbp", "rsp", "r8", "r9", "r10", "r11", "r12", "r13", "r14", "r15", "rip", "eflags", "fs_base", "gs_base", "orig_rax", "cs", "ss"];
                let diff: Vec<Value> = match (&before, &after) {
                    (Some(b), Some(a)) => (0..b.len()).filter(|i| b[*i] != a[*i]).map(|i| json!([names[i], b[i], a[i]])).collect(),
                    _ => vec![json!(["unreadable", 0, 0])],
                };
                json!({"ok": true, "tid": tid.as_raw(), "call_ok": res.is_ok(), "call_err": res.err().map(|e| format!("{e}")), "orig_rax_before": before.as_ref().map(|b| b[20] as i64), "diff": diff})
            }
            "values" => crate::valw::values(self, cmd),
            "dqe" => crate::valw::dqe(self, cmd),
            "vard" => crate::valw::vard(self, cmd),
            "regwalk" => crate::c19r::regwalk(self, cmd),
            "c08_poison" => crate::c08w::poison(self, cmd),
            "c08_sweep" => crate::c08w::sweep(self, cmd),
            "c17_names" => {
                let fts: Vec<String> = serde_json::from_value(cmd["fn_templates"].clone()).unwrap_or_default();
                let files: Vec<String> = serde_json::from_value(cmd["file_templates"].clone()).unwrap_or_default();
                let regexes: Vec<String> = serde_json::from_value(cmd["regexes"].clone()).unwrap_or_default();
                let line = u("line");
                let mut f_out = serde_json::Map::new();
                for t in fts {
                    let r = match self.d().set_breakpoint_at_fn(&t) {
                        Ok(v) => {
                            let addrs: Vec<Value> = v.iter().map(|b| view_json(b)["place_addr"].clone()).collect();
                            json!({"addrs": addrs})
                        }
                        Err(e) => json!({"addrs": [], "err": format!("{e}")}),
                    };
                    let _ = self.d().remove_breakpoint_at_fn(&t);
                    f_out.insert(t, r);
                }
                let mut l_out = serde_json::Map::new();
                for t in files {
                    let r = match self.d().set_breakpoint_at_line(&t, line) {
                        Ok(v) => {
                            let fs: Vec<Value> = v.iter().map(|b| view_json(b)["file"].clone()).collect();
                            json!({"files": fs})
                        }
                        Err(e) => json!({"files": [], "err": format!("{e}")}),
                    };
                    let _ = self.d().remove_breakpoint_at_line(&t, line);
                    l_out.insert(t, r);
                }
                let mut s_out = serde_json::Map::new();
                for r in regexes {
                    let names: Vec<String> = self.d().get_symbols(&r).map(|v| v.iter().map(|s| s.name.to_string()).collect()).unwrap_or_default();
                    s_out.insert(r, json!({"names": names}));
                }
                json!({"ok": true, "fn": f_out, "file": l_out, "sym": s_out})
            }
            "c15_sweep" => {
                let mut v = crate::c15w::sweep(self);
                v["ok"] = json!(true);
                v
            }
            "drop" => {
                let pid = self.pid();
                self.dbg = None;
                if cmd["external"].as_bool().unwrap_or(false) {
                    // quitting after an attach must leave the process running: inspected like a detach
                    self.detached_pid = Some(pid);
                }
                std::thread::sleep(std::time::Duration::from_millis(20));
                let stat = std::fs::read_to_string(format!("/proc/{pid}/stat")).unwrap_or_default();
                let state = stat.rsplit(") ").next().and_then(|r| r.chars().next()).map(|c| c.to_string());
                json!({"ok":true,"kind":"dropped","pid":pid,"left_state":state})
            }
            "frame" => match self.d().set_frame_into_focus(u("num") as u32) {
                Ok(n) => json!({"ok":true,"frame":n}),
                Err(e) => self.err_json(e),
            },
            "watch_addr" => {
                let size = match u("size") {
                    1 => BreakSize::Bytes1,
                    2 => BreakSize::Bytes2,
                    4 => BreakSize::Bytes4,
                    _ => BreakSize::Bytes8,
                };
                let cond = if cmd["rw"].as_bool().unwrap_or(false) {
                    BreakCondition::DataReadsWrites
                } else {
                    BreakCondition::DataWrites
                };
                match self.d().set_watchpoint_on_memory(RelocatedAddress::from(u("addr")), size, cond, false) {
                    Ok(v) => json!({"ok":true,"num":v.number}),
                    Err(e) => self.err_json(e),
                }
            }
            "watch_expr" => {
                use chumsky::Parser;
                let cond = if cmd["rw"].as_bool().unwrap_or(false) { BreakCondition::DataReadsWrites } else { BreakCondition::DataWrites };
                let src = s("expr");
                match bugstalker::ui::command::parser::expression::parser().parse(src.as_str()).into_result() {
                    Err(_) => json!({"ok":false,"err":"ParseError"}),
                    Ok(q) => match self.d().set_watchpoint_on_expr(&src, q, cond) {
                        Ok(v) => json!({"ok":true,"num":v.number,"addr":v.address.as_u64()}),
                        Err(e) => self.err_json(e),
                    },
                }
            }
            "unwatch_expr" => {
                use chumsky::Parser;
                let src = s("expr");
                match bugstalker::ui::command::parser::expression::parser().parse(src.as_str()).into_result() {
                    Err(_) => json!({"ok":false,"err":"ParseError"}),
                    Ok(q) => match self.d().remove_watchpoint_by_expr(q) {
                        Ok(v) => json!({"ok":true,"removed":v.is_some()}),
                        Err(e) => self.err_json(e),
                    },
                }
            }
            "unwatch_addr" => match self.d().remove_watchpoint_by_addr(RelocatedAddress::from(u("addr"))) {
                Ok(v) => json!({"ok":true,"removed":v.is_some()}),
                Err(e) => self.err_json(e),
            },
            "unwatch_num_of_tag" => {
                let num = self.wtags.get(&u("wtag")).copied().unwrap_or(99999);
                match self.d().remove_watchpoint_by_number(num as u32) {
                    Ok(v) => json!({"ok":true,"removed":v.is_some()}),
                    Err(e) => self.err_json(e),
                }
            }
            "unwatch_num" => match self.d().remove_watchpoint_by_number(u("num") as u32) {
                Ok(v) => json!({"ok":true,"removed":v.is_some()}),
                Err(e) => self.err_json(e),
            },
            other => json!({"ok":false,"err":"UnknownHarnessOp","msg":other}),
        }
    }

    /// Independent observation of the world after a command.
    pub fn observe(&mut self, want_bt: bool) -> Value {
        let mut o = serde_json::Map::new();
        let events: Vec<Value> = std::mem::take(&mut *self.events.0.borrow_mut());
        o.insert("events".into(), json!(events));
        if let Some(p) = self.post.take() {
            o.insert("post_detach".into(), p);
        }
        let Some(dbg) = self.dbg.as_ref() else {
            o.insert("alive".into(), json!(false));
            return Value::Object(o);
        };
        let pid = dbg.process().pid().as_raw();
        let focus = dbg.ecx().pid_on_focus();
        let alive = std::path::Path::new(&format!("/proc/{pid}/mem")).exists() && self.exited.is_none();
        o.insert("pid".into(), json!(pid));
        o.insert("alive".into(), json!(alive));
        o.insert("exited".into(), json!(self.exited));
        o.insert("focus_tid".into(), json!(focus.as_raw()));
        o.insert("ecx_pc".into(), json!(dbg.ecx().location().pc.as_u64()));
        o.insert("ecx_frame".into(), json!(dbg.ecx().frame_num()));
        // breakpoints as the debugger lists them
        let bps: Vec<Value> = dbg.breakpoints_snapshot().iter().map(view_json).collect();
        o.insert("bps".into(), json!(bps));
        let wps: Vec<Value> = dbg
            .watchpoint_list()
            .iter()
            .map(|w| json!({"num": w.number, "addr": w.address.as_u64(), "size": w.size.to_string(), "cond": w.condition.to_string()}))
            .collect();
        o.insert("wps".into(), json!(wps));
        // before `start` the child has not exec'ed the program yet: nothing to observe
        let in_program = dbg.ecx().location().pc.as_u64() != 0;
        if alive && in_program && self.detached_pid.is_none() {
            // independent register read (same tracer thread)
            if let Ok(r) = nix::sys::ptrace::getregs(focus) {
                let top = self.main_entry_sp + 8;
                o.insert(
                    "real".into(),
                    json!({"pc": r.rip, "sp": r.rsp, "regs": reftrace::hash_regs(&r),
                           "mem": if self.main_entry_sp != 0 { reftrace::hash_mem(pid, r.rsp, top, &self.elf.regions) } else { 0 },
                           "rdi": r.rdi, "orig_rax": r.orig_rax as i64}),
                );
            }
            // debug registers of every thread, read independently
            let mut drs = vec![];
            if let Ok(rd) = std::fs::read_dir(format!("/proc/{pid}/task")) {
                for t in rd.flatten() {
                    let tid: i32 = t.file_name().to_string_lossy().parse().unwrap_or(0);
                    let base = std::mem::offset_of!(libc::user, u_debugreg);
                    let rd = |n: usize| nix::sys::ptrace::read_user(Pid::from_raw(tid), (base + n * 8) as nix::sys::ptrace::AddressType).map(|v| v as u64).ok();
                    drs.push(json!({"tid": tid, "dr": [rd(0), rd(1), rd(2), rd(3)], "dr6": rd(6), "dr7": rd(7)}));
                }
            }
            o.insert("dregs".into(), json!(drs));
            // text of the executable vs the file
            o.insert("text_diff".into(), json!(self.text_diff(pid)));
            // kernel's view of the threads
            let mut tasks = vec![];
            if let Ok(rd) = std::fs::read_dir(format!("/proc/{pid}/task")) {
                for t in rd.flatten() {
                    let tid: i32 = t.file_name().to_string_lossy().parse().unwrap_or(0);
                    let st = std::fs::read_to_string(t.path().join("stat")).unwrap_or_default();
                    let rest = st.rsplit(") ").next().unwrap_or("");
                    let state = rest.chars().next().unwrap_or('?');
                    // field 9 of stat (7th after the state) holds the task flags; PF_EXITING = 4
                    let flags: u64 = rest.split_whitespace().nth(6).and_then(|f| f.parse().ok()).unwrap_or(0);
                    tasks.push(json!({"tid":tid,"state":state.to_string(),"exiting": flags & 4 != 0}));
                }
            }
            // a thread that was just resumed from its exit stop runs for a moment before the kernel
            // marks it as exiting: look again before calling a task "running at a stop"
            for _ in 0..5 {
                let unsettled = tasks.iter().any(|t| !matches!(t["state"].as_str(), Some("t") | Some("Z") | Some("X")) && t["exiting"] != true);
                if !unsettled {
                    break;
                }
                std::thread::sleep(std::time::Duration::from_millis(3));
                tasks.clear();
                if let Ok(rd) = std::fs::read_dir(format!("/proc/{pid}/task")) {
                    for t in rd.flatten() {
                        let tid: i32 = t.file_name().to_string_lossy().parse().unwrap_or(0);
                        let st = std::fs::read_to_string(t.path().join("stat")).unwrap_or_default();
                        let rest = st.rsplit(") ").next().unwrap_or("");
                        let state = rest.chars().next().unwrap_or('?');
                        let flags: u64 = rest.split_whitespace().nth(6).and_then(|f| f.parse().ok()).unwrap_or(0);
                        if state != '?' {
                            tasks.push(json!({"tid":tid,"state":state.to_string(),"exiting": flags & 4 != 0}));
                        }
                    }
                }
            }
            o.insert("tasks".into(), json!(tasks));
            // the debugger's own thread list
            match dbg.thread_state() {
                Ok(ts) => {
                    let v: Vec<Value> = ts
                        .iter()
                        .map(|t| {
                            // every thread's own backtrace, checked against that thread's own stack:
                            // frame 0 is the thread's pc, every further frame's ip must be a word
                            // of the thread's stack, at ascending addresses
                            let mut bt_json = Value::Null;
                            if let Some(bt) = &t.bt {
                                let ips: Vec<u64> = bt.iter().map(|f| f.ip.as_u64()).collect();
                                let fns: Vec<Value> = bt.iter().map(|f| json!(f.func_name)).collect();
                                let regs = nix::sys::ptrace::getregs(t.thread.pid).ok();
                                let mut pc_ok = Value::Null;
                                let mut on_stack = Value::Null;
                                if let Some(r) = regs {
                                    pc_ok = json!(ips.first().copied() == Some(r.rip));
                                    if let Ok(f) = std::fs::File::open(format!("/proc/{pid}/mem")) {
                                        let mut buf = vec![0u8; 32768];
                                        let n = f.read_at(&mut buf, r.rsp).unwrap_or(0);
                                        let words: Vec<u64> = buf[..n - n % 8].chunks(8).map(|c| u64::from_le_bytes(c.try_into().unwrap())).collect();
                                        let mut pos = 0usize;
                                        let mut ok = true;
                                        for ip in ips.iter().skip(1) {
                                            match words[pos..].iter().position(|w| w == ip) {
                                                Some(k) => pos += k + 1,
                                                None => {
                                                    ok = false;
                                                    break;
                                                }
                                            }
                                        }
                                        on_stack = json!(ok);
                                    }
                                }
                                bt_json = json!({"ips": ips, "fns": fns, "frame0_is_thread_pc": pc_ok, "return_addresses_on_own_stack": on_stack});
                            }
                            json!({"tid": t.thread.pid.as_raw(), "num": t.thread.number, "in_focus": t.in_focus, "line": t.place.as_ref().map(|p| p.line_number), "bt": bt_json})
                        })
                        .collect();
                    o.insert("threads".into(), json!(v));
                }
                Err(e) => {
                    o.insert("threads_err".into(), json!(format!("{e}")));
                }
            }
            if want_bt {
                match dbg.backtrace(focus) {
                    Ok(bt) => {
                        let frames: Vec<Value> = bt
                            .iter()
                            .map(|f| json!({"ip": f.ip.as_u64(), "fn": f.func_name, "start": f.fn_start_ip.map(|a| a.as_u64()),
                                 "line": f.place.as_ref().map(|p| p.line_number)}))
                            .collect();
                        o.insert("bt".into(), json!(frames));
                    }
                    Err(e) => {
                        o.insert("bt_err".into(), json!(format!("{e:?}")));
                    }
                }
                match dbg.frame_info() {
                    Ok(fi) => {
                        o.insert("frame_info".into(), json!({"num":fi.num,"cfa":fi.cfa.as_u64(),"ret":fi.return_addr.map(|a| a.as_u64()),"ip":fi.frame.ip.as_u64()}));
                    }
                    Err(e) => {
                        o.insert("frame_info_err".into(), json!(format!("{e:?}")));
                    }
                }
            }
        }
        Value::Object(o)
    }

    /// Executable file-backed mappings of every OTHER object (interpreter, libraries) against
    /// their files: (path, address, byte in the file, byte in memory).
    pub fn foreign_text_diff(&self, pid: i32) -> Vec<Value> {
        let mut diff = vec![];
        let Ok(mem) = std::fs::File::open(format!("/proc/{pid}/mem")) else {
            return diff;
        };
        let maps = std::fs::read_to_string(format!("/proc/{pid}/maps")).unwrap_or_default();
        let exe = std::fs::canonicalize(&self.exe).map(|p| p.display().to_string()).unwrap_or(self.exe.clone());
        for l in maps.lines() {
            let parts: Vec<&str> = l.split_whitespace().collect();
            if parts.len() < 6 || !parts[1].contains('x') || !parts[5].starts_with('/') || parts[5] == exe {
                continue;
            }
            let (a, b) = parts[0].split_once('-').unwrap_or(("0", "0"));
            let (a, b) = (u64::from_str_radix(a, 16).unwrap_or(0), u64::from_str_radix(b, 16).unwrap_or(0));
            let off = u64::from_str_radix(parts[2], 16).unwrap_or(0);
            let Ok(file) = std::fs::File::open(parts[5]) else { continue };
            let len = (b - a) as usize;
            let mut fb = vec![0u8; len];
            let n = file.read_at(&mut fb, off).unwrap_or(0);
            let mut mb = vec![0u8; n];
            if mem.read_exact_at(&mut mb, a).is_err() {
                continue;
            }
            for i in 0..n {
                if fb[i] != mb[i] && diff.len() < 16 {
                    diff.push(json!({"path": parts[5], "addr": a + i as u64, "file": fb[i], "mem": mb[i]}));
                }
            }
        }
        diff
    }

    pub fn text_diff(&self, pid: i32) -> Vec<(u64, u8, u8)> {
        let mut diff = vec![];
        let Ok(f) = std::fs::File::open(format!("/proc/{pid}/mem")) else {
            return diff;
        };
        for (addr, bytes) in &self.file_text {
            let mut buf = vec![0u8; bytes.len()];
            if f.read_exact_at(&mut buf, *addr).is_ok() {
                for (i, (a, b)) in buf.iter().zip(bytes.iter()).enumerate() {
                    if a != b && diff.len() < 64 {
                        diff.push((*addr + i as u64, *b, *a));
                    }
                }
            } else {
                diff.push((*addr, 0, 0));
            }
        }
        diff
    }
}

pub fn view_json(v: &bugstalker::debugger::BreakpointView) -> Value {
    let (addr, global) = match v.addr {
        Address::Relocated(a) => (a.as_u64(), false),
        Address::Global(a) => (u64::from(a), true),
    };
    json!({"num": v.number, "addr": addr, "global": global,
        "line": v.place.as_ref().map(|p| p.line_number),
        "file": v.place.as_ref().map(|p| p.file.display().to_string()),
        "place_addr": v.place.as_ref().map(|p| u64::from(p.address))})
}

/// Worker entry. First stdin line: {exe, args, main_entry_sp, bt, commands?:[...]}; then one command
/// per line (answered by an `OBS {...}` line each) until `{"end":true}` or EOF; finally `RESULT {...}`.
pub fn worker() {
    use std::io::BufRead;
    let stdin = std::io::stdin();
    let mut lines = stdin.lock().lines();
    let first = lines.next().and_then(|l| l.ok()).unwrap_or_default();
    let job: Value = serde_json::from_str(&first).expect("init json");
    let exe = job["exe"].as_str().unwrap().to_string();
    let args: Vec<String> = serde_json::from_value(job["args"].clone()).unwrap_or_default();
    let want_bt = job["bt"].as_bool().unwrap_or(false);
    let t_launch = std::time::Instant::now();
    let started = if job["attach"].as_bool().unwrap_or(false) { Session::attach(&exe, &args, job["attach_delay_ms"].as_u64().unwrap_or(20)) } else { Session::launch(&exe, &args, job["main_entry_sp"].as_u64().unwrap_or(0)) };
    let mut s = match started {
        Ok(s) => s,
        Err(e) => {
            emit_result(&json!({"launch_error": e}));
            return;
        }
    };
    let launch_ms = t_launch.elapsed().as_millis() as u64;
    let mut obs = vec![];
    let mut run = |s: &mut Session, cmd: Value, obs: &mut Vec<Value>, interactive: bool| {
        let t0 = std::time::Instant::now();
        let res = s.exec(&cmd);
        let mut o = s.observe(want_bt || cmd["bt"].as_bool().unwrap_or(false));
        o["res"] = res;
        o["cmd"] = cmd;
        o["ms"] = json!(t0.elapsed().as_millis() as u64);
        if interactive {
            println!("OBS {}", serde_json::to_string(&o).unwrap());
        }
        obs.push(o);
    };
    for cmd in job["commands"].as_array().cloned().unwrap_or_default() {
        run(&mut s, cmd, &mut obs, false);
    }
    for l in lines {
        let Ok(l) = l else { break };
        if l.trim().is_empty() {
            continue;
        }
        let Ok(cmd) = serde_json::from_str::<Value>(&l) else { break };
        if cmd["end"].as_bool().unwrap_or(false) {
            break;
        }
        run(&mut s, cmd, &mut obs, true);
    }
    // teardown + stdout
    let pid = s.pid();
    let exited = s.exited;
    let t_drop = std::time::Instant::now();
    s.dbg = None;
    if let Some(h) = s.reader.take() {
        // the write ends are owned by the debugger's process template: dropped now
        // (a detached, still running debuggee keeps its copy: bounded wait)
        let t0 = std::time::Instant::now();
        while !h.is_finished() && t0.elapsed() < std::time::Duration::from_millis(300) {
            std::thread::sleep(std::time::Duration::from_millis(1));
        }
    }
    let out = String::from_utf8_lossy(&s.out.lock().unwrap()).to_string();
    let left = std::path::Path::new(&format!("/proc/{pid}")).exists() && pid != 0;
    let drop_ms = t_drop.elapsed().as_millis() as u64;
    emit_result(&json!({"launch_ms": launch_ms, "drop_ms": drop_ms, "obs": obs, "stdout": out, "exited": exited, "pid": pid, "process_left_after_drop": left}));
}

/// Timing experiment: N sessions in one process.
pub fn multi_worker() {
    let job = read_job();
    let n = job["n"].as_u64().unwrap_or(5);
    for i in 0..n {
        let t0 = std::time::Instant::now();
        let mut s = Session::launch(job["exe"].as_str().unwrap(), &[], 0).unwrap();
        let l = t0.elapsed().as_millis();
        for cmd in job["commands"].as_array().cloned().unwrap_or_default() {
            let _ = s.exec(&cmd);
            let _ = s.observe(false);
        }
        let c = t0.elapsed().as_millis();
        s.dbg = None;
        eprintln!("session {i}: launch {l} ms, commands done at {c} ms, total {} ms", t0.elapsed().as_millis());
    }
}
