//! E3 — exhaustive interleavings of the DAP writer threads under an owned scheduler.
//!
//! The real `DebugSession::run` (session thread) and the two real output forwarder threads are
//! run as OS threads, but each of them parks at the feature-gated schedule points; a controller
//! grants exactly one of them at a time, so one execution is a deterministic function of the
//! choice sequence. All schedules up to a preemption bound are enumerated (iterative bounding).

use crate::common::*;
use bugstalker::dap::transport::DapTransport;
use bugstalker::dap::yadap::session::DebugSession;
use bugstalker::verif;
use serde_json::{Value, json};
use std::collections::{BTreeMap, BTreeSet, VecDeque};
use std::io::Write;
use std::sync::{Arc, Condvar, Mutex};
use std::time::{Duration, Instant};

const THREADS: [&str; 3] = ["session", "fwd_out", "fwd_err"];

fn thread_of(point: &str) -> &'static str {
    let p = point.split(':').next().unwrap();
    THREADS.iter().copied().find(|t| *t == p).expect("unknown thread in point name")
}

#[derive(Default)]
struct Inner {
    parked: BTreeMap<&'static str, &'static str>,
    grant: Option<&'static str>,
    running: usize,
    free_run: bool,
    exited_fwd: usize,
    session_done: bool,
    queue: VecDeque<Value>,
    closed: bool,
}

struct Ctl {
    m: Mutex<Inner>,
    cv: Condvar,
}

impl Ctl {
    fn park(&self, name: &'static str) {
        let th = thread_of(name);
        let mut g = self.m.lock().unwrap();
        if name.ends_with(":exit") {
            g.exited_fwd += 1;
            if !g.free_run {
                g.running -= 1;
            }
            self.cv.notify_all();
            return;
        }
        if g.free_run {
            return;
        }
        g.parked.insert(th, name);
        g.running -= 1;
        self.cv.notify_all();
        while !(g.grant == Some(th) || g.free_run) {
            g = self.cv.wait(g).unwrap();
        }
        if g.grant == Some(th) {
            g.grant = None;
        }
    }
}

struct HTransport {
    ctl: Arc<Ctl>,
    wire: Arc<Mutex<Vec<Value>>>,
}

impl DapTransport for HTransport {
    fn read_message(&mut self) -> anyhow::Result<Value> {
        // the session thread holds the transport mutex here, exactly as with the shipped transports
        self.ctl.park("session:read");
        let mut g = self.ctl.m.lock().unwrap();
        loop {
            if let Some(m) = g.queue.pop_front() {
                return Ok(m);
            }
            if g.closed {
                return Err(anyhow::anyhow!("DAP connection closed"));
            }
            g = self.ctl.cv.wait(g).unwrap();
        }
    }

    fn write_message(&mut self, message: &Value) -> anyhow::Result<()> {
        self.wire.lock().unwrap().push(message.clone());
        Ok(())
    }
}

#[derive(Clone, Debug)]
pub struct Harness {
    pub requests: Vec<Value>,
    pub out_lines: Vec<String>,
    pub err_lines: Vec<String>,
}

impl Harness {
    pub fn standard(n_req: usize, n_out: usize, n_err: usize) -> Harness {
        let menu = [
            json!({"type":"request","command":"initialize","arguments":{"adapterID":"bsmc"}}),
            json!({"type":"request","command":"threads"}),
            json!({"type":"request","command":"noSuchCommand"}),
            json!({"type":"request","command":"setExceptionBreakpoints","arguments":{"filters":[]}}),
        ];
        let mut requests = vec![];
        for i in 0..n_req {
            let mut r = menu[i % menu.len()].clone();
            r["seq"] = json!(i as i64 + 1);
            requests.push(r);
        }
        Harness {
            requests,
            out_lines: (0..n_out).map(|i| format!("out{i}\n")).collect(),
            err_lines: (0..n_err).map(|i| format!("err{i}\n")).collect(),
        }
    }
    pub fn to_json(&self) -> Value {
        json!({"requests": self.requests, "out_lines": self.out_lines, "err_lines": self.err_lines})
    }
    pub fn from_json(v: &Value) -> Harness {
        Harness {
            requests: v["requests"].as_array().cloned().unwrap_or_default(),
            out_lines: serde_json::from_value(v["out_lines"].clone()).unwrap_or_default(),
            err_lines: serde_json::from_value(v["err_lines"].clone()).unwrap_or_default(),
        }
    }
}

#[derive(Debug, Clone)]
pub struct PointInfo {
    /// enabled threads in canonical order: the running thread first if still enabled, then by id
    pub enabled: Vec<&'static str>,
    pub chosen: usize,
    pub running_still_enabled: bool,
    pub at: Vec<(&'static str, &'static str)>,
}

#[derive(Debug, Clone)]
pub struct Execution {
    pub points: Vec<PointInfo>,
    pub wire: Vec<Value>,
    pub trace: Vec<String>,
    pub hang: Option<String>,
}

impl Execution {
    pub fn choices(&self) -> Vec<usize> {
        self.points.iter().map(|p| p.chosen).collect()
    }
}

/// Run one execution: follow `prefix`, then choice 0 at every later point.
pub fn run(h: &Harness, prefix: &[usize]) -> Result<Execution, String> {
    let ctl = Arc::new(Ctl { m: Mutex::new(Inner::default()), cv: Condvar::new() });
    let wire = Arc::new(Mutex::new(Vec::new()));
    {
        let mut g = ctl.m.lock().unwrap();
        g.running = 3;
    }
    let c2 = ctl.clone();
    verif::sched::install(Some(Arc::new(move |name: &'static str| c2.park(name))));

    let (out_r, out_w) = os_pipe::pipe().map_err(|e| e.to_string())?;
    let (err_r, err_w) = os_pipe::pipe().map_err(|e| e.to_string())?;
    let mut out_w = Some(out_w);
    let mut err_w = Some(err_w);
    let io: Arc<Mutex<dyn DapTransport>> =
        Arc::new(Mutex::new(HTransport { ctl: ctl.clone(), wire: wire.clone() }));
    let io_probe = io.clone();
    let c3 = ctl.clone();
    let session = std::thread::spawn(move || {
        let s = DebugSession::new(io);
        s.verif_start_output_forwarding(out_r, err_r);
        let r = s.run(vec![]);
        let mut g = c3.m.lock().unwrap();
        g.session_done = true;
        if !g.free_run {
            g.running -= 1;
        }
        c3.cv.notify_all();
        drop(g);
        r.map_err(|e| format!("{e:#}"))
    });

    let mut req_left: VecDeque<Value> = h.requests.iter().cloned().collect();
    let mut out_left: VecDeque<String> = h.out_lines.iter().cloned().collect();
    let mut err_left: VecDeque<String> = h.err_lines.iter().cloned().collect();
    let mut points = vec![];
    let mut trace = vec![];
    let mut last: Option<&'static str> = None;
    let mut hang = None;
    let deadline = Instant::now() + Duration::from_secs(20);
    loop {
        // wait for quiescence
        let (parked, session_done) = {
            let mut g = ctl.m.lock().unwrap();
            while g.running > 0 {
                let (ng, to) = ctl.cv.wait_timeout(g, Duration::from_millis(200)).unwrap();
                g = ng;
                if to.timed_out() && Instant::now() > deadline {
                    hang = Some(format!("threads did not reach a schedule point: parked={:?} running={}", g.parked, g.running));
                    break;
                }
            }
            (g.parked.clone(), g.session_done)
        };
        if hang.is_some() {
            break;
        }
        // ground truth for the transport mutex
        let lock_free = match io_probe.try_lock() {
            Ok(_g) => true,
            Err(std::sync::TryLockError::WouldBlock) => false,
            Err(std::sync::TryLockError::Poisoned(_)) => {
                hang = Some("transport mutex poisoned (a writer thread panicked)".into());
                break;
            }
        };
        let mut enabled: Vec<&'static str> = vec![];
        for th in THREADS {
            let Some(pt) = parked.get(th) else { continue };
            let kind = pt.split(':').nth(1).unwrap();
            let ok = match (th, kind) {
                // delivering the next request, or (none left) the client closing the connection
                ("session", "read") => true,
                (_, "pre_lock") => lock_free,
                // the next line, or (none left) end of stream
                ("fwd_out", "pre_read") | ("fwd_err", "pre_read") => true,
                (_, "pre_seq") | (_, "post_seq") => true,
                other => return Err(format!("unknown point {other:?}")),
            };
            if ok {
                enabled.push(th);
            }
        }
        let _ = session_done;
        if enabled.is_empty() {
            if !parked.is_empty() {
                hang = Some(format!("deadlock: no thread can proceed, parked at {parked:?}"));
            }
            break;
        }
        let running_still_enabled = last.map(|l| enabled.contains(&l)).unwrap_or(false);
        if running_still_enabled {
            let l = last.unwrap();
            enabled.retain(|t| *t != l);
            enabled.insert(0, l);
        }
        let idx = points.len();
        let chosen = if idx < prefix.len() { prefix[idx] } else { 0 };
        if chosen >= enabled.len() {
            // a replayed prefix must be reproducible exactly
            finalize(&ctl, out_w, err_w, session);
            return Err(format!("prefix diverged at {idx}: choice {chosen} of {enabled:?}"));
        }
        let th = enabled[chosen];
        let pt = parked[th];
        trace.push(pt.to_string());
        points.push(PointInfo {
            enabled: enabled.clone(),
            chosen,
            running_still_enabled,
            at: parked.iter().map(|(a, b)| (*a, *b)).collect(),
        });
        // environment part of the action
        match pt {
            "session:read" => match req_left.pop_front() {
                Some(r) => ctl.m.lock().unwrap().queue.push_back(r),
                None => ctl.m.lock().unwrap().closed = true,
            },
            "fwd_out:pre_read" => match out_left.pop_front() {
                Some(l) => out_w.as_mut().unwrap().write_all(l.as_bytes()).map_err(|e| e.to_string())?,
                None => drop(out_w.take()),
            },
            "fwd_err:pre_read" => match err_left.pop_front() {
                Some(l) => err_w.as_mut().unwrap().write_all(l.as_bytes()).map_err(|e| e.to_string())?,
                None => drop(err_w.take()),
            },
            _ => {}
        }
        {
            let mut g = ctl.m.lock().unwrap();
            g.parked.remove(th);
            g.running += 1;
            g.grant = Some(th);
            ctl.cv.notify_all();
        }
        last = Some(th);
    }
    finalize(&ctl, out_w, err_w, session);
    let wire = wire.lock().unwrap().clone();
    Ok(Execution { points, wire, trace, hang })
}

fn finalize(
    ctl: &Arc<Ctl>,
    out_w: Option<os_pipe::PipeWriter>,
    err_w: Option<os_pipe::PipeWriter>,
    session: std::thread::JoinHandle<Result<(), String>>,
) {
    {
        let mut g = ctl.m.lock().unwrap();
        g.free_run = true;
        g.closed = true;
        ctl.cv.notify_all();
    }
    drop(out_w);
    drop(err_w);
    let _ = session.join();
    let mut g = ctl.m.lock().unwrap();
    let deadline = Instant::now() + Duration::from_secs(10);
    while g.exited_fwd < 2 && Instant::now() < deadline {
        g = ctl.cv.wait_timeout(g, Duration::from_millis(50)).unwrap().0;
    }
    drop(g);
    verif::sched::install(None);
}

/// Oracle of C12 restricted to what a debugger-less session can produce (M1, M2, M3, M10).
pub fn check_wire(h: &Harness, x: &Execution) -> Vec<(String, String)> {
    let mut bad = vec![];
    if let Some(hg) = &x.hang {
        bad.push(("C12:sched:hang".to_string(), hg.clone()));
        return bad;
    }
    // M1
    for (k, m) in x.wire.iter().enumerate() {
        let seq = m["seq"].as_i64().unwrap_or(-1);
        if seq != k as i64 + 1 {
            let seqs: Vec<i64> = x.wire.iter().map(|m| m["seq"].as_i64().unwrap_or(-1)).collect();
            let who = match (m["type"].as_str(), m["event"].as_str()) {
                (Some("response"), _) => "response",
                (_, Some("output")) => "output-event",
                _ => "event",
            };
            bad.push((
                format!("C12:M1:wire-seq-out-of-order:{who}"),
                format!("message #{} on the wire carries seq {seq}; wire seqs {seqs:?}", k + 1),
            ));
            break;
        }
    }
    // M2/M3
    for r in &h.requests {
        let rs = r["seq"].as_i64().unwrap();
        let resp: Vec<&Value> = x
            .wire
            .iter()
            .filter(|m| m["type"] == "response" && m["request_seq"].as_i64() == Some(rs))
            .collect();
        if resp.len() != 1 {
            bad.push((
                format!("C12:M2:responses-per-request-{}", resp.len()),
                format!("request {} ({}) got {} responses", rs, r["command"], resp.len()),
            ));
        } else if resp[0]["command"] != r["command"] {
            bad.push(("C12:M2:command-mismatch".into(), format!("request {rs} {} answered as {}", r["command"], resp[0]["command"])));
        }
    }
    for m in x.wire.iter().filter(|m| m["type"] == "response") {
        let rs = m["request_seq"].as_i64();
        if !h.requests.iter().any(|r| r["seq"].as_i64() == rs) {
            bad.push(("C12:M3:response-to-unsent-request".into(), format!("{m}")));
        }
    }
    // M10
    for (cat, lines) in [("stdout", &h.out_lines), ("stderr", &h.err_lines)] {
        let got: Vec<String> = x
            .wire
            .iter()
            .filter(|m| m["event"] == "output" && m["body"]["category"] == cat)
            .map(|m| m["body"]["output"].as_str().unwrap_or("").to_string())
            .collect();
        if &got != lines {
            bad.push((
                format!("C12:M10:output-lines-{cat}"),
                format!("{cat} lines written {lines:?}, output events {got:?}"),
            ));
        }
    }
    bad
}

pub struct ExploreStats {
    pub executions: u64,
    pub points: u64,
    pub max_len: usize,
    pub outcomes: BTreeSet<String>,
    pub violations: Vec<(String, String, Vec<usize>)>,
    pub capped: bool,
    pub samples: Vec<Value>,
}

fn outcome_key(x: &Execution) -> String {
    x.wire
        .iter()
        .map(|m| {
            format!(
                "{}{}",
                match (m["type"].as_str(), m["event"].as_str()) {
                    (Some("response"), _) => format!("R{}", m["request_seq"]),
                    (_, Some("output")) => format!("O{}", m["body"]["category"].as_str().unwrap_or("?").chars().nth(3).unwrap_or('?')),
                    (_, Some(e)) => format!("E{}", &e[..e.len().min(4)]),
                    _ => "?".to_string(),
                },
                m["seq"]
            )
        })
        .collect::<Vec<_>>()
        .join(",")
}

/// Preemption-bounded DFS over the subtree below `prefix` (deviation positions >= prefix.len()).
pub fn explore(h: &Harness, prefix: Vec<usize>, bound: usize, stats: &mut ExploreStats, deadline: Instant) -> Result<(), String> {
    if Instant::now() > deadline {
        stats.capped = true;
        return Ok(());
    }
    let x = run(h, &prefix)?;
    stats.executions += 1;
    stats.points += x.points.len() as u64;
    stats.max_len = stats.max_len.max(x.points.len());
    stats.outcomes.insert(outcome_key(&x));
    if stats.samples.len() < 3 {
        stats.samples.push(json!({"schedule": x.trace, "wire": outcome_key(&x)}));
    }
    for (sig, detail) in check_wire(h, &x) {
        if stats.violations.iter().filter(|v| v.0 == sig).count() < 2 {
            stats.violations.push((sig, format!("{detail}; schedule {:?}", x.trace), x.choices()));
        }
    }
    let choices = x.choices();
    let mut cost_before = vec![0usize; x.points.len() + 1];
    for (i, p) in x.points.iter().enumerate() {
        cost_before[i + 1] = cost_before[i] + if p.chosen != 0 && p.running_still_enabled { 1 } else { 0 };
    }
    for i in prefix.len()..x.points.len() {
        let p = &x.points[i];
        let cost = cost_before[i] + if p.running_still_enabled { 1 } else { 0 };
        if cost > bound {
            continue;
        }
        for alt in 1..p.enabled.len() {
            let mut np = choices[..i].to_vec();
            np.push(alt);
            explore(h, np, bound, stats, deadline)?;
        }
    }
    Ok(())
}

/// Top-level split: prefixes with all deviations at positions < k, for distribution to workers.
pub fn split_jobs(h: &Harness, bound: usize, k: usize) -> Result<Vec<Vec<usize>>, String> {
    fn rec(h: &Harness, prefix: Vec<usize>, bound: usize, k: usize, out: &mut Vec<Vec<usize>>) -> Result<(), String> {
        let x = run(h, &prefix)?;
        let choices = x.choices();
        let mut cost = 0usize;
        let mut cost_before = vec![];
        for p in &x.points {
            cost_before.push(cost);
            if p.chosen != 0 && p.running_still_enabled {
                cost += 1;
            }
        }
        let lim = k.min(x.points.len());
        for i in prefix.len()..lim {
            let p = &x.points[i];
            let c = cost_before[i] + if p.running_still_enabled { 1 } else { 0 };
            if c > bound {
                continue;
            }
            for alt in 1..p.enabled.len() {
                let mut np = choices[..i].to_vec();
                np.push(alt);
                rec(h, np, bound, k, out)?;
            }
        }
        // leaf: this default completion, with further deviations only at positions >= k
        out.push(choices[..lim.max(prefix.len()).min(choices.len())].to_vec());
        Ok(())
    }
    let mut out = vec![];
    rec(h, vec![], bound, k, &mut out)?;
    Ok(out)
}

/// Worker entry: explore one subtree, print stats.
pub fn worker() {
    let job = read_job();
    let h = Harness::from_json(&job["harness"]);
    let prefix: Vec<usize> = serde_json::from_value(job["prefix"].clone()).unwrap();
    let bound = job["bound"].as_u64().unwrap() as usize;
    let secs = job["wall_s"].as_u64().unwrap_or(600);
    let mut stats = ExploreStats { executions: 0, points: 0, max_len: 0, outcomes: BTreeSet::new(), violations: vec![], capped: false, samples: vec![] };
    let r = explore(&h, prefix, bound, &mut stats, Instant::now() + Duration::from_secs(secs));
    emit_result(&json!({
        "error": r.err(),
        "executions": stats.executions,
        "points": stats.points,
        "max_len": stats.max_len,
        "outcomes": stats.outcomes,
        "violations": stats.violations.iter().map(|(s,d,c)| json!({"sig":s,"detail":d,"choices":c})).collect::<Vec<_>>(),
        "capped": stats.capped,
        "samples": stats.samples,
    }));
}

/// Replay a recorded schedule twice; both runs must give the same wire log.
pub fn replay(v: &Value) -> i32 {
    let h = Harness::from_json(&v["harness"]);
    let choices: Vec<usize> = serde_json::from_value(v["choices"].clone()).unwrap();
    let a = run(&h, &choices);
    let b = run(&h, &choices);
    match (a, b) {
        (Ok(a), Ok(b)) => {
            if outcome_key(&a) != outcome_key(&b) || a.trace != b.trace {
                eprintln!("harness nondeterminism: {:?} vs {:?}", outcome_key(&a), outcome_key(&b));
                return 2;
            }
            println!("schedule: {:?}", a.trace);
            println!("wire: {}", outcome_key(&a));
            let bad = check_wire(&h, &a);
            for (s, d) in &bad {
                println!("violated {s}: {d}");
            }
            if bad.is_empty() { 0 } else { 1 }
        }
        (a, b) => {
            eprintln!("replay failed to execute: {:?} {:?}", a.err(), b.err());
            2
        }
    }
}

pub fn part_sched(tier: Tier) -> Part {
    let mut part = Part::new("dap-writer-schedules");
    let (h, bound, wall) = match tier {
        Tier::Quick => (Harness::standard(2, 1, 1), 2usize, 40u64),
        Tier::Thorough => (Harness::standard(3, 2, 1), 3usize, 1500u64),
    };
    part.bounds = json!({"threads": 3, "requests": h.requests.len(), "stdout_lines": h.out_lines.len(), "stderr_lines": h.err_lines.len(), "preemption_bound": bound, "wall_cap_s": wall});
    part.rule = "real DebugSession::run + the two real output forwarder threads under an owned scheduler (schedule points before/after each sequence-number allocation and before each transport lock; the session parks inside read_message holding the transport mutex); every schedule with at most p preemptions is executed and its wire log checked against M1 (seq=1,2,3.. in wire order), M2/M3 (exactly one matching response per request), M10 (each output line exactly once, in order); distinct = distinct wire logs".into();
    let t0 = Instant::now();
    let jobs = match split_jobs(&h, bound, 4) {
        Ok(j) => j,
        Err(e) => {
            part.violate("C12:sched:engine-error", e, json!({}));
            part.exhaustive = false;
            return part;
        }
    };
    use rayon::prelude::*;
    let hj = h.to_json();
    let results: Vec<(Vec<usize>, WorkerOutcome)> = jobs
        .par_iter()
        .map(|p| {
            let job = json!({"harness": hj, "prefix": p, "bound": bound, "wall_s": wall});
            (p.clone(), run_worker("sched", &job, Duration::from_secs(wall + 60)))
        })
        .collect();
    let mut outcomes = BTreeSet::new();
    for (prefix, r) in results {
        match r {
            WorkerOutcome::Ok(v) => {
                if let Some(e) = v["error"].as_str() {
                    part.violate("C12:sched:engine-error", e.to_string(), json!({"engine":"sched","harness":hj,"choices":prefix}));
                    part.exhaustive = false;
                }
                part.states += v["executions"].as_u64().unwrap_or(0);
                part.transitions += v["points"].as_u64().unwrap_or(0);
                if v["capped"].as_bool().unwrap_or(false) {
                    part.exhaustive = false;
                    if part.caps_hit.is_empty() {
                        part.caps_hit.push(format!("wall cap {wall}s hit in at least one subtree"));
                    }
                }
                for o in v["outcomes"].as_array().cloned().unwrap_or_default() {
                    outcomes.insert(o.as_str().unwrap_or("").to_string());
                }
                for s in v["samples"].as_array().cloned().unwrap_or_default() {
                    part.sample(s);
                }
                for viol in v["violations"].as_array().cloned().unwrap_or_default() {
                    part.violate(
                        viol["sig"].as_str().unwrap_or("?"),
                        viol["detail"].as_str().unwrap_or("?"),
                        json!({"engine":"sched","harness":hj,"choices":viol["choices"]}),
                    );
                }
            }
            WorkerOutcome::Crashed { status, stderr, .. } => {
                part.violate("C12:sched:worker-crashed", format!("{status}: {stderr}"), json!({"engine":"sched","harness":hj,"choices":prefix}));
                part.exhaustive = false;
            }
            WorkerOutcome::Timeout { .. } => {
                part.exhaustive = false;
                part.caps_hit.push("worker timeout".into());
            }
        }
    }
    part.evaluations = part.states;
    part.traces_validated = part.states;
    part.distinct_outcomes = outcomes.len() as u64;
    part.distinct_nontrivial = outcomes.len() as u64;
    part.extra.insert("wall_s".into(), json!(t0.elapsed().as_secs_f64()));
    part.extra.insert("subtrees".into(), json!(jobs.len()));
    part
}
