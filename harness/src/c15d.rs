//! C15 through the DAP adapter: setVariable / setExpression / readMemory / writeMemory on a live
//! session; every effect is checked against /proc/<pid>/mem read by the harness itself, and the
//! program's own checksum printed at the end shows that it saw the written values.

use crate::common::{Part, Tier};
use crate::corpus::{self, Config};
use crate::isession::ISession;
use serde_json::{Value, json};
use std::os::unix::fs::FileExt;
use std::time::Duration;

pub const FN_TEXT: &str = r#"
#[derive(Clone, Copy)]
pub struct Pt {
    a: i32,
    b: bool,
}
#[inline(never)]
fn dv(seed: u64) -> u64 {
    let mut v_u8: u8 = core::hint::black_box(11);
    let mut v_i8: i8 = core::hint::black_box(-12);
    let mut v_u16: u16 = core::hint::black_box(1300);
    let mut v_i16: i16 = core::hint::black_box(-1400);
    let mut v_u32: u32 = core::hint::black_box(150000);
    let mut v_i32: i32 = core::hint::black_box(-160000);
    let mut v_u64: u64 = core::hint::black_box(17000000000);
    let mut v_i64: i64 = core::hint::black_box(-18000000000);
    let mut v_usize: usize = core::hint::black_box(19);
    let mut v_bool: bool = core::hint::black_box(true);
    let mut v_char: char = core::hint::black_box('q');
    let mut v_f64: f64 = core::hint::black_box(2.5);
    let mut v_pt: Pt = core::hint::black_box(Pt { a: 21, b: false });
    let mut v_arr: [u16; 3] = core::hint::black_box([31, 32, 33]);
    let mut acc = seed;
    acc = acc.wrapping_add(1);
    core::hint::black_box((&mut v_u8, &mut v_i8, &mut v_u16, &mut v_i16, &mut v_u32, &mut v_i32, &mut v_u64, &mut v_i64, &mut v_usize, &mut v_bool, &mut v_char, &mut v_f64, &mut v_pt, &mut v_arr));
    emit(v_u8 as u64);
    emit(v_i8 as i64 as u64);
    emit(v_u16 as u64);
    emit(v_i16 as i64 as u64);
    emit(v_u32 as u64);
    emit(v_i32 as i64 as u64);
    emit(v_u64);
    emit(v_i64 as u64);
    emit(v_usize as u64);
    emit(v_bool as u64);
    emit(v_char as u64);
    emit(v_f64.to_bits());
    emit(v_pt.a as i64 as u64);
    emit(v_pt.b as u64);
    emit(v_arr[0] as u64 + 1000 * v_arr[1] as u64 + 1000000 * v_arr[2] as u64);
    acc
}
"#;

pub struct Dap {
    pub sess: ISession,
    pub seq: i64,
    pub pid: i64,
}

impl Dap {
    pub fn send(&mut self, command: &str, args: Value) -> Result<Value, String> {
        self.seq += 1;
        let o = self.sess.cmd(&json!({"seq": self.seq, "type": "request", "command": command, "arguments": args}), Duration::from_secs(25)).map_err(|e| format!("{command}: {e:?}"))?;
        if let Some(p) = o["pid"].as_i64() {
            if p > 0 {
                self.pid = p;
            }
        }
        let resp = o["wire"].as_array().and_then(|w| w.iter().find(|m| m["type"] == "response").cloned()).unwrap_or(Value::Null);
        Ok(json!({"resp": resp, "wire": o["wire"]}))
    }
}

fn mem(pid: i64, addr: u64, len: usize) -> Option<Vec<u8>> {
    let f = std::fs::File::open(format!("/proc/{pid}/mem")).ok()?;
    let mut buf = vec![0u8; len];
    f.read_exact_at(&mut buf, addr).ok()?;
    Some(buf)
}

fn b64(data: &[u8]) -> String {
    const T: &[u8; 64] = b"ABCDEFGHIJKLMNOPQRSTUVWXYZabcdefghijklmnopqrstuvwxyz0123456789+/";
    let mut out = String::new();
    for c in data.chunks(3) {
        let n = (c[0] as u32) << 16 | (*c.get(1).unwrap_or(&0) as u32) << 8 | *c.get(2).unwrap_or(&0) as u32;
        out.push(T[(n >> 18) as usize & 63] as char);
        out.push(T[(n >> 12) as usize & 63] as char);
        out.push(if c.len() > 1 { T[(n >> 6) as usize & 63] as char } else { '=' });
        out.push(if c.len() > 2 { T[n as usize & 63] as char } else { '=' });
    }
    out
}

fn unb64(s: &str) -> Vec<u8> {
    let val = |c: u8| -> u32 {
        match c {
            b'A'..=b'Z' => (c - b'A') as u32,
            b'a'..=b'z' => (c - b'a') as u32 + 26,
            b'0'..=b'9' => (c - b'0') as u32 + 52,
            b'+' => 62,
            b'/' => 63,
            _ => 0,
        }
    };
    let bytes: Vec<u8> = s.bytes().filter(|c| !c.is_ascii_whitespace()).collect();
    let mut out = vec![];
    for c in bytes.chunks(4) {
        if c.len() < 4 {
            break;
        }
        let n = val(c[0]) << 18 | val(c[1]) << 12 | val(c[2]) << 6 | val(c[3]);
        out.push((n >> 16) as u8);
        if c[2] != b'=' {
            out.push((n >> 8) as u8);
        }
        if c[3] != b'=' {
            out.push(n as u8);
        }
    }
    out
}

pub fn part_dap_data(tier: Tier) -> Part {
    let mut part = Part::new("c15_dap_data");
    part.rule = "through the real DAP adapter, stopped in a function with 12 scalar locals of every width and sign, bool, char, f64, a struct and an array: setVariable of every scalar with 3-5 representable values each (bounds, zero), of struct fields and array elements through their child references, and setExpression by name; after every write the variables request shows the written value for that variable and unchanged values for all others, and the harness's own read of /proc/<pid>/mem shows that the only bytes of the stack frame that changed lie inside one span no longer than the variable; readMemory windows (all alignments, lengths 0..17, negative and positive offsets) equal /proc/<pid>/mem, writeMemory changes exactly the bytes sent; at the end the program prints its variables and must print the last values written".into();
    let prog = corpus::generate_custom("p_dapdata", FN_TEXT, "    a = a.wrapping_add(dv(a));");
    let built = match corpus::build(&prog, &Config::default_cfg()) {
        Ok(b) => b,
        Err(e) => {
            part.violate("MACHINERY:build", e, json!(null));
            return part;
        }
    };
    let src_text = std::fs::read_to_string(&built.src_path).unwrap_or_default();
    let line = src_text.lines().position(|l| l.contains("acc = acc.wrapping_add(1);")).map(|i| i as u64 + 1).unwrap_or(0);
    let replay = json!({"engine": "c15-dap", "exe": built.exe});
    let sess = match ISession::start("dap", &json!({"exe": built.exe, "main_entry_sp": 0})) {
        Ok(s) => s,
        Err(e) => {
            part.violate("MACHINERY:worker", e, replay);
            return part;
        }
    };
    let mut d = Dap { sess, seq: 0, pid: 0 };
    let src = json!({"path": built.src_path, "name": built.program.src_file});
    // last value written per emitted quantity
    let mut last: std::collections::BTreeMap<String, u64> = [("v_u8", 11u64), ("v_i8", (-12i64) as u64), ("v_u16", 1300), ("v_i16", (-1400i64) as u64), ("v_u32", 150000), ("v_i32", (-160000i64) as u64), ("v_u64", 17000000000), ("v_i64", (-18000000000i64) as u64), ("v_usize", 19), ("v_bool", 1), ("v_char", 'q' as u64), ("v_f64", 2.5f64.to_bits()), ("v_pt.a", 21), ("v_pt.b", 0), ("v_arr.0", 31), ("v_arr.1", 32), ("v_arr.2", 33)].into_iter().map(|(k, v)| (k.to_string(), v)).collect();
    let run = (|| -> Result<(), String> {
        d.send("initialize", json!({"adapterID": "bsmc"}))?;
        d.send("launch", json!({"program": built.exe, "args": []}))?;
        d.send("setBreakpoints", json!({"source": src, "breakpoints": [{"line": line}]}))?;
        let cd = d.send("configurationDone", json!({}))?;
        let tid = cd["wire"].as_array().and_then(|w| w.iter().find(|m| m["event"] == "stopped").and_then(|m| m["body"]["threadId"].as_i64())).ok_or("no stopped event")?;
        let st = d.send("stackTrace", json!({"threadId": tid}))?;
        let fid = st["resp"]["body"]["stackFrames"][0]["id"].as_i64().ok_or("no frame")?;
        let sc = d.send("scopes", json!({"frameId": fid}))?;
        let scopes = sc["resp"]["body"]["scopes"].as_array().cloned().unwrap_or_default();
        // the scope that holds v_u8
        let mut locals_ref = 0i64;
        for s in &scopes {
            if let Some(r) = s["variablesReference"].as_i64() {
                let vs = d.send("variables", json!({"variablesReference": r}))?;
                if vs["resp"]["body"]["variables"].as_array().map(|a| a.iter().any(|v| v["name"] == "v_u8")).unwrap_or(false) {
                    locals_ref = r;
                }
            }
        }
        if locals_ref == 0 {
            return Err(format!("no scope shows v_u8: {scopes:?}"));
        }
        let pid = d.pid;
        // the stack window of the frame: around the stack pointer
        let sp = {
            let s = std::fs::read_to_string(format!("/proc/{pid}/syscall")).unwrap_or_default();
            let parts: Vec<&str> = s.split_whitespace().collect();
            parts.get(1).and_then(|x| u64::from_str_radix(x.trim_start_matches("0x"), 16).ok()).unwrap_or(0)
        };
        if sp == 0 {
            return Err("cannot read the stack pointer of the stopped debuggee".into());
        }
        let win = (sp.saturating_sub(256), 4096usize);
        let read_vars = |d: &mut Dap, r: i64| -> Result<Vec<(String, String, i64)>, String> {
            let vs = d.send("variables", json!({"variablesReference": r}))?;
            Ok(vs["resp"]["body"]["variables"].as_array().cloned().unwrap_or_default().iter().map(|v| (v["name"].as_str().unwrap_or("").to_string(), v["value"].as_str().unwrap_or("").to_string(), v["variablesReference"].as_i64().unwrap_or(0))).collect())
        };
        let num = |s: &str| -> Option<i128> {
            let t = s.trim();
            let t = t.split(|c: char| c == '(' || c == ' ').next().unwrap_or(t);
            t.parse::<i128>().ok()
        };
        // one write + all checks
        let mut do_set = |d: &mut Dap, part: &mut Part, container: i64, name: &str, size: usize, text: &str, want_num: Option<i128>, key: &str, bits: u64, via_expr: Option<&str>| -> Result<(), String> {
            part.evaluations += 1;
            let fresh_locals = |d: &mut Dap| -> Result<Vec<(String, String, i64)>, String> {
                let sc = d.send("scopes", json!({"frameId": fid}))?;
                let mut found = vec![];
                for s in sc["resp"]["body"]["scopes"].as_array().cloned().unwrap_or_default() {
                    if let Some(r) = s["variablesReference"].as_i64() {
                        let vs = read_vars(d, r)?;
                        if vs.iter().any(|v| v.0 == "v_u8") {
                            found = vs;
                        }
                    }
                }
                Ok(found)
            };
            let before_vars = if via_expr.is_some() { fresh_locals(d)? } else { read_vars(d, container)? };
            let before_mem = mem(pid, win.0, win.1);
            let r = match via_expr {
                Some(e) => d.send("setExpression", json!({"expression": e, "value": text, "frameId": fid}))?,
                None => d.send("setVariable", json!({"variablesReference": container, "name": name, "value": text}))?,
            };
            let ok = r["resp"]["success"] == true;
            let after_mem = mem(pid, win.0, win.1);
            // setExpression answers with an `invalidated` event: references handed out before are
            // stale by protocol, the client asks for the scopes again
            let after_vars = if via_expr.is_some() { fresh_locals(d)? } else { read_vars(d, container)? };
            let label = format!("{} {name} := {text}", if via_expr.is_some() { "setExpression" } else { "setVariable" });
            if !ok {
                part.violate("C15:dap:write-of-representable-value-refused", format!("{label}: {}", r["resp"]["message"]), replay.clone());
                return Ok(());
            }
            part.distinct_nontrivial += 1;
            // the variable shows the value
            let shown = after_vars.iter().find(|v| v.0 == name).map(|v| v.1.clone()).unwrap_or_default();
            let shown_ok = match want_num {
                Some(n) => num(&shown) == Some(n),
                None => shown.trim() == text.trim() || shown.contains(text.trim_matches('\'')),
            };
            if !shown_ok {
                part.violate("C15:dap:later-read-does-not-show-the-written-value", format!("{label}: variables shows {shown:?}"), replay.clone());
            }
            // neighbours untouched
            for (n, v, _) in &before_vars {
                if n != name {
                    let a = after_vars.iter().find(|x| &x.0 == n).map(|x| x.1.clone());
                    // (a value set in this stop is echoed with the user's spelling, e.g. quotes)
                    let norm = |s: &str| s.trim().trim_matches('\'').to_string();
                    if a.as_deref().map(norm) != Some(norm(v)) {
                        part.violate("C15:dap:write-changed-another-variable", format!("{label}: {n} was {v:?}, is {a:?}"), replay.clone());
                    }
                }
            }
            // memory: one span, not longer than the variable
            if let (Some(b), Some(a)) = (before_mem, after_mem) {
                let changed: Vec<usize> = (0..b.len()).filter(|i| a[*i] != b[*i]).collect();
                if let (Some(lo), Some(hi)) = (changed.first(), changed.last()) {
                    if hi - lo + 1 > size {
                        part.violate("C15:dap:write-touched-bytes-outside-the-variable", format!("{label}: bytes changed at stack offsets {lo}..={hi} ({} bytes), the variable has {size}", hi - lo + 1), replay.clone());
                    }
                }
            }
            last.insert(key.to_string(), bits);
            Ok(())
        };
        // scalars
        let ints: [(&str, usize, Vec<i128>); 9] = [
            ("v_u8", 1, vec![0, 255, 7]),
            ("v_i8", 1, vec![-128, 127, 0, -1]),
            ("v_u16", 2, vec![0, 65535, 258]),
            ("v_i16", 2, vec![-32768, 32767, -2]),
            ("v_u32", 4, vec![0, 4294967295, 16909060]),
            ("v_i32", 4, vec![-2147483648, 2147483647, -3]),
            ("v_u64", 8, vec![0, 18446744073709551615, 72623859790382856]),
            ("v_i64", 8, vec![-9223372036854775808, 9223372036854775807, -4]),
            ("v_usize", 8, vec![0, 18446744073709551615, 5]),
        ];
        let reps = if tier == Tier::Quick { 3 } else { 5 };
        for (name, size, vals) in &ints {
            for v in vals.iter().take(reps) {
                do_set(&mut d, &mut part, locals_ref, name, *size, &v.to_string(), Some(*v), name, *v as u64, None)?;
            }
        }
        for v in ["false", "true"] {
            do_set(&mut d, &mut part, locals_ref, "v_bool", 1, v, None, "v_bool", (v == "true") as u64, None)?;
        }
        for v in ['a', 'Z', 'é'] {
            do_set(&mut d, &mut part, locals_ref, "v_char", 4, &format!("'{v}'"), None, "v_char", v as u64, None)?;
        }
        for v in [0.0f64, -1.5, 1e300] {
            do_set(&mut d, &mut part, locals_ref, "v_f64", 8, &format!("{v}"), None, "v_f64", v.to_bits(), None)?;
        }
        // setExpression by name
        do_set(&mut d, &mut part, locals_ref, "v_u16", 2, "4660", Some(4660), "v_u16", 4660, Some("v_u16"))?;
        do_set(&mut d, &mut part, locals_ref, "v_i32", 4, "-77", Some(-77), "v_i32", (-77i64) as u64, Some("v_i32"))?;
        // children: struct fields and array elements
        let vars = read_vars(&mut d, locals_ref)?;
        if let Some((_, _, r)) = vars.iter().find(|v| v.0 == "v_pt" && v.2 != 0) {
            do_set(&mut d, &mut part, *r, "a", 4, "-2000000000", Some(-2000000000), "v_pt.a", (-2000000000i64) as u64, None)?;
            do_set(&mut d, &mut part, *r, "b", 1, "true", None, "v_pt.b", 1, None)?;
        } else {
            part.violate("C15:dap:struct-has-no-children", format!("{vars:?}"), replay.clone());
        }
        let vars = read_vars(&mut d, locals_ref)?;
        if let Some((_, _, r)) = vars.iter().find(|v| v.0 == "v_arr" && v.2 != 0) {
            let kids = read_vars(&mut d, *r)?;
            for (i, (n, _, _)) in kids.iter().enumerate().take(3) {
                let val = 65535 - i as i128;
                do_set(&mut d, &mut part, *r, n, 2, &val.to_string(), Some(val), &format!("v_arr.{i}"), val as u64, None)?;
            }
        }
        // readMemory / writeMemory against /proc
        let base = (sp + 64) & !15;
        let mref = format!("0x{base:x}");
        for start in 0..9i64 {
            for len in [0usize, 1, 2, 7, 8, 9, 16, 17] {
                for off in [0i64, -8] {
                    part.evaluations += 1;
                    let r = d.send("readMemory", json!({"memoryReference": mref, "offset": start + off, "count": len}))?;
                    let want = mem(pid, (base as i64 + start + off) as u64, len).unwrap_or_default();
                    let got = unb64(r["resp"]["body"]["data"].as_str().unwrap_or(""));
                    if r["resp"]["success"] != true || got != want {
                        part.violate("C15:dap:readMemory-differs-from-the-process", format!("readMemory({mref}, offset {}, count {len}) -> success {} data {got:x?}, the process holds {want:x?}", start + off, r["resp"]["success"]), replay.clone());
                    } else if len > 0 {
                        part.distinct_nontrivial += 1;
                    }
                }
            }
        }
        // writeMemory into a scratch area of the red zone below the stack pointer
        let scratch = (sp - 128) & !15;
        for start in 0..8u64 {
            for len in [1usize, 3, 8, 9] {
                part.evaluations += 1;
                let data: Vec<u8> = (0..len).map(|i| (0xA0 + start as u8 * 7 + i as u8) ^ 0x5a).collect();
                let before = mem(pid, scratch - 16, 64).unwrap_or_default();
                let r = d.send("writeMemory", json!({"memoryReference": format!("0x{scratch:x}"), "offset": start, "data": b64(&data)}))?;
                let after = mem(pid, scratch - 16, 64).unwrap_or_default();
                let mut want = before.clone();
                for (i, b) in data.iter().enumerate() {
                    want[16 + start as usize + i] = *b;
                }
                if r["resp"]["success"] != true || after != want {
                    part.violate("C15:dap:writeMemory-effect-differs", format!("writeMemory(0x{scratch:x}+{start}, {len} bytes): success {}, memory {after:x?}, expected {want:x?}", r["resp"]["success"]), replay.clone());
                } else {
                    part.distinct_nontrivial += 1;
                }
            }
        }
        // the program must see the written values
        let fin = d.send("continue", json!({"threadId": tid}))?;
        let mut out = String::new();
        for m in fin["wire"].as_array().cloned().unwrap_or_default() {
            if m["event"] == "output" {
                out.push_str(m["body"]["output"].as_str().unwrap_or(""));
            }
        }
        let tail = d.sess.cmd(&json!({"seq": 9999, "type": "request", "command": "threads", "arguments": {}}), Duration::from_secs(5));
        if let Ok(t) = tail {
            for m in t["wire"].as_array().cloned().unwrap_or_default() {
                if m["event"] == "output" {
                    out.push_str(m["body"]["output"].as_str().unwrap_or(""));
                }
            }
        }
        let printed: Vec<u64> = out.lines().filter_map(|l| l.trim().parse::<u64>().ok()).collect();
        let order = ["v_u8", "v_i8", "v_u16", "v_i16", "v_u32", "v_i32", "v_u64", "v_i64", "v_usize", "v_bool", "v_char", "v_f64", "v_pt.a", "v_pt.b"];
        let mut want: Vec<u64> = order.iter().map(|k| last[*k]).collect();
        want.push(last["v_arr.0"] + 1000 * last["v_arr.1"] + 1000000 * last["v_arr.2"]);
        if printed.len() < want.len() || printed[..want.len()] != want[..] {
            part.violate("C15:dap:program-does-not-see-the-written-values", format!("the program prints {printed:?}, the last values written are {want:?}"), replay.clone());
        }
        part.sample(json!({"writes": part.distinct_nontrivial, "program_output": printed.iter().take(6).collect::<Vec<_>>()}));
        Ok(())
    })();
    if let Err(e) = run {
        part.violate("C15:dap:session-failed", e, replay);
    }
    let _ = d.sess.end(Duration::from_secs(10));
    part.states = part.evaluations;
    part.traces_validated = 1;
    part
}
