//! C12 (protocol monitor over request histories) and C13 (breakpoint replace / option semantics).

use crate::common::*;
use crate::corpus::{self, Config, Stmt};
use crate::dapx::*;
use crate::e2x::{self, Prog};
use serde_json::{Value, json};
use std::time::{Duration, Instant};

type Oracle = Box<dyn Fn(&DapCtx, &DModel, &mut DModel, &Sym, &Value, &str, &mut Vec<Finding>) + Sync>;

pub fn oracle_for(prop: &'static str) -> Oracle {
    match prop {
        "C13" => Box::new(c13_oracle),
        _ => Box::new(|_, _, _, _, _, _, _| {}),
    }
}

fn ctx_for(p: &Prog) -> DapCtx<'_> {
    // lines: the loop body statement and the statement after the loop / in a callee
    let mut lines = vec![];
    for mark in ["body1", "body2", "callf", "ff.2", "rec.4", "main.emit"] {
        if let Some(l) = p.line_of(mark) {
            if !p.stmt_addrs(l).is_empty() && !lines.contains(&l) {
                lines.push(l);
            }
        }
    }
    lines.truncate(2);
    let mut fns: Vec<String> = p.built.program.functions.iter().filter(|f| *f != "main" && *f != "emit").cloned().collect();
    fns.truncate(1);
    if fns.is_empty() {
        fns.push("emit".into());
    }
    // an instruction inside the loop (its header, reached on every iteration) when there is one
    let insns = ["while", "main.emit"].iter().filter_map(|m| p.line_of(m)).map(|l| p.stmt_addrs(l)).find(|a| !a.is_empty()).unwrap_or_default().into_iter().filter(|a| p.in_trace(*a)).take(1).collect();
    DapCtx { p, lines, fns, insns, fn_fallback: vec![] }
}

fn c12_alphabet() -> Vec<Sym> {
    vec![
        Sym::Initialize,
        Sym::Launch,
        Sym::LaunchMissingProgram,
        Sym::LaunchIllTyped,
        Sym::AttachMissingPid,
        Sym::SetBps(vec![(0, BpOpt::Plain)]),
        Sym::SetBpsMissingSource,
        Sym::SetBpsIllTyped,
        Sym::SetFnBps(vec![0]),
        Sym::SetFnBpsIllTyped,
        Sym::ConfigurationDone,
        Sym::Threads,
        Sym::StackTrace,
        Sym::StackTraceMissing,
        Sym::StackTraceIllTyped,
        Sym::Scopes,
        Sym::ScopesBad,
        Sym::Variables,
        Sym::VariablesBad,
        Sym::Evaluate,
        Sym::EvaluateMissing,
        Sym::Continue,
        Sym::ContinueIllTyped,
        Sym::Next,
        Sym::StepIn,
        Sym::StepOut,
        Sym::Pause,
        Sym::Restart,
        Sym::Terminate,
        Sym::Disconnect(true),
        Sym::Disconnect(false),
        Sym::CancelFuture,
        Sym::CancelNone,
        Sym::Unknown,
        Sym::Completions,
        Sym::CompletionsPastEnd,
    ]
}

fn progs(bodies: Vec<Vec<Stmt>>) -> Result<Vec<Prog>, String> {
    let builts = corpus::build_many(&bodies, &[Config::default_cfg()])?;
    e2x::prepare(builts)
}

pub fn part_histories(tier: Tier) -> Part {
    let mut part = Part::new("dap-request-histories");
    let cfg = DapCfg { prop: "C12", depth: if tier == Tier::Quick { 4 } else { 6 }, alphabet: c12_alphabet(), wall: wall_cap(tier, 45, 2400), c13: false };
    part.bounds = json!({"symbols": cfg.alphabet.len(), "depth": cfg.depth, "programs": 1, "wall_cap_s": cfg.wall.as_secs()});
    part.rule = "explicit-state search over DAP request histories on the real DebugSession::run (in-process adapter thread, real debuggee): 36 request symbols (valid / missing / ill-typed arguments, out-of-order, repeated) are each executed from every distinct canonical state (lifecycle flags, located reference-trace index of the stopped debuggee, breakpoint tables, pending cancellation) up to the depth bound; every message written is checked by the protocol monitor M1-M11 of DESIGN.md Appendix B".into();
    let ps = match progs(vec![vec![Stmt::While(3), Stmt::CallF]]) {
        Ok(p) => p,
        Err(e) => {
            part.violate("C12:machinery:corpus", e, json!({}));
            part.exhaustive = false;
            return part;
        }
    };
    let deadline = Instant::now() + cfg.wall;
    let oracle = oracle_for("C12");
    for p in &ps {
        let cx = ctx_for(p);
        explore(&cx, &cfg, &mut part, deadline, &*oracle);
    }
    part.traces_validated = part.transitions;
    part
}

/// The shape of what the adapter wrote while one request was handled: kinds only (no seq, no ids).
fn wire_shape(o: &Value) -> Vec<String> {
    o["wire"]
        .as_array()
        .cloned()
        .unwrap_or_default()
        .iter()
        .filter_map(|m| match m["type"].as_str() {
            Some("response") => Some(format!("response:{}:{}", m["command"].as_str().unwrap_or("?"), m["success"])),
            Some("event") => {
                let e = m["event"].as_str().unwrap_or("?");
                // debuggee output is forwarded by other threads: its position is not fixed; breakpoint
                // events depend on the records the adapter keeps from the first lifecycle (a
                // replaced record is announced as removed): not lifecycle events
                if e == "output" || e == "module" || e == "loadedSource" || e == "process" || e == "breakpoint" {
                    None
                } else if e == "stopped" {
                    Some(format!("event:stopped:{}", m["body"]["reason"].as_str().unwrap_or("?")))
                } else if e == "thread" {
                    Some(format!("event:thread:{}", m["body"]["reason"].as_str().unwrap_or("?")))
                } else {
                    Some(format!("event:{e}"))
                }
            }
            _ => None,
        })
        .collect()
}

/// Second lifecycle on one connection ("start from non-initial states"): a first debuggee is run to
/// its end, then one (thorough: two) arbitrary request(s) of the alphabet, then a complete second
/// lifecycle.  The protocol monitor runs over the whole wire, and the second lifecycle must look
/// exactly like the same requests on a fresh connection.
pub fn part_second_lifecycle(tier: Tier) -> Part {
    let mut part = Part::new("dap-second-lifecycle");
    part.rule = "one connection, two debuggees: a first lifecycle (run to the exit after a breakpoint stop; thorough also: run to the exit without any stop; `terminate` and `disconnect` end the connection) is followed by every request symbol of the alphabet (thorough: every ordered pair) and then by a complete second lifecycle [launch, setFunctionBreakpoints, configurationDone, continue]; the protocol monitor M1-M11 checks every message of the whole connection, and the messages of the second lifecycle (responses and lifecycle events, by kind) must be exactly those the same four requests produce on a fresh connection: nothing of the first debuggee may leak into the second".into();
    let ps = match progs(vec![vec![Stmt::While(3), Stmt::CallF]]) {
        Ok(p) => p,
        Err(e) => {
            part.violate("C12:machinery:corpus", e, json!({}));
            part.exhaustive = false;
            return part;
        }
    };
    let cfg = DapCfg { prop: "C12", depth: 0, alphabet: c12_alphabet(), wall: wall_cap(tier, 45, 1200), c13: false };
    let deadline = Instant::now() + cfg.wall;
    let oracle = oracle_for("C12");
    let life = vec![Sym::Launch, Sym::SetFnBps(vec![0]), Sym::ConfigurationDone, Sym::Continue];
    let firsts: Vec<(&str, Vec<Sym>)> = vec![
        ("exit-after-stop", life.clone()),
        ("exit-without-stop", vec![Sym::Launch, Sym::ConfigurationDone]),

    ];
    // quick tier: the richer first lifecycle only
    let firsts: Vec<(&str, Vec<Sym>)> = if tier == Tier::Quick { firsts.into_iter().take(1).collect() } else { firsts };
    let between: Vec<Sym> = cfg.alphabet.iter().filter(|s| !matches!(s, Sym::Disconnect(_) | Sym::Terminate)).cloned().collect();
    for p in &ps {
        let cx = ctx_for(p);
        // reference: the lifecycle on a fresh connection
        let fresh = drive(&cx, &cfg, &life, &*oracle);
        let fresh_shape: Vec<Vec<String>> = fresh.obs.iter().map(wire_shape).collect();
        if fresh.error.is_some() || !fresh.model.terminated || fresh_shape.len() != life.len() {
            part.violate("C12:machinery:second-lifecycle-reference", format!("[{}] the reference lifecycle did not run to its end: {:?} {fresh_shape:?}", p.name(), fresh.error), json!({}));
            part.exhaustive = false;
            continue;
        }
        part.sample(json!({"reference_lifecycle": fresh_shape}));
        let mut jobs: Vec<(String, Vec<Sym>, usize)> = vec![];
        for (fname, first) in &firsts {
            jobs.push((format!("{fname} + nothing"), first.clone(), first.len()));
            for x in &between {
                let mut path = first.clone();
                path.push(x.clone());
                jobs.push((format!("{fname} + {}", x.label()), path, first.len() + 1));
                if tier == Tier::Thorough {
                    for y in &between {
                        let mut path = first.clone();
                        path.push(x.clone());
                        path.push(y.clone());
                        jobs.push((format!("{fname} + {} + {}", x.label(), y.label()), path, first.len() + 2));
                    }
                }
            }
        }
        let capped = std::sync::atomic::AtomicBool::new(false);
        let results: Vec<(String, Vec<Sym>, usize, Option<Driven>)> = {
            use rayon::prelude::*;
            let pool = rayon::ThreadPoolBuilder::new().num_threads(8).build().unwrap();
            pool.install(|| {
                jobs.into_par_iter()
                    .map(|(name, mut path, at)| {
                        if Instant::now() > deadline {
                            capped.store(true, std::sync::atomic::Ordering::Relaxed);
                            return (name, path, at, None);
                        }
                        path.extend(life.iter().cloned());
                        let d = drive(&cx, &cfg, &path, &*oracle);
                        (name, path, at, Some(d))
                    })
                    .collect()
            })
        };
        let mut outcomes: std::collections::BTreeSet<String> = Default::default();
        // what one run of a history shows: (signature, detail) pairs + the shape of its last lifecycle
        let judge = |name: &str, at: usize, d: &Driven| -> (Vec<(String, String)>, String) {
            let mut v: Vec<(String, String)> = vec![];
            if let Some(e) = &d.error {
                v.push(("C12:second-lifecycle:connection-broke".to_string(), format!("[{}] {name}: {e}", p.name())));
                return (v, String::new());
            }
            for f in &d.findings {
                v.push((f.sig.clone(), f.detail.clone()));
            }
            let second: Vec<Vec<String>> = d.obs[at.min(d.obs.len())..].iter().map(wire_shape).collect();
            if second != fresh_shape {
                let k = (0..second.len().min(fresh_shape.len())).find(|i| second[*i] != fresh_shape[*i]).unwrap_or(0);
                // what the adapter said when it refused (helps to tell a race from a rule)
                let refusals: Vec<String> = d.obs[at.min(d.obs.len())..].iter().flat_map(|o| o["wire"].as_array().cloned().unwrap_or_default()).filter(|m| m["type"] == "response" && m["success"] == false).map(|m| format!("{}: {}", m["command"].as_str().unwrap_or("?"), m["message"].as_str().or(m["body"]["error"]["format"].as_str()).unwrap_or("?"))).collect();
                v.push((format!("C12:second-lifecycle:differs-from-a-fresh-one:{}", life[k.min(life.len() - 1)].label()), format!("[{}] {name}: while `{}` of the second lifecycle was handled the adapter wrote {:?}; on a fresh connection {:?}; refusals: {refusals:?}", p.name(), life[k.min(life.len() - 1)].label(), second.get(k), fresh_shape.get(k))));
            }
            (v, format!("{second:?}"))
        };
        let known: std::collections::BTreeSet<String> = crate::common::load_known_findings().into_iter().filter(|k| k.kind == "finding").map(|k| k.signature).collect();
        let mut outcomes: std::collections::BTreeSet<String> = Default::default();
        let mut unreproducible: Vec<String> = vec![];
        for (name, path, at, d) in results {
            let Some(d) = d else { continue };
            let replay = json!({"engine":"dap","prop":"C12","exe":cx.p.built.exe,"lines":cx.lines,"fns":cx.fns,"insns":cx.insns,"fn_fallback":cx.fn_fallback,"path":path,"history":path.iter().map(|a| a.label()).collect::<Vec<_>>()});
            part.states += 1;
            part.transitions += path.len() as u64;
            part.evaluations += 1;
            let (found, shape) = judge(&name, at, &d);
            outcomes.insert(shape);
            if found.is_empty() {
                part.distinct_nontrivial += 1;
                continue;
            }
            // a finding counts only if a fresh connection shows it again (known ones are matched later)
            let mut again: Option<Vec<(String, String)>> = None;
            for (sig, detail) in found {
                if known.contains(&sig) {
                    part.violate(sig, detail, replay.clone());
                    continue;
                }
                if again.is_none() {
                    let mut seen = vec![];
                    for _ in 0..2 {
                        let d2 = drive(&cx, &cfg, &path, &*oracle);
                        part.evaluations += 1;
                        seen.extend(judge(&name, at, &d2).0);
                    }
                    again = Some(seen);
                }
                if again.as_ref().unwrap().iter().any(|(s2, _)| *s2 == sig) {
                    part.violate(sig, detail, replay.clone());
                } else {
                    unreproducible.push(format!("{sig}: {}", detail.chars().take(300).collect::<String>()));
                }
            }
        }
        if !unreproducible.is_empty() {
            part.exhaustive = false;
            part.caps_hit.push(format!("{} observation(s) made once could not be reproduced on fresh connections and are not verdicts", unreproducible.len()));
            part.extra.insert("unreproducible_observations".into(), json!(unreproducible.iter().take(5).collect::<Vec<_>>()));
        }
        part.distinct_outcomes += outcomes.len() as u64;
        if capped.load(std::sync::atomic::Ordering::Relaxed) {
            part.exhaustive = false;
            part.caps_hit.push("wall cap hit".into());
        }
    }
    part.bounds = json!({"first_lifecycles": firsts.len(), "requests_between": between.len(), "pairs": tier == Tier::Thorough, "wall_cap_s": cfg.wall.as_secs()});
    part.traces_validated = part.states;
    part
}

// ------------------------------------------------------------------------------------------ C13

/// Expected behaviour of the latest breakpoint sets, from the reference trace.
fn c13_oracle(cx: &DapCtx, before: &DModel, after: &mut DModel, sym: &Sym, obs: &Value, hist: &str, f: &mut Vec<Finding>) {
    let wire = obs["wire"].as_array().cloned().unwrap_or_default();
    let resp = wire.iter().find(|x| x["type"] == "response");
    let success = resp.map(|r| r["success"].as_bool().unwrap_or(false)).unwrap_or(false);
    let t = &cx.p.trace;
    // --- verified flags: true exactly when a location was installed (patch present in memory)
    if let (Sym::SetBps(v), true) = (sym, success) {
        let bps = resp.unwrap()["body"]["breakpoints"].as_array().cloned().unwrap_or_default();
        if bps.len() != v.len() {
            f.push(Finding { sig: "C13:response:breakpoint-count".into(), detail: format!("{hist}: {} breakpoints requested, {} answered", v.len(), bps.len()) });
        }
        if after.configured && !after.exited {
            let diff: Vec<u64> = obs["proc"]["text_diff"].as_array().map(|a| a.iter().filter_map(|x| x.as_u64()).collect()).unwrap_or_default();
            for ((k, _), b) in v.iter().zip(bps.iter()) {
                let addrs = cx.p.stmt_addrs(cx.lines[*k as usize]);
                let installed = addrs.iter().any(|a| diff.contains(a));
                let verified = b["verified"].as_bool().unwrap_or(false);
                if verified != installed {
                    f.push(Finding { sig: format!("C13:verified-flag:{}", if verified { "true-but-no-patch" } else { "false-but-patched" }), detail: format!("{hist}: line {} verified={verified}, statement addresses {:x?}, patched addresses {:x?}", cx.lines[*k as usize], addrs, diff) });
                }
            }
        }
    }
    // --- stops: after a resume, the stop must be the next reference arrival at a location of the
    // latest sets, filtered by the options
    if !(sym.resumes() && success) || matches!(sym, Sym::Next | Sym::StepIn | Sym::StepOut) {
        return;
    }
    if !after.configured && !matches!(sym, Sym::ConfigurationDone) {
        return;
    }
    // the location sets
    let mut locs: Vec<(u64, Option<(u8, BpOpt)>)> = vec![];
    for (k, o) in &after.line_bps {
        for a in cx.p.stmt_addrs(cx.lines[*k as usize]).into_iter().take(1) {
            locs.push((a, Some((*k, *o))));
        }
    }
    for k in &after.fn_bps {
        // function breakpoints: any statement address inside the function at which the debugger
        // actually patched is accepted (address choice is C04's subject): use the patch set
        let name = &cx.fns[*k as usize];
        let diff: Vec<u64> = obs["proc"]["text_diff"].as_array().map(|a| a.iter().filter_map(|x| x.as_u64()).collect()).unwrap_or_default();
        let mut patched_inside = false;
        for fu in cx.p.dref.live_funcs().iter().filter(|fu| fu.name.split('<').next() == Some(name.as_str())) {
            for a in &diff {
                if fu.ranges.iter().any(|(lo, hi)| lo + cx.p.base <= *a && *a < hi + cx.p.base) {
                    patched_inside = true;
                    if !locs.iter().any(|l| l.0 == *a) {
                        locs.push((*a, None));
                    }
                }
            }
        }
        // the overlap part knows where the function breakpoint belongs (the first statement, which
        // its line breakpoint shares): a function of the latest set with no patch to be seen
        // (process gone, or the location lost) is still due there
        if !patched_inside && *k == 0 {
            for a in &cx.fn_fallback {
                if !locs.iter().any(|l| l.0 == *a) {
                    locs.push((*a, None));
                }
            }
        }
    }
    for k in &after.insn_bps {
        locs.push((cx.insns[*k as usize], after.insn_opt.map(|o| (200u8, o))));
    }
    // whether hit counters start again with a restarted process is not specified by the property
    let has_hit_opts = after.line_bps.values().any(|o| matches!(o, BpOpt::Hit2 | BpOpt::HitGe2 | BpOpt::LogHit2)) || matches!(after.insn_opt, Some(BpOpt::Hit2 | BpOpt::HitGe2 | BpOpt::LogHit2));
    if matches!(sym, Sym::Restart) && has_hit_opts {
        after.hits.clear();
        after.hits_unknown = true;
    }
    if after.hits_unknown && has_hit_opts {
        return;
    }
    let from = if matches!(sym, Sym::Restart | Sym::ConfigurationDone) { 0 } else { before.idx.map(|i| i + 1).unwrap_or(0) };
    if before.idx.is_none() && !matches!(sym, Sym::Restart | Sym::ConfigurationDone) {
        return; // position unknown (e.g. stopped outside the traced window)
    }
    // walk the reference trace, applying option semantics per arrival
    let mut hits: std::collections::BTreeMap<u64, u32> = if matches!(sym, Sym::Restart | Sym::ConfigurationDone) { Default::default() } else { before.hits.clone() };
    let mut logs_expected = 0usize;
    let mut expect: Option<usize> = None;
    for j in from..t.steps.len() {
        let pc = t.steps[j].pc;
        let Some((_, opt)) = locs.iter().find(|l| l.0 == pc) else { continue };
        let n = hits.entry(pc).or_insert(0u32);
        *n += 1;
        let stop = match opt.map(|o| o.1) {
            None | Some(BpOpt::Plain) | Some(BpOpt::CondTrue) => true,
            Some(BpOpt::CondFalse) => false,
            Some(BpOpt::CondI2) => loop_counter_at(cx.p, j).map(|i| i != 0).unwrap_or(true),
            Some(BpOpt::Hit2) => *n == 2,
            Some(BpOpt::HitGe2) => *n >= 2,
            Some(BpOpt::Log) => {
                logs_expected += 1;
                false
            }
            Some(BpOpt::LogHit2) => {
                if *n == 2 {
                    logs_expected += 1;
                }
                false
            }
            Some(BpOpt::LogCondFalse) => false,
        };
        if stop {
            expect = Some(j);
            break;
        }
    }
    after.hits = hits.iter().map(|(k, v)| (*k, *v)).collect();
    let stopped = wire.iter().find(|m| m["event"] == "stopped");
    let exited = wire.iter().any(|m| m["event"] == "exited");
    let phase_name = |ph: u8| match ph {
        0 => "set-before-launch",
        1 => "set-before-configurationDone",
        _ => "set-while-running",
    };
    // which request kind owns a location, and in which phase that set was sent
    let when_of = |pc: u64| -> String {
        if matches!(sym, Sym::Restart) {
            return "first-stop-after-restart".to_string();
        }
        match locs.iter().find(|l| l.0 == pc) {
            Some((_, Some((200, _)))) => format!("instruction-breakpoint:{}", phase_name(after.insn_phase)),
            Some((_, Some(_))) => phase_name(after.line_phase).to_string(),
            Some((a, None)) if after.insn_bps.iter().any(|k| cx.insns[*k as usize] == *a) => phase_name(after.insn_phase).to_string(),
            Some((_, None)) => phase_name(after.fn_phase).to_string(),
            // not a location of the latest sets: a replaced line set is the usual owner
            None => format!("replaced-set-was-{}", phase_name(after.prev_line_phase)),
        }
    };
    let optname = |pc: u64| -> String { locs.iter().find(|l| l.0 == pc).and_then(|l| l.1).map(|o| format!("{:?}", o.1)).unwrap_or("plain".into()) };
    match (expect, stopped, exited) {
        (Some(j), Some(ev), _) => {
            let want = t.steps[j].pc;
            let got = obs["proc"]["pc"].as_u64();
            // the reason string is not part of the property (restart reports "entry"): only
            // where the program stopped counts
            let _ = ev;
            if got != Some(want) || after.idx != Some(j) {
                let got_pc = got.unwrap_or(0);
                let at_loc = locs.iter().any(|l| l.0 == got_pc);
                let kind = if at_loc { format!("stopped-where-option-says-no:{}", optname(got_pc)) } else { "stopped-at-location-of-replaced-set".to_string() };
                f.push(Finding { sig: format!("C13:stop:{kind}:{}", when_of(got_pc)), detail: format!("{hist}: stopped at {got_pc:#x} (trace index {:?}); the latest sets {:x?} with their options demand the next stop at {want:#x} (index {j})", after.idx, locs.iter().map(|l| l.0).collect::<Vec<_>>()) });
            }
        }
        (Some(j), None, true) => {
            f.push(Finding { sig: format!("C13:stop:missed:{}:{}", optname(t.steps[j].pc), when_of(t.steps[j].pc)), detail: format!("{hist}: ran to exit, but the latest sets demand a stop at {:#x} (index {j})", t.steps[j].pc) });
        }
        (None, Some(ev), _) => {
            let got_pc = obs["proc"]["pc"].as_u64().unwrap_or(0);
            let at_loc = locs.iter().any(|l| l.0 == got_pc);
            if ev["body"]["reason"] == "breakpoint" {
                let kind = if at_loc { format!("stopped-where-option-says-no:{}", optname(got_pc)) } else { "stopped-at-location-of-replaced-set".to_string() };
                f.push(Finding { sig: format!("C13:stop:{kind}:{}", when_of(got_pc)), detail: format!("{hist}: stopped at {got_pc:#x}, but with the latest sets {:x?} no further stop is due before exit", locs.iter().map(|l| l.0).collect::<Vec<_>>()) });
            }
        }
        _ => {}
    }
    // logpoints: one output event per hit
    let logs_got = wire.iter().filter(|m| m["event"] == "output" && m["body"]["output"].as_str().map(|s| s.starts_with("log ")).unwrap_or(false)).count();
    if logs_got != logs_expected && (expect.is_some() || exited) {
        let when = if matches!(sym, Sym::Restart) { "first-stop-after-restart" } else { phase_name(after.line_phase) };
        f.push(Finding { sig: format!("C13:logpoint:outputs-{}:{when}", if logs_got < logs_expected { "missing" } else { "extra" }), detail: format!("{hist}: {logs_expected} logpoint hits in the reference execution, {logs_got} output events") });
    }
}

/// Value of the loop counter `i` when the loop-body statement at trace index j executes:
/// the number of earlier arrivals at the same pc in the same activation.
fn loop_counter_at(p: &Prog, j: usize) -> Option<u64> {
    let pc = p.trace.steps[j].pc;
    Some((0..j).filter(|&q| p.trace.steps[q].pc == pc && p.stack(q) == p.stack(j)).count() as u64)
}

pub fn c13_update_hits(cx: &DapCtx, m: &mut DModel) {
    let _ = (cx, m);
}

pub fn part_c13(tier: Tier) -> Part {
    let mut part = Part::new("dap-breakpoint-replace-and-options");
    let mut alphabet = vec![Sym::Initialize, Sym::Launch, Sym::ConfigurationDone, Sym::Continue, Sym::Restart];
    // setBreakpoints: subsets of two lines x options on the first line
    alphabet.push(Sym::SetBps(vec![]));
    // the quick tier keeps one representative per mechanism (condition, hit counter, logpoint,
    // logpoint with a hit counter); the thorough tier has all nine
    let line_opts: Vec<BpOpt> = if tier == Tier::Quick {
        vec![BpOpt::Plain, BpOpt::CondFalse, BpOpt::CondI2, BpOpt::Hit2, BpOpt::Log, BpOpt::LogHit2]
    } else {
        vec![BpOpt::Plain, BpOpt::CondTrue, BpOpt::CondFalse, BpOpt::CondI2, BpOpt::Hit2, BpOpt::HitGe2, BpOpt::Log, BpOpt::LogHit2, BpOpt::LogCondFalse]
    };
    for o in line_opts {
        alphabet.push(Sym::SetBps(vec![(0, o)]));
    }
    alphabet.push(Sym::SetBps(vec![(1, BpOpt::Plain)]));
    alphabet.push(Sym::SetBps(vec![(0, BpOpt::Plain), (1, BpOpt::Plain)]));
    alphabet.push(Sym::SetFnBps(vec![]));
    alphabet.push(Sym::SetFnBps(vec![0]));
    alphabet.push(Sym::SetInsnBps(vec![]));
    alphabet.push(Sym::SetInsnBps(vec![0]));
    let insn_opts: Vec<BpOpt> = if tier == Tier::Quick { vec![BpOpt::Hit2, BpOpt::Log] } else { vec![BpOpt::CondFalse, BpOpt::Hit2, BpOpt::Log, BpOpt::LogHit2] };
    for o in insn_opts {
        alphabet.push(Sym::SetInsnBpOpt(o));
    }
    let cfg = DapCfg { prop: "C13", depth: if tier == Tier::Quick { 5 } else { 7 }, alphabet, wall: wall_cap(tier, 50, 3000), c13: true };
    part.bounds = json!({"symbols": cfg.alphabet.len(), "depth": cfg.depth, "wall_cap_s": cfg.wall.as_secs()});
    part.rule = "explicit-state search over histories of initialize/launch/configurationDone/continue/restart interleaved with setBreakpoints (subsets of 2 lines x 6 (quick) / 9 option kinds: none, condition true / false / on the loop counter, hitCondition 2 / >= 2, logMessage, logMessage + hitCondition, logMessage + false condition), setFunctionBreakpoints and setInstructionBreakpoints, each set-request tried before launch, before configurationDone, while stopped and after restart; after every resume the stop reported on the wire and the pc read from /proc must be the next arrival of the reference trace at a location of the LATEST sets, filtered by condition / hitCondition / logMessage semantics evaluated on the reference execution".into();
    let bodies = match tier {
        Tier::Quick => vec![vec![Stmt::While(3), Stmt::CallF]],
        Tier::Thorough => vec![vec![Stmt::While(3), Stmt::CallF], vec![Stmt::CallG, Stmt::While(3)], vec![Stmt::Rec(3), Stmt::While(2)]],
    };
    let ps = match progs(bodies) {
        Ok(p) => p,
        Err(e) => {
            part.violate("C13:machinery:corpus", e, json!({}));
            part.exhaustive = false;
            return part;
        }
    };
    let deadline = Instant::now() + cfg.wall;
    let oracle = oracle_for("C13");
    for p in &ps {
        let cx = ctx_for(p);
        explore(&cx, &cfg, &mut part, deadline, &*oracle);
    }
    part.traces_validated = part.transitions;
    let _ = Duration::from_secs(0);
    part
}

/// Records of different kinds on ONE instruction: a source breakpoint on the first statement of a
/// function, a function breakpoint on that function and an instruction breakpoint on the same
/// address, set and cleared in every order.
pub fn part_c13_overlap(tier: Tier) -> Part {
    let mut part = Part::new("dap-breakpoint-replace-overlapping-records");
    let mut alphabet = vec![
        Sym::Initialize,
        Sym::Launch,
        Sym::ConfigurationDone,
        Sym::Continue,
        Sym::SetBps(vec![]),
        Sym::SetBps(vec![(0, BpOpt::Plain)]),
        Sym::SetFnBps(vec![]),
        Sym::SetFnBps(vec![0]),
        Sym::SetInsnBps(vec![]),
        Sym::SetInsnBps(vec![0]),
    ];
    if tier == Tier::Thorough {
        alphabet.push(Sym::SetBps(vec![(1, BpOpt::Plain)]));
    }
    let cfg = DapCfg { prop: "C13", depth: if tier == Tier::Quick { 6 } else { 8 }, alphabet, wall: wall_cap(tier, 45, 1500), c13: true };
    part.bounds = json!({"symbols": cfg.alphabet.len(), "depth": cfg.depth, "wall_cap_s": cfg.wall.as_secs()});
    part.rule = "explicit-state search over histories of initialize/launch/configurationDone/continue interleaved with set-requests of three kinds whose records share ONE instruction: setBreakpoints {none, the first statement of function ff; thorough: also a loop-body line}, setFunctionBreakpoints {none, ff} (its location is that same first statement), setInstructionBreakpoints {none, the address of that statement}; after every resume the stop must be the next arrival of the reference trace at a location of the union of the LATEST sets - clearing or replacing one kind's set must not take away the location another kind's latest set still names. The canonical state of this search also holds the order of the kinds' latest requests and whether each was empty, because which record owns the shared instruction depends on it. Six fixed witness histories (counterexamples of the thorough tier, beyond the quick depth: an earlier stop at the loop-body line, then one kind's set cleared while another kind still names the instruction) are replayed in both tiers".into();
    let ps = match progs(vec![vec![Stmt::While(2), Stmt::CallF]]) {
        Ok(p) => p,
        Err(e) => {
            part.violate("C13:machinery:corpus", e, json!({}));
            part.exhaustive = false;
            return part;
        }
    };
    let deadline = Instant::now() + cfg.wall;
    let oracle = oracle_for("C13");
    for p in &ps {
        let (Some(l0), Some(l1)) = (p.line_of("ff.1"), p.line_of("body1")) else {
            part.violate("C13:machinery:no-line", "ff.1 / body1".to_string(), json!({}));
            continue;
        };
        let a0: Vec<u64> = p.stmt_addrs(l0).into_iter().take(1).collect();
        if a0.is_empty() || !p.in_trace(a0[0]) {
            part.violate("C13:machinery:no-address", format!("line {l0}"), json!({}));
            continue;
        }
        let cx = DapCtx { p, lines: vec![l0, l1], fns: vec!["ff".into()], insns: a0.clone(), fn_fallback: a0.clone() };
        // the premise of the part, checked on the simplest history: the function breakpoint
        // alone stops on that instruction
        let probe = vec![Sym::Initialize, Sym::Launch, Sym::SetFnBps(vec![0]), Sym::ConfigurationDone];
        let d = crate::dapx::drive(&cx, &cfg, &probe, &*oracle);
        let pc = d.obs.last().and_then(|o| o["proc"]["pc"].as_u64());
        if pc != Some(a0[0]) {
            part.exhaustive = false;
            part.caps_hit.push(format!("premise not met: a function breakpoint on ff alone stops at {pc:x?}, the first statement is {:#x}; the part was skipped", a0[0]));
            continue;
        }
        part.extra.insert("context".into(), json!({"engine":"dap","prop":"C13","exe":cx.p.built.exe,"lines":cx.lines,"fns":cx.fns,"insns":cx.insns,"fn_fallback":cx.fn_fallback}));
        explore(&cx, &cfg, &mut part, deadline, &*oracle);
        // the counterexamples of the thorough tier (fix 42) lie beyond the quick tier's depth and
        // need the loop-body line as an earlier stop: replayed here as fixed witness histories
        let (l0, l1) = (Sym::SetBps(vec![(0, BpOpt::Plain)]), Sym::SetBps(vec![(1, BpOpt::Plain)]));
        let (le, fe, f0, ie, i0) = (Sym::SetBps(vec![]), Sym::SetFnBps(vec![]), Sym::SetFnBps(vec![0]), Sym::SetInsnBps(vec![]), Sym::SetInsnBps(vec![0]));
        let head = [Sym::Initialize, Sym::Launch];
        let witnesses: Vec<Vec<Sym>> = vec![
            vec![l1.clone(), i0.clone(), Sym::ConfigurationDone, l0.clone(), le.clone(), Sym::Continue],
            vec![i0.clone(), f0.clone(), l1.clone(), Sym::ConfigurationDone, ie.clone(), le.clone(), Sym::Continue],
            vec![f0.clone(), i0.clone(), l1.clone(), Sym::ConfigurationDone, fe.clone(), le.clone(), Sym::Continue],
            vec![l1.clone(), Sym::ConfigurationDone, i0.clone(), l0.clone(), ie.clone(), fe.clone(), Sym::Continue],
            vec![l1.clone(), Sym::ConfigurationDone, fe.clone(), l0.clone(), f0.clone(), fe.clone(), ie.clone(), Sym::Continue],
            vec![l1.clone(), Sym::ConfigurationDone, l0.clone(), f0.clone(), i0.clone(), le.clone(), fe.clone(), Sym::Continue],
        ];
        use rayon::prelude::*;
        let driven: Vec<(Vec<Sym>, crate::dapx::Driven)> = witnesses
            .par_iter()
            .map(|w| {
                let path: Vec<Sym> = head.iter().cloned().chain(w.iter().cloned()).collect();
                let d = crate::dapx::drive(&cx, &cfg, &path, &*oracle);
                (path, d)
            })
            .collect();
        for (path, d) in driven {
            part.transitions += path.len() as u64;
            part.evaluations += 1;
            let replay = json!({"engine":"dap","prop":"C13","exe":cx.p.built.exe,"lines":cx.lines,"fns":cx.fns,"insns":cx.insns,"fn_fallback":cx.fn_fallback,"path":path,"history":path.iter().map(|a| a.label()).collect::<Vec<_>>()});
            for f in d.findings {
                // as everywhere in this engine: reported only if a fresh connection shows it again
                let again = crate::dapx::drive(&cx, &cfg, &path, &*oracle);
                if again.findings.iter().any(|g| g.sig == f.sig) {
                    part.violate(f.sig, f.detail, replay.clone());
                }
            }
        }
        part.extra.insert("witness_histories".into(), json!(witnesses.len()));
    }
    part.traces_validated = part.transitions;
    part
}

// ------------------------------------------------------------------------------------------ C13 data breakpoints

/// setDataBreakpoints replaces: observed through the wire alone (the sandbox's kernel delivers
/// no data-breakpoint traps and the debug registers can only be read by the tracer thread):
/// the debugger refuses a fifth watchpoint and a second one on an address, so the `verified`
/// flags of a request tell whether the previous set was really removed.
pub fn part_c13_data(tier: Tier) -> Part {
    c13_data_impl(tier, None)
}

/// Replay of one sequence of the part (by its index in the tier's enumeration).
pub fn replay_c13_data(v: &Value) -> i32 {
    let tier = if v["tier"] == "thorough" { Tier::Thorough } else { Tier::Quick };
    let part = c13_data_impl(tier, Some(v["index"].as_u64().unwrap_or(0) as usize));
    for f in &part.violations {
        println!("violated {}: {}", f.sig, f.detail);
    }
    if part.violations.is_empty() { 0 } else { 1 }
}

fn c13_data_impl(tier: Tier, only: Option<usize>) -> Part {
    use crate::isession::ISession;
    use rayon::prelude::*;
    let mut part = Part::new("dap-data-breakpoints-replace");
    part.rule = "the program is stopped at a loop-body line through the real adapter; sequences of setDataBreakpoints requests over the lists {[], [A], [A,B,C,D], [B,C,D,E], [A,A], [A,B,C,D,E], [A readWrite, B read]} (A..E = five 8-byte words next to a static) are sent, one connection per sequence: every ordered pair of lists; pairs with `continue` to the next stop or `restart` in between and triples (quick: over the three lists that fill the registers or repeat an address; thorough: over all seven); because each request replaces the previous set, the verified flags of EVERY request must be those of an empty debugger: true for the first four distinct addresses of the list, false for a repeated address, for a fifth one and for the unsupported access type `read` - a refused address that the model says is free means the old set was not removed, an accepted one beyond four means slots leaked. Hardware delivery is not available here, so stops on access are not covered".into();
    let ps = match progs(vec![vec![Stmt::While(3), Stmt::CallF]]) {
        Ok(p) => p,
        Err(e) => {
            part.violate("C13:machinery:corpus", e, json!({}));
            part.exhaustive = false;
            return part;
        }
    };
    let p = &ps[0];
    let Some(line) = p.line_of("body1") else {
        part.violate("C13:machinery:no-line", "body1".to_string(), json!({}));
        return part;
    };
    let Some(acc) = crate::reftrace::elf_info(&p.built.exe).ok().and_then(|i| i.data_symbols.iter().find(|(n, _, _)| n.contains("ACC")).map(|x| x.1)) else {
        part.violate("C13:machinery:no-static", "ACC".to_string(), json!({}));
        return part;
    };
    // (the symbol addresses of elf_info are run-time addresses already)
    let mut base8 = acc & !7;
    if (base8 & 0xfff) + 48 >= 0x1000 {
        base8 -= 40;
    }
    let id = |k: usize| format!("0x{:x}:8", base8 + 8 * k as u64);
    // (address index, access type)
    let lists: Vec<Vec<(usize, &str)>> = vec![
        vec![],
        vec![(0, "write")],
        vec![(0, "write"), (1, "write"), (2, "write"), (3, "write")],
        vec![(1, "write"), (2, "write"), (3, "write"), (4, "write")],
        vec![(0, "write"), (0, "write")],
        vec![(0, "write"), (1, "write"), (2, "write"), (3, "write"), (4, "write")],
        vec![(0, "readWrite"), (1, "read")],
    ];
    #[derive(Clone, Debug)]
    enum Step {
        Set(usize),
        Continue,
        Restart,
    }
    let n = lists.len();
    let mut seqs: Vec<Vec<Step>> = vec![];
    // quick: every ordered pair of lists; continue / restart between, and triples, over the lists
    // that fill the registers or repeat an address. thorough: everything
    let core = [2usize, 3, 4];
    for a in 0..n {
        for b in 0..n {
            seqs.push(vec![Step::Set(a), Step::Set(b)]);
            if tier == Tier::Thorough || (core.contains(&a) && core.contains(&b)) {
                seqs.push(vec![Step::Set(a), Step::Continue, Step::Set(b)]);
                seqs.push(vec![Step::Set(a), Step::Restart, Step::Set(b)]);
            }
            for c in 0..n {
                if tier == Tier::Thorough || (core.contains(&a) && core.contains(&b) && core.contains(&c)) {
                    seqs.push(vec![Step::Set(a), Step::Set(b), Step::Set(c)]);
                }
            }
        }
    }
    if let Some(i) = only {
        seqs = seqs.into_iter().skip(i).take(1).collect();
    }
    part.bounds = json!({"lists": n, "sequences": seqs.len(), "requests_per_sequence": 3, "all_triples": tier == Tier::Thorough});
    let expected = |l: &Vec<(usize, &str)>| -> Vec<bool> {
        let mut inst: Vec<usize> = vec![];
        l.iter()
            .map(|(k, acc)| {
                if *acc == "read" || inst.contains(k) || inst.len() >= 4 {
                    false
                } else {
                    inst.push(*k);
                    true
                }
            })
            .collect()
    };
    let src = json!({"path": p.built.src_path, "name": p.built.program.src_file});
    let run_seq = |sq: &Vec<Step>| -> Result<Vec<(String, String)>, String> {
        let mut sess = ISession::start("dap", &json!({"exe": p.built.exe, "main_entry_sp": p.trace.main_entry_sp}))?;
        let mut seq = 0i64;
        let mut send = |sess: &mut ISession, command: &str, args: Value| -> Result<Value, String> {
            seq += 1;
            let o = sess.cmd(&json!({"seq": seq, "type": "request", "command": command, "arguments": args}), Duration::from_secs(60)).map_err(|e| format!("{command}: {e:?}"))?;
            let resp = o["wire"].as_array().and_then(|w| w.iter().find(|m| m["type"] == "response").cloned()).unwrap_or(Value::Null);
            Ok(json!({"resp": resp, "wire": o["wire"]}))
        };
        let stopped = |v: &Value| v["wire"].as_array().map(|w| w.iter().any(|m| m["event"] == "stopped")).unwrap_or(false);
        send(&mut sess, "initialize", json!({"adapterID":"bsmc"}))?;
        send(&mut sess, "launch", json!({"program": p.built.exe, "args": []}))?;
        send(&mut sess, "setBreakpoints", json!({"source": src, "breakpoints": [{"line": line}]}))?;
        let cd = send(&mut sess, "configurationDone", json!({}))?;
        if !stopped(&cd) {
            return Err("no stop after configurationDone".into());
        }
        let tid = cd["wire"].as_array().and_then(|w| w.iter().find(|m| m["event"] == "stopped").and_then(|m| m["body"]["threadId"].as_i64())).unwrap_or(1);
        let mut out = vec![];
        let mut hist = String::new();
        for st in sq {
            match st {
                Step::Set(k) => {
                    let l = &lists[*k];
                    hist.push_str(&format!("setDataBreakpoints{:?}; ", l));
                    let r = send(&mut sess, "setDataBreakpoints", json!({"breakpoints": l.iter().map(|(a, acc)| json!({"dataId": id(*a), "accessType": acc})).collect::<Vec<_>>()}))?;
                    if std::env::var("BSMC_DEBUG").is_ok() {
                        eprintln!("{hist} ids {:?} -> {}", l.iter().map(|(a, _)| id(*a)).collect::<Vec<_>>(), r["resp"]);
                    }
                    if r["resp"]["success"] != true {
                        out.push(("C13:data:request-failed".to_string(), format!("{hist}-> {}", r["resp"])));
                        continue;
                    }
                    let got: Vec<bool> = r["resp"]["body"]["breakpoints"].as_array().map(|a| a.iter().map(|b| b["verified"].as_bool().unwrap_or(false)).collect()).unwrap_or_default();
                    let want = expected(l);
                    if got.len() != want.len() {
                        out.push(("C13:data:breakpoint-count".to_string(), format!("{hist}-> {} entries answered for {} requested", got.len(), want.len())));
                    } else if got != want {
                        let refused_free = got.iter().zip(want.iter()).any(|(g, w)| !*g && *w);
                        let kind = if refused_free { "refused-although-the-latest-set-leaves-room:previous-set-not-removed" } else { "accepted-beyond-capacity-or-duplicate" };
                        let msgs: Vec<String> = r["resp"]["body"]["breakpoints"].as_array().map(|a| a.iter().filter_map(|b| b["message"].as_str().map(|s| s.to_string())).collect()).unwrap_or_default();
                        out.push((format!("C13:data:{kind}"), format!("{hist}-> verified {got:?}, a debugger holding only this request's set gives {want:?}; messages {msgs:?}")));
                    }
                }
                Step::Continue => {
                    hist.push_str("continue; ");
                    let r = send(&mut sess, "continue", json!({"threadId": tid}))?;
                    if !stopped(&r) {
                        out.push(("C13:data:machinery:no-second-stop".to_string(), format!("{hist}-> {}", r["wire"])));
                        break;
                    }
                }
                Step::Restart => {
                    hist.push_str("restart; ");
                    let r = send(&mut sess, "restart", json!({}))?;
                    if !stopped(&r) {
                        out.push(("C13:data:machinery:no-stop-after-restart".to_string(), format!("{hist}-> {}", r["wire"])));
                        break;
                    }
                }
            }
        }
        let _ = send(&mut sess, "disconnect", json!({"terminateDebuggee": true}));
        Ok(out)
    };
    let results: Vec<(usize, Result<Vec<(String, String)>, String>)> = seqs.par_iter().enumerate().map(|(i, sq)| (i, run_seq(sq))).collect();
    let mut outcomes: std::collections::BTreeSet<String> = Default::default();
    for (i, r) in results {
        let replay = json!({"engine":"c13-data","sequence":format!("{:?}", seqs[i]),"index":only.unwrap_or(i),"tier":tier.as_str()});
        part.states += 1;
        part.transitions += seqs[i].len() as u64;
        part.evaluations += seqs[i].iter().filter(|s| matches!(s, Step::Set(_))).count() as u64;
        match r {
            Ok(f) => {
                if f.is_empty() {
                    part.distinct_nontrivial += 1;
                }
                for (sig, detail) in f {
                    // confirm on a fresh connection before reporting
                    let again = run_seq(&seqs[i]).map(|f2| f2.iter().any(|(s2, _)| *s2 == sig)).unwrap_or(false);
                    outcomes.insert(sig.clone());
                    if again {
                        part.violate(sig, format!("[{}] {detail}", p.name()), replay.clone());
                    } else {
                        part.exhaustive = false;
                        part.caps_hit.push(format!("one observation of {sig} did not repeat on a fresh connection and is no verdict"));
                    }
                }
            }
            Err(e) => {
                // a session that could not be driven is no verdict about the property
                let again = run_seq(&seqs[i]);
                if again.is_err() {
                    part.violate("C13:data:session-broke", format!("[{}] {:?}: {e}", p.name(), seqs[i]), replay);
                } else {
                    part.caps_hit.push(format!("one session failed once ({e}) and ran on the second attempt"));
                }
            }
        }
    }
    part.distinct_outcomes = outcomes.len() as u64 + 1;
    part.traces_validated = part.states;
    part
}

// ------------------------------------------------------------------------------------------ C05 over DAP

/// Frame selection over DAP on a deep stack: every frame id of a 257-frame backtrace must select
/// its own activation (scopes -> variables show that activation's argument).
pub fn part_c05_dap_frames(tier: Tier) -> Part {
    use crate::isession::ISession;
    let mut part = Part::new("dap-frame-selection-deep-stack");
    let depth: u8 = 255;
    part.bounds = json!({"recursion_depth": depth, "frames": depth as u32 + 2, "frames_probed": if tier == Tier::Quick { 12 } else { 257 }});
    part.rule = "a program recursing 255 deep is stopped in the innermost activation through the real DAP adapter; stackTrace must list the 256 activations of rec and main with pairwise distinct frame ids, and scopes + variables for the probed frame ids must show exactly that activation's argument n (frame k holds n = k; the last frame is main and has no n). Distinct non-trivial = frames probed".into();
    let ps = match progs(vec![vec![Stmt::Rec(depth), Stmt::Assign]]) {
        Ok(p) => p,
        Err(e) => {
            part.violate("C05:machinery:corpus", e, json!({}));
            part.exhaustive = false;
            return part;
        }
    };
    let p = &ps[0];
    let Some(line) = p.line_of("rec.2") else {
        part.violate("C05:machinery:no-line", "rec.2".to_string(), json!({}));
        return part;
    };
    let replay = json!({"engine":"c05-dap"});
    let mut sess = match ISession::start("dap", &json!({"exe": p.built.exe, "main_entry_sp": p.trace.main_entry_sp})) {
        Ok(s) => s,
        Err(e) => {
            part.violate("C05:machinery:worker", e, replay);
            return part;
        }
    };
    let mut seq = 0i64;
    let mut send = |sess: &mut ISession, command: &str, args: Value| -> Result<Value, String> {
        seq += 1;
        let o = sess.cmd(&json!({"seq": seq, "type": "request", "command": command, "arguments": args}), Duration::from_secs(120)).map_err(|e| format!("{e:?}"))?;
        let resp = o["wire"].as_array().and_then(|w| w.iter().find(|m| m["type"] == "response").cloned()).unwrap_or(Value::Null);
        Ok(json!({"resp": resp, "wire": o["wire"]}))
    };
    let src = json!({"path": p.built.src_path, "name": p.built.program.src_file});
    let run = (|| -> Result<(), String> {
        send(&mut sess, "initialize", json!({"adapterID":"bsmc"}))?;
        send(&mut sess, "launch", json!({"program": p.built.exe, "args": []}))?;
        send(&mut sess, "setBreakpoints", json!({"source": src, "breakpoints": [{"line": line}]}))?;
        let cd = send(&mut sess, "configurationDone", json!({}))?;
        let tid = cd["wire"].as_array().and_then(|w| w.iter().find(|m| m["event"] == "stopped").and_then(|m| m["body"]["threadId"].as_i64())).ok_or("no stopped event")?;
        let st = send(&mut sess, "stackTrace", json!({"threadId": tid}))?;
        let frames = st["resp"]["body"]["stackFrames"].as_array().cloned().unwrap_or_default();
        part.states = frames.len() as u64;
        let names: Vec<String> = frames.iter().map(|f| f["name"].as_str().unwrap_or("?").to_string()).collect();
        let want_frames = depth as usize + 2;
        if frames.len() < want_frames || !names[..depth as usize + 1].iter().all(|n| n.ends_with("rec")) || !names[depth as usize + 1].ends_with("main") {
            part.violate("C05:dap:stackTrace-wrong-chain", format!("[{}] {} frames; first {:?} .. last {:?}", p.name(), frames.len(), names.first(), names.get(depth as usize + 1)), replay.clone());
        }
        let ids: Vec<i64> = frames.iter().filter_map(|f| f["id"].as_i64()).collect();
        let mut uniq = ids.clone();
        uniq.sort();
        uniq.dedup();
        if uniq.len() != ids.len() {
            part.violate("C05:dap:frame-ids-not-unique", format!("[{}] {} frames, {} distinct ids", p.name(), ids.len(), uniq.len()), replay.clone());
        }
        let probes: Vec<usize> = if tier == Tier::Quick { vec![0, 1, 2, 63, 64, 127, 128, 129, 254, 255, 256] } else { (0..want_frames).collect() };
        for k in probes {
            let Some(id) = ids.get(k) else { continue };
            part.evaluations += 1;
            part.distinct_nontrivial += 1;
            let sc = send(&mut sess, "scopes", json!({"frameId": id}))?;
            let scopes = sc["resp"]["body"]["scopes"].as_array().cloned().unwrap_or_default();
            let mut vars: Vec<(String, String)> = vec![];
            for s in &scopes {
                if let Some(r) = s["variablesReference"].as_i64() {
                    let vs = send(&mut sess, "variables", json!({"variablesReference": r}))?;
                    for v in vs["resp"]["body"]["variables"].as_array().cloned().unwrap_or_default() {
                        vars.push((v["name"].as_str().unwrap_or("?").to_string(), v["value"].as_str().unwrap_or("?").to_string()));
                    }
                }
            }
            let n = vars.iter().find(|(name, _)| name == "n").map(|(_, v)| v.clone());
            if k <= depth as usize {
                let want = k.to_string();
                if n.as_deref().map(|v| v.contains(&want) && v.trim_start_matches(|c: char| !c.is_ascii_digit()).split(|c: char| !c.is_ascii_digit()).next() == Some(want.as_str())) != Some(true) {
                    part.violate(format!("C05:dap:frame-selects-wrong-activation:{}", if k >= 256 { "index>=256" } else if k >= 128 { "index>=128" } else { "low-index" }), format!("[{}] frame #{k} (id {id}): n = {n:?}, this activation holds n = {k}; variables {:?}", p.name(), &vars[..vars.len().min(6)]), replay.clone());
                }
            } else if n.is_some() || !vars.iter().any(|(name, _)| name == "a") {
                part.violate("C05:dap:frame-selects-wrong-activation:index>=256", format!("[{}] frame #{k} (id {id}) is main: expected its local `a` and no `n`, got {:?}", p.name(), &vars[..vars.len().min(6)]), replay.clone());
            }
        }
        part.sample(json!({"program": p.name(), "frames": frames.len(), "first_ids": &ids[..ids.len().min(4)]}));
        Ok(())
    })();
    if let Err(e) = run {
        part.violate("C05:dap:session-failed", format!("[{}] {e}", p.name()), replay);
    }
    let _ = sess.end(Duration::from_secs(10));
    part.transitions = part.evaluations;
    part.traces_validated = 1;
    part
}
