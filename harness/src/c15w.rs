//! C15 worker sweep: memory and register access must be exact. Runs inside an e2e worker while
//! the debuggee is stopped; every answer of the debugger is compared with /proc/<pid>/mem or an
//! independent PTRACE_GETREGS.

use crate::e2w::Session;
use bugstalker::debugger::register::debug::{BreakCondition, BreakSize};
use nix::unistd::Pid;
use serde_json::{Value, json};
use std::os::unix::fs::FileExt;

fn proc_read(pid: i32, addr: u64, n: usize) -> Option<Vec<u8>> {
    let f = std::fs::File::open(format!("/proc/{pid}/mem")).ok()?;
    let mut buf = vec![0u8; n];
    f.read_exact_at(&mut buf, addr).ok()?;
    Some(buf)
}

pub fn sweep(s: &mut Session) -> Value {
    let _ = (BreakCondition::DataWrites, BreakSize::Bytes1);
    let pid = s.pid();
    let tid = s.dbg.as_ref().unwrap().ecx().pid_on_focus();
    let mut findings: Vec<Value> = vec![];
    let mut evals = 0u64;
    let mut nontrivial = 0u64;
    let mut samples = vec![];
    let regs0 = match nix::sys::ptrace::getregs(tid) {
        Ok(r) => r,
        Err(e) => return json!({"error": format!("getregs: {e}")}),
    };
    let sp = regs0.rsp;
    let base = (sp & !7) + 64;
    // ---- mapping edges from /proc/pid/maps
    let maps = std::fs::read_to_string(format!("/proc/{pid}/maps")).unwrap_or_default();
    let mut regions: Vec<(u64, u64, bool)> = vec![];
    for l in maps.lines() {
        let mut it = l.split_whitespace();
        let (Some(range), Some(perm)) = (it.next(), it.next()) else { continue };
        let Some((a, b)) = range.split_once('-') else { continue };
        let (a, b) = (u64::from_str_radix(a, 16).unwrap_or(0), u64::from_str_radix(b, 16).unwrap_or(0));
        regions.push((a, b, perm.starts_with('r')));
    }
    // ends of readable regions that are followed by a hole
    let mut edges = vec![];
    for (i, (_, end, r)) in regions.iter().enumerate() {
        if !*r || *end >= 0xffff_ffff_0000_0000 {
            continue;
        }
        let next_start = regions.get(i + 1).map(|x| x.0).unwrap_or(u64::MAX);
        let next_readable = regions.get(i + 1).map(|x| x.2).unwrap_or(false);
        if next_start > *end || !next_readable {
            edges.push(*end);
        }
    }
    edges.truncate(3);
    let dbg = s.dbg.as_ref().unwrap();
    // ---- 1. reads: every (offset, length) window around a word boundary and before each hole
    let mut windows: Vec<(u64, usize, &'static str)> = vec![];
    for a in base - 8..=base + 8 {
        for n in 0..=17usize {
            windows.push((a, n, "stack"));
        }
    }
    for e in &edges {
        for a in e - 16..*e {
            for n in 0..=(e - a) as usize {
                windows.push((a, n, "end-of-mapping"));
            }
        }
    }
    for (a, n, kind) in &windows {
        evals += 1;
        let want = proc_read(pid, *a, *n);
        let got = dbg.read_memory(*a as usize, *n);
        match (want, got) {
            (Some(w), Ok(g)) => {
                if *n > 0 {
                    nontrivial += 1;
                }
                if g != w {
                    findings.push(json!({"sig": format!("C15:read:wrong-bytes:{kind}"), "detail": format!("read_memory({a:#x}, {n}) = {g:x?}, the process holds {w:x?}")}));
                }
            }
            (Some(_), Err(e)) => {
                findings.push(json!({"sig": format!("C15:read:failed-on-mapped-range:{kind}:{}", if (*a + *n as u64) % 8 != 0 { "unaligned-end" } else { "aligned-end" }), "detail": format!("read_memory({a:#x}, {n}) failed ({e}) although [{a:#x}, {:#x}) is mapped and readable", a + *n as u64)}));
            }
            (None, Ok(g)) if *n > 0 => {
                findings.push(json!({"sig": format!("C15:read:returned-data-for-unmapped:{kind}"), "detail": format!("read_memory({a:#x}, {n}) = {g:x?} but the range is not readable")}));
            }
            _ => {}
        }
        if samples.len() < 3 && *n == 5 {
            samples.push(json!({"read": format!("{a:#x}+{n}"), "region": kind}));
        }
    }
    // ---- 2. word writes at every alignment: exactly [a, a+8) changes
    for a in base..base + 8 {
        for val in [0u64, u64::MAX, 0x0102030405060708] {
            evals += 1;
            nontrivial += 1;
            let before = proc_read(pid, a - 32, 72);
            let r = dbg.write_memory(a as usize, val as usize);
            let after = proc_read(pid, a - 32, 72);
            let (Some(before), Some(after)) = (before, after) else { continue };
            match r {
                Ok(()) => {
                    let mut expect = before.clone();
                    expect[32..40].copy_from_slice(&val.to_le_bytes());
                    if after != expect {
                        findings.push(json!({"sig": format!("C15:write:wrong-effect:{}", if a % 8 == 0 { "aligned" } else { "unaligned" }), "detail": format!("write_memory({a:#x}, {val:#x}): bytes [a-32, a+40) are {after:x?}, expected {expect:x?}")}));
                    }
                }
                Err(e) => {
                    if after != before {
                        findings.push(json!({"sig": "C15:write:failed-but-changed-memory", "detail": format!("write_memory({a:#x}) -> {e}, memory changed")}));
                    }
                }
            }
            // restore
            let orig = u64::from_le_bytes(before[32..40].try_into().unwrap());
            let _ = dbg.write_memory(a as usize, orig as usize);
        }
    }
    // ---- 3. registers: write then read back, and an independent GETREGS
    let names = ["rax", "rbx", "rcx", "rdx", "rsi", "rdi", "rbp", "r8", "r9", "r10", "r11", "r12", "r13", "r14", "r15"];
    let pick = |r: &libc::user_regs_struct, n: &str| -> u64 {
        match n {
            "rax" => r.rax, "rbx" => r.rbx, "rcx" => r.rcx, "rdx" => r.rdx, "rsi" => r.rsi, "rdi" => r.rdi, "rbp" => r.rbp,
            "r8" => r.r8, "r9" => r.r9, "r10" => r.r10, "r11" => r.r11, "r12" => r.r12, "r13" => r.r13, "r14" => r.r14, _ => r.r15,
        }
    };
    for n in names {
        for val in [0u64, 1, 0xDEADBEEFCAFEF00D, u64::MAX] {
            evals += 1;
            nontrivial += 1;
            match dbg.set_register_value(n, val) {
                Ok(()) => {
                    let back = dbg.get_register_value(n);
                    let real = nix::sys::ptrace::getregs(tid).map(|r| pick(&r, n)).ok();
                    if back.as_ref().ok() != Some(&val) || real != Some(val) {
                        findings.push(json!({"sig": "C15:register:write-not-visible", "detail": format!("set {n} = {val:#x}: read back {back:?}, PTRACE_GETREGS {real:x?}")}));
                    }
                    // all other registers untouched
                    if let Ok(r) = nix::sys::ptrace::getregs(tid) {
                        for m in names {
                            if m != n && pick(&r, m) != pick(&regs0, m) {
                                findings.push(json!({"sig": "C15:register:write-changed-another-register", "detail": format!("set {n}: {m} changed from {:#x} to {:#x}", pick(&regs0, m), pick(&r, m))}));
                            }
                        }
                        if r.rip != regs0.rip || r.rsp != regs0.rsp {
                            findings.push(json!({"sig": "C15:register:write-changed-pc-or-sp", "detail": format!("set {n}")}));
                        }
                    }
                }
                Err(e) => findings.push(json!({"sig": "C15:register:write-failed", "detail": format!("set {n} = {val:#x}: {e}")})),
            }
        }
        let _ = dbg.set_register_value(n, pick(&regs0, n));
    }
    let _ = nix::sys::ptrace::setregs(tid, regs0);
    // ---- 4. disassembly shows the file's instructions, never the debugger's patches
    let mut disasm_checked = 0;
    if let Ok(asm) = dbg.disasm() {
        let addrs: Vec<u64> = asm.instructions.iter().map(|i| u64::from(i.address)).collect();
        let orig: Vec<(Option<String>, Option<String>)> = asm.instructions.iter().map(|i| (i.mnemonic.clone(), i.operands.clone())).collect();
        let base_off = s.elf.base;
        drop(asm);
        // a breakpoint on every instruction boundary of the function (one at a time, plus all at once)
        let d = s.dbg.as_mut().unwrap();
        let mut set = vec![];
        for a in &addrs {
            if d.set_breakpoint_at_addr(bugstalker::debugger::address::RelocatedAddress::from(a + base_off)).is_ok() {
                set.push(*a);
            }
        }
        if let Ok(asm2) = d.disasm() {
            evals += asm2.instructions.len() as u64;
            for (k, i) in asm2.instructions.iter().enumerate() {
                disasm_checked += 1;
                if orig.get(k) != Some(&(i.mnemonic.clone(), i.operands.clone())) {
                    findings.push(json!({"sig": "C15:disasm:shows-patched-bytes", "detail": format!("with breakpoints on every instruction, instruction #{k} at {:#x} is shown as {:?} {:?}, the file has {:?}", u64::from(i.address), i.mnemonic, i.operands, orig.get(k))}));
                    break;
                }
            }
            if asm2.instructions.len() != orig.len() {
                findings.push(json!({"sig": "C15:disasm:instruction-count-changed", "detail": format!("{} instructions without breakpoints, {} with", orig.len(), asm2.instructions.len())}));
            }
        }
        for a in set {
            let _ = d.remove_breakpoint(bugstalker::debugger::address::Address::Relocated(bugstalker::debugger::address::RelocatedAddress::from(a + base_off)));
        }
    }
    let _ = Pid::from_raw(0);
    json!({"findings": findings, "evaluations": evals, "nontrivial": nontrivial, "windows": windows.len(), "edges": edges.iter().map(|e| format!("{e:#x}")).collect::<Vec<_>>(), "disasm_instructions_checked": disasm_checked, "samples": samples})
}
