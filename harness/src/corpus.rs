//! Debuggee corpus: generated `no_std` + libc Rust programs (fast sessions, tiny DWARF) built in
//! several configurations, cached under /verif/build/corpus.

use crate::common::*;
use serde::{Deserialize, Serialize};
use std::path::{Path, PathBuf};
use std::process::Command;

#[derive(Clone, Copy, Debug, PartialEq, Eq, Serialize, Deserialize)]
pub enum Stmt {
    Assign,
    If,
    While(u8),
    CallF,
    CallG,
    CallClosure,
    Rec(u8),
    /// raise a signal on itself (10 = SIGUSR1, 12 = SIGUSR2, 14 = SIGALRM)
    Raise(u8),
    /// block USR1+USR2, raise both, unblock (two signals pending at once)
    RaiseBurst,
    /// nanosleep for the given number of milliseconds (keeps a detached process observable)
    Sleep(u8),
    /// defines the call-injection targets c0..c6 (each logs its arguments) and calls each once
    CallTargets,
    /// a call of an `#[inline(always)]` function of this file that itself contains an inlined call
    /// followed by a statement of its own
    CallInl,
    /// recursion whose recursive call is the last thing its line does (`n + tail(n - 1)`): the
    /// first statement boundary reached in the caller after a return is the closing brace again
    TailRec(u8),
}

impl Stmt {
    pub fn tag(&self) -> String {
        match self {
            Stmt::Assign => "a".into(),
            Stmt::If => "i".into(),
            Stmt::While(k) => format!("w{k}"),
            Stmt::CallF => "f".into(),
            Stmt::CallG => "g".into(),
            Stmt::CallClosure => "c".into(),
            Stmt::Rec(n) => format!("r{n}"),
            Stmt::Raise(n) => format!("s{n}"),
            Stmt::RaiseBurst => "sb".into(),
            Stmt::Sleep(n) => format!("z{n}"),
            Stmt::CallTargets => "ct".into(),
            Stmt::CallInl => "n".into(),
            Stmt::TailRec(n) => format!("t{n}"),
        }
    }
}

#[derive(Clone, Debug, PartialEq, Eq, Serialize, Deserialize)]
pub struct Config {
    pub toolchain: String, // "1.89" | "stable"
    pub opt: u8,
    pub dwarf: u8,
    pub pie: bool,
}

impl Config {
    pub fn default_cfg() -> Config {
        Config { toolchain: "1.89".into(), opt: 0, dwarf: 4, pie: true }
    }
    pub fn tag(&self) -> String {
        format!(
            "{}-o{}-d{}-{}",
            self.toolchain.replace('.', ""),
            self.opt,
            self.dwarf,
            if self.pie { "pie" } else { "nopie" }
        )
    }
    pub fn matrix() -> Vec<Config> {
        let mut v = vec![];
        for tc in ["1.89", "stable"] {
            for opt in [0u8, 1] {
                for dwarf in [4u8, 5] {
                    for pie in [true, false] {
                        v.push(Config { toolchain: tc.into(), opt, dwarf, pie });
                    }
                }
            }
        }
        v
    }
}

#[derive(Clone, Debug, Serialize, Deserialize)]
pub struct Program {
    pub name: String,
    pub src_file: String,
    pub source: String,
    /// (line, label) for statement lines the oracles care about
    pub lines: Vec<(u32, String)>,
    pub functions: Vec<String>,
}

const PRELUDE: &str = r#"#![no_std]
#![no_main]
#![allow(unused)]
use core::panic::PanicInfo;
#[panic_handler]
fn panic(_: &PanicInfo) -> ! {
    loop {}
}
#[unsafe(no_mangle)]
pub extern "C" fn rust_eh_personality() {}
// libc-free: own entry point and raw syscalls (keeps debugger sessions at ~0.1 s: no libc DWARF)
core::arch::global_asm!(
    ".globl _start",
    "_start:",
    "xor ebp, ebp",
    "mov rdi, [rsp]",
    "lea rsi, [rsp + 8]",
    "and rsp, -16",
    "call main",
    "mov edi, eax",
    "mov eax, 231",
    "syscall",
);
#[inline(never)]
fn write(fd: i32, buf: *const u8, n: usize) -> isize {
    let r: isize;
    unsafe {
        core::arch::asm!("syscall", inlateout("rax") 1isize => r, in("rdi") fd as isize, in("rsi") buf, in("rdx") n, out("rcx") _, out("r11") _, options(nostack));
    }
    r
}
#[unsafe(no_mangle)]
pub unsafe extern "C" fn memset(d: *mut u8, c: i32, n: usize) -> *mut u8 {
    let mut i = 0;
    while i < n {
        unsafe { core::ptr::write_volatile(d.add(i), c as u8) };
        i += 1;
    }
    d
}
#[unsafe(no_mangle)]
pub unsafe extern "C" fn memcpy(d: *mut u8, s: *const u8, n: usize) -> *mut u8 {
    let mut i = 0;
    while i < n {
        unsafe { core::ptr::write_volatile(d.add(i), core::ptr::read_volatile(s.add(i))) };
        i += 1;
    }
    d
}
#[unsafe(no_mangle)]
pub unsafe extern "C" fn memmove(d: *mut u8, s: *const u8, n: usize) -> *mut u8 {
    if (d as usize) <= (s as usize) {
        return unsafe { memcpy(d, s, n) };
    }
    let mut i = n;
    while i > 0 {
        i -= 1;
        unsafe { core::ptr::write_volatile(d.add(i), core::ptr::read_volatile(s.add(i))) };
    }
    d
}
#[unsafe(no_mangle)]
pub unsafe extern "C" fn memcmp(a: *const u8, b: *const u8, n: usize) -> i32 {
    let mut i = 0;
    while i < n {
        let (x, y) = unsafe { (core::ptr::read_volatile(a.add(i)), core::ptr::read_volatile(b.add(i))) };
        if x != y {
            return x as i32 - y as i32;
        }
        i += 1;
    }
    0
}
pub static mut ACC: u64 = 7;
#[inline(never)]
fn emit(v: u64) {
    let mut buf = [0u8; 24];
    let mut i = 23usize;
    buf[i] = b'\n';
    let mut x = v;
    loop {
        i -= 1;
        buf[i] = b'0' + (x % 10) as u8;
        x /= 10;
        if x == 0 {
            break;
        }
    }
    write(1, unsafe { buf.as_ptr().add(i) }, 24 - i);
}
"#;

const SIGNAL_PRELUDE: &str = r#"core::arch::global_asm!(
    ".globl sig_restorer",
    "sig_restorer:",
    "mov eax, 15",
    "syscall",
);
unsafe extern "C" {
    fn sig_restorer();
}
#[inline(never)]
fn sys3(n: isize, a: isize, b: isize, c: isize, d: isize) -> isize {
    let r: isize;
    unsafe {
        core::arch::asm!("syscall", inlateout("rax") n => r, in("rdi") a, in("rsi") b, in("rdx") c, in("r10") d, out("rcx") _, out("r11") _, options(nostack));
    }
    r
}
pub static mut HITS: [u64; 32] = [0; 32];
extern "C" fn on_sig(s: i32) {
    unsafe {
        let p = (&raw mut HITS) as *mut u64;
        let slot = p.add((s & 31) as usize);
        core::ptr::write_volatile(slot, core::ptr::read_volatile(slot) + 1);
    }
}
#[repr(C)]
struct KSigaction {
    handler: usize,
    flags: u64,
    restorer: usize,
    mask: u64,
}
#[inline(never)]
fn install(sig: i32) {
    let sa = KSigaction { handler: on_sig as usize, flags: 0x04000000, restorer: sig_restorer as usize, mask: 0 };
    sys3(13, sig as isize, &sa as *const _ as isize, 0, 8);
}
#[inline(never)]
fn raise(sig: i32) {
    let pid = sys3(39, 0, 0, 0, 0);
    sys3(62, pid, sig as isize, 0, 0);
}
#[inline(never)]
fn sigmask(how: isize, set: u64) {
    let m = set;
    sys3(14, how, &m as *const _ as isize, 0, 8);
}
#[inline(never)]
fn hits() -> u64 {
    unsafe {
        let p = (&raw const HITS) as *const u64;
        core::ptr::read_volatile(p.add(2)) * 1000000 + core::ptr::read_volatile(p.add(10)) * 10000 + core::ptr::read_volatile(p.add(12)) * 100 + core::ptr::read_volatile(p.add(14))
    }
}
"#;

struct Src {
    text: String,
    line: u32,
    marks: Vec<(u32, String)>,
}

impl Src {
    fn new() -> Self {
        let mut s = Src { text: String::new(), line: 1, marks: vec![] };
        s.raw(PRELUDE);
        s
    }
    fn raw(&mut self, t: &str) {
        self.text.push_str(t);
        self.line += t.matches('\n').count() as u32;
    }
    fn l(&mut self, code: &str, mark: Option<&str>) {
        if let Some(m) = mark {
            self.marks.push((self.line, m.to_string()));
        }
        self.text.push_str(code);
        self.text.push('\n');
        self.line += 1;
    }
}

pub fn generate(name: &str, body: &[Stmt]) -> Program {
    let mut s = Src::new();
    let mut functions = vec!["main".to_string(), "emit".to_string()];
    let needs = |f: fn(&Stmt) -> bool| body.iter().any(f);
    let signals = needs(|s| matches!(s, Stmt::Raise(_) | Stmt::RaiseBurst));
    if signals {
        s.raw(SIGNAL_PRELUDE);
        functions.extend(["raise".to_string(), "on_sig".to_string()]);
    }
    if needs(|s| matches!(s, Stmt::CallF)) {
        s.l("#[inline(never)]", None);
        s.l("fn ff(x: u64) -> u64 {", None);
        s.l("    let y = x * 3;", Some("ff.1"));
        s.l("    let z = y + 1;", Some("ff.2"));
        s.l("    z", Some("ff.3"));
        s.l("}", None);
        functions.push("ff".into());
    }
    if needs(|s| matches!(s, Stmt::CallG)) {
        s.l("#[inline(never)]", None);
        s.l("fn gg<T: Copy + Into<u64>>(t: T) -> u64 {", None);
        s.l("    let v: u64 = t.into();", Some("gg.1"));
        s.l("    let w = v + 2;", Some("gg.2"));
        s.l("    w", Some("gg.3"));
        s.l("}", None);
        functions.push("gg".into());
    }
    if needs(|s| matches!(s, Stmt::Rec(_))) {
        s.l("#[inline(never)]", None);
        s.l("fn rec(n: u64) -> u64 {", None);
        s.l("    if n == 0 {", Some("rec.1"));
        s.l("        return 1;", Some("rec.2"));
        s.l("    }", None);
        s.l("    let r = rec(n - 1);", Some("rec.3"));
        s.l("    let q = r + n;", Some("rec.4"));
        s.l("    q", Some("rec.5"));
        s.l("}", None);
        functions.push("rec".into());
    }
    if needs(|s| matches!(s, Stmt::CallInl)) {
        s.l("#[inline(always)]", None);
        s.l("fn scale(x: u64) -> u64 {", None);
        s.l("    let s = x.wrapping_mul(5);", Some("scale.1"));
        s.l("    s.wrapping_add(2)", Some("scale.2"));
        s.l("}", None);
        s.l("#[inline(always)]", None);
        s.l("fn mix(p: u64) -> u64 {", None);
        s.l("    let m = p.wrapping_add(7);", Some("mix.1"));
        s.l("    let n = scale(m);", Some("mix.2"));
        s.l("    let o = n ^ 3;", Some("mix.3"));
        s.l("    o", Some("mix.4"));
        s.l("}", None);
    }
    if needs(|s| matches!(s, Stmt::TailRec(_))) {
        s.l("#[inline(never)]", None);
        s.l("fn tail(n: u64) -> u64 {", None);
        s.l("    if n == 0 {", Some("tail.1"));
        s.l("        return 3;", Some("tail.2"));
        s.l("    }", None);
        s.l("    n + tail(n - 1)", Some("tail.3"));
        s.l("}", Some("tail.4"));
        functions.push("tail".into());
    }
    let targets = needs(|s| matches!(s, Stmt::CallTargets));
    if targets {
        s.raw(r#"pub static mut LOGN: u64 = 0;
pub static mut LOGSUM: u64 = 0;
#[inline(never)]
fn log_call(id: u64, v: [i64; 6]) {
    unsafe {
        let n = core::ptr::read_volatile(&raw const LOGN);
        core::ptr::write_volatile(&raw mut LOGN, n + 1);
        let mut s = core::ptr::read_volatile(&raw const LOGSUM);
        s = s.wrapping_mul(31).wrapping_add(id.wrapping_mul(1000003));
        let mut i = 0;
        while i < 6 {
            s = s.wrapping_add((v[i] as u64).wrapping_mul(i as u64 + 7));
            i += 1;
        }
        core::ptr::write_volatile(&raw mut LOGSUM, s);
    }
}
#[inline(never)]
pub fn c0() {
    log_call(0, [0; 6]);
}
#[inline(never)]
pub fn c1(a: i64) {
    log_call(1, [a, 0, 0, 0, 0, 0]);
}
#[inline(never)]
pub fn c2(a: i64, b: bool) {
    log_call(2, [a, b as i64, 0, 0, 0, 0]);
}
#[inline(never)]
pub fn c3(a: u8, b: i64, c: u32) {
    log_call(3, [a as i64, b, c as i64, 0, 0, 0]);
}
#[inline(never)]
pub fn c6(a: i64, b: i64, c: i64, d: i64, e: i64, f: i64) {
    log_call(6, [a, b, c, d, e, f]);
}
#[inline(never)]
pub fn cp(p: *const u64, k: i64) {
    log_call(7, [unsafe { core::ptr::read_volatile(p) } as i64, k, 0, 0, 0, 0]);
}
#[inline(never)]
pub fn cq(k: i64, p: *const u64, q: *const u64) {
    log_call(8, [k, unsafe { core::ptr::read_volatile(p) } as i64, unsafe { core::ptr::read_volatile(q) } as i64, 0, 0, 0]);
}
"#);
        functions.extend(["c0", "c1", "c2", "c3", "c6", "cp", "cq"].iter().map(|x| x.to_string()));
    }
    s.l("#[unsafe(no_mangle)]", None);
    s.l("pub extern \"C\" fn main(_argc: i32, _argv: *const *const u8) -> i32 {", None);
    s.l("    let mut a: u64 = unsafe { core::ptr::read_volatile(&raw const ACC) };", Some("main.init"));
    if signals {
        s.l("    install(2);", None);
        s.l("    install(10);", Some("main.install"));
        s.l("    install(12);", None);
        s.l("    install(14);", None);
    }
    for (k, st) in body.iter().enumerate() {
        let m = |x: &str| format!("s{k}.{x}");
        match st {
            Stmt::Assign => {
                s.l("    a = a * 2 + 1;", Some(&m("assign")));
            }
            Stmt::If => {
                s.l("    if a % 2 == 1 {", Some(&m("if")));
                s.l("        a += 10;", Some(&m("then")));
                s.l("    } else {", None);
                s.l("        a += 20;", Some(&m("else")));
                s.l("    }", None);
            }
            Stmt::While(n) => {
                s.l("    let mut i = 0u64;", Some(&m("wi")));
                s.l(&format!("    while i < {n} {{"), Some(&m("while")));
                s.l("        a += i;", Some(&m("body1")));
                s.l("        i += 1;", Some(&m("body2")));
                s.l("    }", None);
            }
            Stmt::CallF => {
                s.l("    a = ff(a);", Some(&m("callf")));
            }
            Stmt::CallG => {
                s.l("    a += gg(a as u32);", Some(&m("callg32")));
                s.l("    a += gg(a as u8);", Some(&m("callg8")));
            }
            Stmt::CallClosure => {
                s.l("    let k = a + 1;", Some(&m("ck")));
                s.l("    let cl = |p: u64| -> u64 {", Some(&m("cldef")));
                s.l("        let t = p + k;", Some(&m("cl1")));
                s.l("        t * 2", Some(&m("cl2")));
                s.l("    };", None);
                s.l("    a = cl(a);", Some(&m("callc")));
            }
            Stmt::Rec(n) => {
                s.l(&format!("    a += rec({n});"), Some(&m("callrec")));
            }
            Stmt::TailRec(n) => {
                s.l(&format!("    a += tail({n});"), Some(&m("calltail")));
            }
            Stmt::CallInl => {
                s.l("    a = mix(a);", Some(&m("callinl")));
                s.l("    a = a.wrapping_add(scale(a));", Some(&m("callinl2")));
            }
            Stmt::Raise(sig) => {
                s.l("    a += 1;", Some(&m("pre")));
                s.l(&format!("    raise({sig});"), Some(&m("raise")));
                s.l("    a += 2;", Some(&m("post")));
            }
            Stmt::CallTargets => {
                s.l("    c0();", Some(&m("c0")));
                s.l("    c1(5);", None);
                s.l("    c2(-2, true);", None);
                s.l("    c3(200, 7, 9);", None);
                s.l("    c6(1, 2, 3, 4, 5, 6);", Some(&m("c6")));
                s.l("    cp(&raw const ACC, 3);", None);
                s.l("    cq(4, &raw const ACC, &raw const LOGN);", None);
            }
            Stmt::Sleep(ms) => {
                s.l("    a += 5;", Some(&m("presleep")));
                s.l(&format!("    let ts: [u64; 2] = [0, {} * 1_000_000];", ms), None);
                s.l("    unsafe { core::arch::asm!(\"syscall\", inlateout(\"rax\") 35isize => _, in(\"rdi\") ts.as_ptr(), in(\"rsi\") 0usize, out(\"rcx\") _, out(\"r11\") _, options(nostack)); }", Some(&m("sleep")));
                s.l("    a += 6;", Some(&m("postsleep")));
            }
            Stmt::RaiseBurst => {
                s.l("    sigmask(0, (1 << 9) | (1 << 11));", Some(&m("block")));
                s.l("    raise(12);", Some(&m("raise2")));
                s.l("    raise(10);", Some(&m("raise1")));
                s.l("    sigmask(1, (1 << 9) | (1 << 11));", Some(&m("unblock")));
                s.l("    a += 3;", Some(&m("post")));
            }
        }
    }
    if signals {
        s.l("    emit(hits());", Some("main.hits"));
    }
    if targets {
        s.l("    emit(unsafe { core::ptr::read_volatile(&raw const LOGN) });", Some("main.logn"));
        s.l("    emit(unsafe { core::ptr::read_volatile(&raw const LOGSUM) });", Some("main.logsum"));
    }
    s.l("    emit(a);", Some("main.emit"));
    s.l("    (a % 200) as i32", Some("main.ret"));
    s.l("}", None);
    Program {
        name: name.to_string(),
        src_file: format!("{name}.rs"),
        source: s.text,
        lines: s.marks,
        functions,
    }
}


const THREAD_PRELUDE: &str = r#"core::arch::global_asm!(
    ".globl spawn_raw",
    "spawn_raw:",
    "sub rdx, 16",
    "mov [rdx], rdi",
    "mov [rdx + 8], rsi",
    "mov r10, rcx",
    "mov rsi, rdx",
    "mov rdx, rcx",
    "mov edi, 0x350f00",
    "xor r8d, r8d",
    "mov eax, 56",
    "syscall",
    "test rax, rax",
    "jnz 2f",
    "xor ebp, ebp",
    "pop rax",
    "pop rdi",
    "call rax",
    "xor edi, edi",
    "mov eax, 60",
    "syscall",
    "2:",
    "ret",
);
unsafe extern "C" {
    fn spawn_raw(f: extern "C" fn(u64), arg: u64, stack_top: *mut u8, tid_slot: *mut u32) -> isize;
}
#[repr(align(16))]
pub struct Stack([u8; 32768]);
pub static mut STACKS: [Stack; 4] = [Stack([0; 32768]), Stack([0; 32768]), Stack([0; 32768]), Stack([0; 32768])];
pub static mut TIDS: [u32; 4] = [0; 4];
pub static COUNTER: core::sync::atomic::AtomicU64 = core::sync::atomic::AtomicU64::new(0);
pub static PASSES: [core::sync::atomic::AtomicU64; 4] = [const { core::sync::atomic::AtomicU64::new(0) }; 4];
#[inline(never)]
fn sys4(n: isize, a: isize, b: isize, c: isize, d: isize) -> isize {
    let r: isize;
    unsafe {
        core::arch::asm!("syscall", inlateout("rax") n => r, in("rdi") a, in("rsi") b, in("rdx") c, in("r10") d, out("rcx") _, out("r11") _, options(nostack));
    }
    r
}
#[inline(never)]
fn spawn(slot: usize, f: extern "C" fn(u64), arg: u64) {
    unsafe {
        let top = ((&raw mut STACKS) as *mut u8).add((slot + 1) * 32768);
        let tid = ((&raw mut TIDS) as *mut u32).add(slot);
        core::ptr::write_volatile(tid, 1);
        spawn_raw(f, arg, top, tid);
    }
}
#[inline(never)]
fn join(slot: usize) {
    unsafe {
        let tid = ((&raw mut TIDS) as *mut u32).add(slot);
        loop {
            let v = core::ptr::read_volatile(tid);
            if v == 0 {
                break;
            }
            sys4(202, tid as isize, 0, v as isize, 0);
        }
    }
}
"#;

#[derive(Clone, Debug)]
pub struct MtOpts {
    pub workers: usize,
    pub iters: u64,
    pub main_iters: u64,
    pub spin: u64,
    /// workers created only after main has slept `late_ms` (threads that appear after an attach)
    pub late_workers: usize,
    pub late_ms: u64,
    /// every worker iteration sleeps this long (0 = none): keeps the process alive for an attach
    pub worker_sleep_us: u64,
    /// the workers end in an endless loop that lives in an anonymous executable mapping (a pc
    /// that belongs to no file, like JIT code or the vDSO)
    pub anon_loop: bool,
}

/// A libc-free multi-threaded program (raw clone): `workers` threads each call `bump` `iters`
/// times while main calls `mwork` `main_iters` times, then joins and prints the counter.
pub fn generate_mt(workers: usize, iters: u64, main_iters: u64, spin: u64) -> Program {
    generate_mt_opts(&MtOpts { workers, iters, main_iters, spin, late_workers: 0, late_ms: 0, worker_sleep_us: 0, anon_loop: false })
}

pub fn generate_mt_opts(o: &MtOpts) -> Program {
    let (workers, iters, main_iters, spin) = (o.workers, o.iters, o.main_iters, o.spin);
    let mut s = Src::new();
    s.raw(SIGNAL_PRELUDE);
    s.raw(THREAD_PRELUDE);
    s.l("#[inline(never)]", None);
    s.l("fn sys6(n: isize, a: isize, b: isize, c: isize, d: isize, e: isize, f: isize) -> isize {", None);
    s.l("    let r: isize;", None);
    s.l("    unsafe {", None);
    s.l("        core::arch::asm!(\"syscall\", inlateout(\"rax\") n => r, in(\"rdi\") a, in(\"rsi\") b, in(\"rdx\") c, in(\"r10\") d, in(\"r8\") e, in(\"r9\") f, out(\"rcx\") _, out(\"r11\") _, options(nostack));", None);
    s.l("    }", None);
    s.l("    r", None);
    s.l("}", None);
    s.l("#[inline(never)]", None);
    s.l("fn nap(us: u64) {", None);
    s.l("    let ts = [us / 1000000, (us % 1000000) * 1000];", None);
    s.l("    sys4(35, &ts as *const _ as isize, 0, 0, 0);", None);
    s.l("}", None);
    s.l("#[inline(never)]", None);
    s.l("fn bump(w: u64, i: u64) -> u64 {", None);
    s.l("    let old = COUNTER.fetch_add(1, core::sync::atomic::Ordering::SeqCst);", Some("bump.1"));
    s.l("    PASSES[w as usize].fetch_add(1, core::sync::atomic::Ordering::SeqCst);", Some("bump.2"));
    s.l("    old + i", Some("bump.3"));
    s.l("}", None);
    s.l("#[inline(never)]", None);
    s.l("extern \"C\" fn worker(w: u64) {", None);
    s.l("    let mut i = 0u64;", Some("worker.1"));
    s.l(&format!("    while i < {iters} {{"), Some("worker.loop"));
    s.l("        bump(w, i);", Some("worker.call"));
    if o.worker_sleep_us > 0 {
        s.l(&format!("        nap({});", o.worker_sleep_us), Some("worker.nap"));
    }
    s.l("        i += 1;", Some("worker.inc"));
    s.l("    }", None);
    if o.anon_loop {
        s.l("    let page = sys6(9, 0, 4096, 7, 0x22, -1, 0) as *mut u8;", Some("worker.mmap"));
        s.l("    unsafe {", None);
        s.l("        core::ptr::write_volatile(page, 0xEB);", None);
        s.l("        core::ptr::write_volatile(page.add(1), 0xFE);", None);
        s.l("        let f: extern \"C\" fn() = core::mem::transmute(page);", None);
        s.l("        f();", Some("worker.anon"));
        s.l("    }", None);
    }
    s.l("}", Some("worker.end"));
    s.l("#[inline(never)]", None);
    s.l("fn mwork(x: u64) -> u64 {", None);
    s.l("    let y = x * 3;", Some("mwork.1"));
    s.l("    let mut j = 0u64;", Some("mwork.j"));
    s.l(&format!("    while j < {spin} {{"), Some("mwork.loop"));
    s.l("        j = core::hint::black_box(j) + 1;", Some("mwork.spin"));
    s.l("    }", None);
    s.l("    let z = y + 1;", Some("mwork.2"));
    s.l("    z", Some("mwork.3"));
    s.l("}", None);
    s.l("#[unsafe(no_mangle)]", None);
    s.l("pub extern \"C\" fn main(_argc: i32, _argv: *const *const u8) -> i32 {", None);
    s.l("    let mut a: u64 = unsafe { core::ptr::read_volatile(&raw const ACC) };", Some("main.init"));
    s.l("    install(10);", None);
    s.l("    install(12);", None);
    s.l("    install(14);", None);
    for w in 0..workers {
        s.l(&format!("    spawn({w}, worker, {w});"), Some(&format!("main.spawn{w}")));
    }
    s.l("    let mut k = 0u64;", Some("main.k"));
    s.l(&format!("    while k < {main_iters} {{"), Some("main.loop"));
    s.l("        a = mwork(a) % 1000;", Some("main.call"));
    s.l("        k += 1;", Some("main.inc"));
    s.l("    }", None);
    if o.late_workers > 0 {
        s.l(&format!("    nap({});", o.late_ms * 1000), Some("main.nap"));
        for w in workers..workers + o.late_workers {
            s.l(&format!("    spawn({w}, worker, {w});"), Some(&format!("main.spawn{w}")));
        }
    }
    if !o.anon_loop {
        for w in 0..workers + o.late_workers {
            s.l(&format!("    join({w});"), Some(&format!("main.join{w}")));
        }
    }
    s.l("    emit(COUNTER.load(core::sync::atomic::Ordering::SeqCst));", Some("main.emit"));
    s.l("    emit(hits());", Some("main.hits"));
    s.l("    (a % 200) as i32", Some("main.ret"));
    s.l("}", None);
    let mut name = format!("mt_w{workers}_i{iters}_m{main_iters}_s{spin}");
    if o.late_workers > 0 || o.worker_sleep_us > 0 {
        name = format!("{name}_l{}_{}_z{}", o.late_workers, o.late_ms, o.worker_sleep_us);
    }
    if o.anon_loop {
        name = format!("{name}_anon");
    }
    Program { name: name.clone(), src_file: format!("{name}.rs"), source: s.text, lines: s.marks, functions: vec!["main".into(), "emit".into(), "bump".into(), "worker".into(), "mwork".into(), "spawn".into(), "join".into()] }
}

/// A program with a caller-supplied function text and one statement in main that calls it.
pub fn generate_custom(name: &str, fn_text: &str, main_stmt: &str) -> Program {
    let mut s = Src::new();
    s.marks.push((s.line, "custom.start".to_string()));
    s.raw(fn_text);
    s.l("#[unsafe(no_mangle)]", None);
    s.l("pub extern \"C\" fn main(_argc: i32, _argv: *const *const u8) -> i32 {", None);
    s.l("    let mut a: u64 = unsafe { core::ptr::read_volatile(&raw const ACC) };", Some("main.init"));
    s.l(main_stmt, Some("main.custom"));
    s.l("    emit(a);", Some("main.emit"));
    s.l("    (a % 200) as i32", Some("main.ret"));
    s.l("}", None);
    Program { name: name.to_string(), src_file: format!("{name}.rs"), source: s.text, lines: s.marks, functions: vec!["main".into(), "emit".into()] }
}

pub fn name_of(body: &[Stmt]) -> String {
    format!("p_{}", body.iter().map(|s| s.tag()).collect::<Vec<_>>().join("_"))
}

/// The fixed quick slice: one loop, one recursion, one generic with two instantiations + closure,
/// two adjacent functions with a branch.
pub fn quick_bodies() -> Vec<Vec<Stmt>> {
    vec![
        vec![Stmt::While(3), Stmt::CallF],
        vec![Stmt::Rec(3), Stmt::Assign],
        vec![Stmt::CallG, Stmt::CallClosure],
        vec![Stmt::If, Stmt::CallF, Stmt::Rec(2)],
    ]
}

pub fn all_kinds() -> Vec<Stmt> {
    vec![
        Stmt::Assign,
        Stmt::If,
        Stmt::While(2),
        Stmt::CallF,
        Stmt::CallG,
        Stmt::CallClosure,
        Stmt::Rec(2),
    ]
}

/// Every body of 1..=max_len statements over the 7 kinds.
pub fn enumerate_bodies(max_len: usize) -> Vec<Vec<Stmt>> {
    let kinds = all_kinds();
    let mut out: Vec<Vec<Stmt>> = vec![];
    let mut level: Vec<Vec<Stmt>> = vec![vec![]];
    for _ in 0..max_len {
        let mut next = vec![];
        for b in &level {
            for k in &kinds {
                let mut nb = b.clone();
                nb.push(*k);
                next.push(nb);
            }
        }
        out.extend(next.iter().cloned());
        level = next;
    }
    out
}

#[derive(Clone, Debug, Serialize, Deserialize)]
pub struct Built {
    pub program: Program,
    pub config: Config,
    pub exe: String,
    pub src_path: String,
}

pub fn corpus_dir() -> PathBuf {
    let p = build_dir().join("corpus");
    let _ = std::fs::create_dir_all(&p);
    p
}

/// Build (or reuse) one program in one configuration.
pub fn build(program: &Program, cfg: &Config) -> Result<Built, String> {
    let dir = corpus_dir().join(format!("{}-{}", program.name, cfg.tag()));
    let exe = dir.join(&program.name);
    let src = dir.join(&program.src_file);
    let meta = dir.join("meta.json");
    if exe.exists() && meta.exists() {
        if let Ok(s) = std::fs::read_to_string(&src) {
            if s == program.source {
                return Ok(Built {
                    program: program.clone(),
                    config: cfg.clone(),
                    exe: exe.display().to_string(),
                    src_path: src.display().to_string(),
                });
            }
        }
    }
    std::fs::create_dir_all(&dir).map_err(|e| e.to_string())?;
    std::fs::write(&src, &program.source).map_err(|e| e.to_string())?;
    let mut cmd = Command::new("rustc");
    cmd.current_dir("/"); // no rust-toolchain.toml override
    cmd.arg(format!("+{}", cfg.toolchain));
    cmd.args(["--edition", "2024", "-g", "-C", "panic=abort"]);
    cmd.arg("-C").arg(format!("opt-level={}", cfg.opt));
    cmd.arg("-C").arg(format!("dwarf-version={}", cfg.dwarf));
    cmd.args(["-C", "codegen-units=1", "-C", "force-frame-pointers=no"]);
    if !cfg.pie {
        cmd.args(["-C", "relocation-model=static", "-C", "link-arg=-no-pie"]);
        // a classic executable without any shared library has no .dynamic section at all (it is
        // a static executable, which BugStalker does not support): keep libc as a dependency
        cmd.args(["-C", "link-arg=-Wl,--no-as-needed", "-C", "link-arg=-lc"]);
    }
    cmd.args([
        "-C",
        "link-arg=-nostartfiles",
        "-C",
        "link-arg=-nostdlib",
        "-C",
        "link-arg=-Wl,--dynamic-linker=/lib64/ld-linux-x86-64.so.2",
    ]);
    cmd.arg("-o").arg(&exe).arg(&src);
    let out = cmd.output().map_err(|e| e.to_string())?;
    if !out.status.success() {
        return Err(format!(
            "rustc failed for {} {}: {}",
            program.name,
            cfg.tag(),
            String::from_utf8_lossy(&out.stderr)
        ));
    }
    let b = Built {
        program: program.clone(),
        config: cfg.clone(),
        exe: exe.display().to_string(),
        src_path: src.display().to_string(),
    };
    std::fs::write(&meta, serde_json::to_string(&b).unwrap()).map_err(|e| e.to_string())?;
    Ok(b)
}

pub fn build_many(bodies: &[Vec<Stmt>], cfgs: &[Config]) -> Result<Vec<Built>, String> {
    use rayon::prelude::*;
    let jobs: Vec<(Program, Config)> = bodies
        .iter()
        .flat_map(|b| {
            let p = generate(&name_of(b), b);
            cfgs.iter().map(move |c| (p.clone(), c.clone())).collect::<Vec<_>>()
        })
        .collect();
    jobs.par_iter().map(|(p, c)| build(p, c)).collect()
}

pub fn exists(p: &str) -> bool {
    Path::new(p).exists()
}
