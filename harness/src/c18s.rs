//! C18 on shared libraries: a host program with one cdylib linked at startup (DT_NEEDED) and one
//! loaded with dlopen, closed and loaded again.  Breakpoints are requested at every timing (before
//! start, at a stop before the load, after the load); the stops must be exactly the calls the
//! program makes, in order, with the right arguments, at addresses that lie in the right mapping
//! at the right offset; the backtrace must lead through the library frames back to main;
//! `sharedlib info` must list exactly the mapped objects.

use crate::common::{Part, Tier};
use crate::mt::session;
use serde_json::{Value, json};
use std::time::Duration;

const DEP: &str = r#"#[inline(never)]
fn dep_inner(a: u64, b: u64) -> u64 {
    let r = a * b;
    r + 1
}
#[no_mangle]
pub extern "C" fn dep_mul(a: u64, b: u64) -> u64 {
    dep_inner(a, b)
}
#[inline(never)]
fn twin(a: u64, b: u64) -> u64 {
    let t = a + b;
    t + 11
}
#[no_mangle]
pub extern "C" fn dep_twin(a: u64, b: u64) -> u64 {
    twin(a, b)
}
"#;

const PLUG: &str = r#"#[inline(never)]
fn plug_inner(a: u64, b: u64) -> u64 {
    let s = a + b;
    s * 2
}
#[no_mangle]
pub extern "C" fn plug_add(a: u64, b: u64) -> u64 {
    plug_inner(a, b)
}
#[inline(never)]
fn twin(a: u64, b: u64) -> u64 {
    let t = a + b;
    t + 22
}
#[no_mangle]
pub extern "C" fn plug_twin(a: u64, b: u64) -> u64 {
    twin(a, b)
}
"#;

const PLUGB: &str = r#"#[inline(never)]
fn plugb_inner(a: u64, b: u64) -> u64 {
    let d = a * 100 + b;
    d + 7
}
#[no_mangle]
pub extern "C" fn plugb_add(a: u64, b: u64) -> u64 {
    plugb_inner(a, b)
}
"#;

const HOST: &str = r#"use std::ffi::{c_char, c_int, c_void, CString};
extern "C" {
    fn dep_mul(a: u64, b: u64) -> u64;
    fn dep_twin(a: u64, b: u64) -> u64;
    fn dlopen(filename: *const c_char, flag: c_int) -> *mut c_void;
    fn dlsym(handle: *mut c_void, symbol: *const c_char) -> *mut c_void;
    fn dlclose(handle: *mut c_void) -> c_int;
}
#[inline(never)]
fn open(path: &CString) -> *mut c_void {
    let h = unsafe { dlopen(path.as_ptr(), 2) };
    assert!(!h.is_null());
    h
}
#[inline(never)]
fn call(h: *mut c_void, sym: &str, a: u64, b: u64) -> u64 {
    unsafe {
        let name = CString::new(sym).unwrap();
        let f: extern "C" fn(u64, u64) -> u64 = std::mem::transmute(dlsym(h, name.as_ptr()));
        f(a, b)
    }
}
#[inline(never)]
fn before_load(x: u64) -> u64 {
    x + 1
}
#[inline(never)]
fn after_reload(x: u64) -> u64 {
    x + 2
}
#[inline(never)]
fn twin(a: u64, b: u64) -> u64 {
    let t = a + b;
    t + 33
}
fn main() {
    let dir = std::env::args().nth(1).unwrap();
    let path = CString::new(format!("{dir}/libplug.so")).unwrap();
    let pathb = CString::new(format!("{dir}/libplugb.so")).unwrap();
    let x = unsafe { dep_mul(6, 7) };
    let x = before_load(x);
    let h = open(&path);
    let y = call(h, "plug_add", 10, 20);
    unsafe { dlclose(h) };
    // another library takes the range the first one had, then the first one comes back elsewhere
    let hb = open(&pathb);
    let v = call(hb, "plugb_add", 3, 4);
    let h2 = open(&path);
    let x = after_reload(x);
    let z = call(h2, "plug_add", 1, 2);
    // the same function name in three objects
    let t3 = call(h2, "plug_twin", 3, 0);
    let t1 = twin(1, 0);
    let t2 = unsafe { dep_twin(2, 0) };
    unsafe { dlclose(h2) };
    unsafe { dlclose(hb) };
    let w = unsafe { dep_mul(2, 3) };
    println!("{x} {y} {v} {z} {w} {t1} {t2} {t3}");
}
"#;

pub fn build() -> Result<String, String> {
    let dir = crate::common::build_dir().join("shlib");
    std::fs::create_dir_all(&dir).map_err(|e| e.to_string())?;
    let d = dir.display().to_string();
    let mut fresh = true;
    for (name, text) in [("dep.rs", DEP), ("plug.rs", PLUG), ("plugb.rs", PLUGB), ("host.rs", HOST)] {
        let p = dir.join(name);
        if std::fs::read_to_string(&p).map(|t| t != text).unwrap_or(true) {
            std::fs::write(&p, text).map_err(|e| e.to_string())?;
            fresh = false;
        }
    }
    if fresh && dir.join("host").exists() && dir.join("libdep.so").exists() && dir.join("libplug.so").exists() && dir.join("libplugb.so").exists() {
        return Ok(d);
    }
    let rustc = |args: &[&str]| -> Result<(), String> {
        let out = std::process::Command::new("rustc").current_dir("/").arg("+1.89").args(["--edition", "2021", "-g", "-C", "opt-level=0"]).args(args).output().map_err(|e| e.to_string())?;
        if out.status.success() { Ok(()) } else { Err(String::from_utf8_lossy(&out.stderr).to_string()) }
    };
    rustc(&["--crate-type", "cdylib", "-o", &format!("{d}/libdep.so"), &format!("{d}/dep.rs")])?;
    rustc(&["--crate-type", "cdylib", "-o", &format!("{d}/libplug.so"), &format!("{d}/plug.rs")])?;
    rustc(&["--crate-type", "cdylib", "-o", &format!("{d}/libplugb.so"), &format!("{d}/plugb.rs")])?;
    rustc(&["-L", &d, "-l", "dylib=dep", "-C", &format!("link-arg=-Wl,-rpath,{d}"), "-o", &format!("{d}/host"), &format!("{d}/host.rs")])?;
    Ok(d)
}

fn sym_offset(lib: &str, name: &str) -> Option<u64> {
    // the file address (offset from the mapping base of a shared object / PIE executable)
    crate::reftrace::text_symbol(lib, |s| s.contains(name))
}

pub fn part_shlib(tier: Tier) -> Part {
    let mut part = Part::new("c18_shared_libraries");
    part.rule = "host program + cdylib linked at startup + cdylib loaded by dlopen, closed and loaded again (the program calls dep_inner(6,7), plug_inner(10,20), plugb_inner(3,4) of a second plugin that takes the freed range, plug_inner(1,2) of the first plugin loaded again at another address, dep_inner(2,3)); breakpoints on the two library functions requested before start / at a stop in main before the load / by file:line after the first load; every stop must be the next of those calls that has a breakpoint, with these arguments, the reported function and line, a pc inside the mapping of the right library at the function's ELF offset, a backtrace that leads through the library frames to host::main; `sharedlib info` = the objects of /proc/<pid>/maps at every stop; the program prints its native output".into();
    let dir = match build() {
        Ok(d) => d,
        Err(e) => {
            part.violate("MACHINERY:shlib-build", e, json!(null));
            return part;
        }
    };
    let host = format!("{dir}/host");
    let native = std::process::Command::new(&host).arg(&dir).output().map(|o| String::from_utf8_lossy(&o.stdout).to_string()).unwrap_or_default();
    let calls: [(&str, u64, u64); 5] = [("dep_inner", 6, 7), ("plug_inner", 10, 20), ("plugb_inner", 3, 4), ("plug_inner", 1, 2), ("dep_inner", 2, 3)];
    let after_reload_line = HOST.lines().position(|l| l.contains("let x = after_reload(x)")).map(|i| i as u64 + 1).unwrap_or(0);
    let before_load_line = HOST.lines().position(|l| l.contains("let x = before_load(x)")).map(|i| i as u64 + 1).unwrap_or(0);
    let bp_fn = |n: &str| json!({"op": "break_fn_deferred", "name": n});
    let bp_line_main = json!({"op": "break_line", "file": "host.rs", "line": before_load_line});
    // (name, commands before start, commands at the stop in main (if any), which functions have breakpoints from which call index on)
    struct H {
        name: &'static str,
        pre: Vec<Value>,
        at_main: Vec<Value>,
        // (function, first call index from which the breakpoint must be effective)
        active: Vec<(&'static str, usize)>,
    }
    let mut hs = vec![
        H { name: "both-before-start", pre: vec![bp_fn("dep_inner"), bp_fn("plug_inner")], at_main: vec![], active: vec![("dep_inner", 0), ("plug_inner", 0)] },
        H { name: "plugin-before-start", pre: vec![bp_fn("plug_inner")], at_main: vec![], active: vec![("plug_inner", 0)] },
        H { name: "dep-before-start", pre: vec![bp_fn("dep_inner")], at_main: vec![], active: vec![("dep_inner", 0)] },
        H { name: "both-at-stop-before-load", pre: vec![bp_line_main.clone()], at_main: vec![bp_fn("plug_inner"), bp_fn("dep_inner")], active: vec![("plug_inner", 1), ("dep_inner", 1)] },
        H { name: "plugin-by-line-before-start", pre: vec![json!({"op": "break_line_deferred", "file": "plug.rs", "line": 3})], at_main: vec![], active: vec![("plug_inner", 0)] },
    ];
    // breakpoints requested after the first library came back at another address
    hs.push(H { name: "plugin-after-reload", pre: vec![json!({"op": "break_line", "file": "host.rs", "line": after_reload_line})], at_main: vec![bp_fn("plug_inner"), bp_fn("dep_inner")], active: vec![("plug_inner", 3), ("dep_inner", 3)] });
    hs.push(H { name: "second-plugin-before-start", pre: vec![bp_fn("plugb_inner")], at_main: vec![], active: vec![("plugb_inner", 0)] });
    if tier == Tier::Thorough {
        hs.push(H { name: "dep-by-line-at-stop", pre: vec![bp_line_main.clone()], at_main: vec![json!({"op": "break_line_deferred", "file": "dep.rs", "line": 3})], active: vec![("dep_inner", 1)] });
        hs.push(H { name: "plugin-at-stop-before-load", pre: vec![bp_line_main.clone()], at_main: vec![bp_fn("plug_inner")], active: vec![("plug_inner", 1)] });
    }
    let script_of = |h: &H| -> Vec<Value> {
        let has_main_stop = !h.at_main.is_empty();
        let n_expected = calls.iter().enumerate().filter(|(i, c)| h.active.iter().any(|(f, from)| *f == c.0 && i >= from)).count();
        let mut script: Vec<Value> = h.pre.clone();
        script.push(json!({"op": "start", "bt": true}));
        if has_main_stop {
            script.extend(h.at_main.clone());
            script.push(json!({"op": "continue", "bt": true}));
        }
        // at every expected stop: args, libs; then continue
        for _ in 0..n_expected + 1 {
            script.push(json!({"op": "values", "names": [], "derefs": []}));
            script.push(json!({"op": "sharedlibs"}));
            script.push(json!({"op": "continue", "bt": true}));
        }
        script
    };
    // independent sessions: run side by side, judge afterwards
    let scripts: Vec<Vec<Value>> = hs.iter().map(script_of).collect();
    let mut runs: std::collections::VecDeque<crate::mt::Run> = {
        use rayon::prelude::*;
        let pool = rayon::ThreadPoolBuilder::new().num_threads(8).build().unwrap();
        pool.install(|| {
            scripts
                .par_iter()
                .map(|script| {
                    crate::mt::session_init(
                        json!({"exe": host, "args": [dir]}),
                        |obs| {
                            if obs.last().map(|o| o["res"]["kind"] == "exit" || o["res"]["ok"] == false).unwrap_or(false) {
                                return None;
                            }
                            script.get(obs.len()).cloned()
                        },
                        Duration::from_secs(60),
                        script.len(),
                    )
                })
                .collect::<Vec<_>>()
                .into()
        })
    };
    for (h, script) in hs.iter().zip(scripts.iter()) {
        let expected: Vec<(usize, &(&str, u64, u64))> = calls.iter().enumerate().filter(|(i, c)| h.active.iter().any(|(f, from)| *f == c.0 && i >= from)).collect();
        let run = runs.pop_front().unwrap();
        part.evaluations += 1;
        part.states += run.obs.len() as u64;
        part.transitions += run.obs.len() as u64;
        part.traces_validated += 1;
        let replay = json!({"engine": "mt", "exe": host, "init": {"args": [dir]}, "commands": script});
        if run.hang_at.is_some() || run.crashed.is_some() {
            part.violate("C18:shlib:session-broke", format!("[{}] hang {:?} crash {:?}", h.name, run.hang_at, run.crashed), replay);
            continue;
        }
        // the library stops, in order
        let stops: Vec<&Value> = run.obs.iter().filter(|o| matches!(o["cmd"]["op"].as_str(), Some("start") | Some("continue")) && o["res"]["kind"] == "breakpoint").filter(|o| o["events"].as_array().map(|e| e.iter().any(|e| e["ev"] == "breakpoint" && e["fn"].as_str().map(|f| f.ends_with("_inner")).unwrap_or(false))).unwrap_or(false)).collect();
        let got: Vec<String> = stops.iter().map(|o| o["events"].as_array().unwrap().iter().find(|e| e["ev"] == "breakpoint").and_then(|e| e["fn"].as_str()).unwrap_or("").to_string()).collect();
        let want: Vec<String> = expected.iter().map(|(_, c)| c.0.to_string()).collect();
        part.sample(json!({"history": h.name, "library_stops": got, "expected": want}));
        if got != want {
            // classify the two shapes seen
            let missing_second_plug = want.iter().filter(|w| *w == "plug_inner").count() == 2 && got.iter().filter(|g| *g == "plug_inner").count() == 1 && got.iter().filter(|g| *g == "dep_inner").count() == want.iter().filter(|w| *w == "dep_inner").count();
            let sig = if missing_second_plug { "C18:shlib:breakpoint-lost-after-dlclose-and-second-dlopen" } else { "C18:shlib:library-stops-differ" };
            part.violate(sig, format!("[{}] stops in library code {got:?}, the program's calls with a breakpoint {want:?}", h.name), replay.clone());
        }
        // per stop: arguments, address, backtrace, shared library list
        let mut k = 0usize;
        for (i, o) in run.obs.iter().enumerate() {
            if !stops.iter().any(|s| std::ptr::eq(*s, o)) {
                continue;
            }
            let f = got[k].clone();
            // which call is it? the k-th stop of this function among the expected ones (after a lost stop the args tell)
            k += 1;
            let vals = run.obs.get(i + 1);
            let args: Vec<(String, String)> = vals.and_then(|v| v["res"]["frames"][0]["args"]["Ok"].as_array().cloned()).unwrap_or_default().iter().map(|a| (a["name"].as_str().unwrap_or("").to_string(), a["v"]["v"].as_str().unwrap_or("").to_string())).collect();
            let matches_a_call = calls.iter().any(|c| c.0 == f && args == vec![("a".to_string(), c.1.to_string()), ("b".to_string(), c.2.to_string())]);
            if !matches_a_call {
                part.violate("C18:shlib:arguments-wrong-in-library-frame", format!("[{}] stop in {f}: arguments shown {args:?}", h.name), replay.clone());
            }
            let line = o["events"].as_array().unwrap().iter().find(|e| e["ev"] == "breakpoint").and_then(|e| e["line"].as_u64()).unwrap_or(0);
            if line != 3 {
                part.violate("C18:shlib:line-wrong-in-library", format!("[{}] stop in {f} reported at line {line}, the first statement is line 3", h.name), replay.clone());
            }
            // address inside the right mapping at the right offset
            let lib = if f == "dep_inner" { "libdep.so" } else if f == "plugb_inner" { "libplugb.so" } else { "libplug.so" };
            let pc = o["res"]["pc"].as_u64().unwrap_or(0);
            let libs = run.obs.get(i + 2).map(|l| l["res"].clone()).unwrap_or(json!({}));
            let map = libs["maps"].as_array().and_then(|m| m.iter().find(|m| m["path"].as_str().map(|p| p.ends_with(lib)).unwrap_or(false)).cloned());
            match (map, sym_offset(&format!("{dir}/{lib}"), &f)) {
                (Some(m), Some(off)) => {
                    let base = m["from"].as_u64().unwrap_or(0);
                    if pc < base + off || pc > base + off + 64 {
                        part.violate("C18:shlib:stop-address-not-at-the-function", format!("[{}] stop in {f} at {pc:#x}; {lib} is mapped at {base:#x}, the function lies at offset {off:#x}", h.name), replay.clone());
                    }
                }
                (None, _) => part.violate("C18:shlib:library-not-in-maps-at-its-stop", format!("[{}] {lib} is not mapped at the stop in {f}", h.name), replay.clone()),
                (_, None) => part.violate("MACHINERY:shlib-no-symbol", format!("[{}] no symbol for {f} in {lib}", h.name), replay.clone()),
            }
            // sharedlib info = mapped objects
            let listed: std::collections::BTreeSet<String> = libs["libs"].as_array().map(|l| l.iter().filter_map(|x| x["path"].as_str().map(|s| s.to_string())).collect()).unwrap_or_default();
            let mapped: std::collections::BTreeSet<String> = libs["maps"].as_array().map(|l| l.iter().filter_map(|x| x["path"].as_str().map(|s| s.to_string())).collect()).unwrap_or_default();
            let canon = |s: &std::collections::BTreeSet<String>| -> std::collections::BTreeSet<String> { s.iter().map(|p| std::fs::canonicalize(p).map(|c| c.display().to_string()).unwrap_or(p.clone())).collect() };
            if canon(&listed) != canon(&mapped) {
                part.violate("C18:shlib:sharedlib-list-differs-from-mappings", format!("[{}] at the stop in {f}: listed {listed:?}, mapped {mapped:?}", h.name), replay.clone());
            }
            for l in libs["libs"].as_array().cloned().unwrap_or_default() {
                let p = l["path"].as_str().unwrap_or("");
                if let (Some(r), Some(m)) = (l["range"].as_array(), libs["maps"].as_array().and_then(|m| m.iter().find(|m| canon(&[m["path"].as_str().unwrap_or("").to_string()].into_iter().collect()) == canon(&[p.to_string()].into_iter().collect())))) {
                    if r[0].as_u64() != m["from"].as_u64() {
                        part.violate("C18:shlib:sharedlib-range-differs-from-mapping", format!("[{}] {p}: listed from {:#x}, mapped from {:#x}", h.name, r[0].as_u64().unwrap_or(0), m["from"].as_u64().unwrap_or(0)), replay.clone());
                    }
                }
            }
            // backtrace through the library back to main
            let bt: Vec<String> = o["bt"].as_array().map(|b| b.iter().map(|f| f["fn"].as_str().unwrap_or("?").to_string()).collect()).unwrap_or_default();
            let want_chain: Vec<&str> = if f == "dep_inner" { vec!["dep_inner", "dep_mul", "main"] } else if f == "plugb_inner" { vec!["plugb_inner", "plugb_add", "call", "main"] } else { vec!["plug_inner", "plug_add", "call", "main"] };
            let mut pos = 0;
            for w in &want_chain {
                match bt[pos..].iter().position(|b| b.ends_with(w)) {
                    Some(p) => pos += p + 1,
                    None => {
                        part.violate("C18:shlib:backtrace-does-not-lead-through-the-library", format!("[{}] at the stop in {f}: backtrace {bt:?}, expected the chain {want_chain:?}", h.name), replay.clone());
                        break;
                    }
                }
            }
            part.distinct_nontrivial += 1;
        }
        let stdout = run.result.as_ref().and_then(|r| r["stdout"].as_str()).unwrap_or("").to_string();
        if !run.obs.iter().any(|o| o["res"]["kind"] == "exit") || stdout != native {
            part.violate("C18:shlib:program-did-not-finish-natively", format!("[{}] stdout {stdout:?}, native {native:?}", h.name), replay.clone());
        }
    }
    // a breakpoint requested BY ADDRESS before the library is loaded (the address the first load is
    // known to use: address-space randomisation is off under the debugger); the library comes back
    // at another address after the reload, so exactly the first call stops
    {
        let probe_cmds = vec![bp_fn("plug_inner"), json!({"op": "start", "bt": true})];
        let probe = crate::mt::session_init(json!({"exe": host, "args": [dir]}), |obs| probe_cmds.get(obs.len()).cloned(), Duration::from_secs(60), probe_cmds.len());
        let addr = probe.obs.get(1).filter(|o| o["res"]["kind"] == "breakpoint").and_then(|o| o["res"]["pc"].as_u64());
        match addr {
            None => part.violate("MACHINERY:shlib-no-probe-address", format!("{:?}", probe.obs.get(1).map(|o| o["res"].clone())), json!(null)),
            Some(addr) => {
                for variant in ["plugin-by-address-before-load", "plugin-by-address-deferred-before-start"] {
                // requested at a stop in main, before the plugin is loaded (the address belongs to no
                // object yet: the request is refused and deferred, as the console does); second
                // variant: deferred through the API before the program is started
                let script = if variant == "plugin-by-address-deferred-before-start" {
                    vec![
                        json!({"op": "defer_addr", "addr": addr}),
                        json!({"op": "start", "bt": true}),
                        json!({"op": "values", "names": [], "derefs": []}),
                        json!({"op": "continue", "bt": true}),
                        json!({"op": "continue", "bt": true}),
                    ]
                } else {
                vec![
                    bp_line_main.clone(),
                    json!({"op": "start", "bt": true}),
                    json!({"op": "remove_line", "file": "host.rs", "line": before_load_line}),
                    json!({"op": "break_addr_deferred", "addr": addr}),
                    json!({"op": "continue", "bt": true}),
                    json!({"op": "values", "names": [], "derefs": []}),
                    json!({"op": "continue", "bt": true}),
                    json!({"op": "continue", "bt": true}),
                ]
                };
                let run = crate::mt::session_init(
                    json!({"exe": host, "args": [dir]}),
                    |obs| {
                        if obs.last().map(|o| o["res"]["kind"] == "exit").unwrap_or(false) {
                            return None;
                        }
                        script.get(obs.len()).cloned()
                    },
                    Duration::from_secs(60),
                    script.len(),
                );
                let replay = json!({"engine": "mt", "exe": host, "init": {"args": [dir]}, "commands": script});
                part.evaluations += 1;
                part.traces_validated += 1;
                part.states += run.obs.len() as u64;
                let stops: Vec<(u64, Vec<(String, String)>)> = run
                    .obs
                    .iter()
                    .enumerate()
                    .filter(|(_, o)| matches!(o["cmd"]["op"].as_str(), Some("continue") | Some("start")) && o["res"]["kind"] == "breakpoint" && o["res"]["pc"].as_u64().map(|p| p > 0x7000_0000_0000).unwrap_or(false))
                    .map(|(i, o)| {
                        let args = run.obs.get(i + 1).and_then(|v| v["res"]["frames"][0]["args"]["Ok"].as_array().cloned()).unwrap_or_default().iter().map(|a| (a["name"].as_str().unwrap_or("").to_string(), a["v"]["v"].as_str().unwrap_or("").to_string())).collect();
                        (o["res"]["pc"].as_u64().unwrap_or(0), args)
                    })
                    .collect();
                part.sample(json!({"history": variant, "address": format!("{addr:#x}"), "deferred": run.obs.get(3).map(|o| o["res"]["deferred"].clone()), "stops": stops.iter().map(|s| format!("{:#x}", s.0)).collect::<Vec<_>>()}));
                if run.hang_at.is_some() || run.crashed.is_some() {
                    part.violate("C18:shlib:session-broke", format!("[{variant}] hang {:?} crash {:?}", run.hang_at, run.crashed), replay);
                } else if stops.len() != 1 || stops[0].0 != addr {
                    part.violate("C18:shlib:deferred-address-breakpoint-stops-differ", format!("[{variant}] breakpoint deferred at {addr:#x} (plug_inner in the first load of the plugin): stops at {:x?}, expected exactly one, at that address", stops.iter().map(|s| s.0).collect::<Vec<_>>()), replay);
                } else if stops[0].1 != vec![("a".to_string(), "10".to_string()), ("b".to_string(), "20".to_string())] && !stops[0].1.is_empty() {
                    part.violate("C18:shlib:arguments-wrong-in-library-frame", format!("[{variant}] arguments {:?}", stops[0].1), replay);
                } else {
                    part.distinct_nontrivial += 1;
                }
                }
            }
        }
    }
    part.bounds = json!({"histories": hs.len() + 2, "calls": 5, "libraries": ["startup dependency", "dlopen, dlclose, second plugin, dlopen again at another address"]});
    part
}

/// C17 across objects: the same function name defined in the executable, in a library linked at
/// startup and in a dlopen'ed plugin.  At a stop where all three are loaded a name template must
/// select exactly the instances whose path ends with it.
pub fn part_names_across_objects(_tier: Tier) -> Part {
    let mut part = Part::new("c17_shared_objects");
    part.rule = "host executable, a cdylib linked at startup and a dlopen'ed cdylib each define `twin` (paths host::twin, dep::twin, plug::twin), called in the order plug, host, dep after a stop in main at which all three objects are loaded; for each template in {twin, host::twin, dep::twin, plug::twin, ost::twin, p::twin, lug::twin, twi, twinn} (one session each) set_breakpoint_at_fn at that stop must return one location per selected instance, each inside the mapping of its object at the ELF offset of that function, a template that is no component suffix must select nothing, and continuing must stop at exactly the calls of the selected instances, in program order, with the arguments passed".into();
    let dir = match build() {
        Ok(d) => d,
        Err(e) => {
            part.violate("MACHINERY:shlib-build", e, json!(null));
            return part;
        }
    };
    let host = format!("{dir}/host");
    let after_reload_line = HOST.lines().position(|l| l.contains("let x = after_reload(x)")).map(|i| i as u64 + 1).unwrap_or(0);
    // (object, crate path, arguments) in call order
    let calls: [(&str, &str, u64); 3] = [("libplug.so", "plug::twin", 3), ("host", "host::twin", 1), ("libdep.so", "dep::twin", 2)];
    let templates: [(&str, &[&str]); 9] = [
        ("twin", &["plug::twin", "host::twin", "dep::twin"]),
        ("host::twin", &["host::twin"]),
        ("dep::twin", &["dep::twin"]),
        ("plug::twin", &["plug::twin"]),
        ("ost::twin", &[]),
        ("p::twin", &[]),
        ("lug::twin", &[]),
        ("twi", &[]),
        ("twinn", &[]),
    ];
    let script_for = |tpl: &str| -> Vec<Value> {
        vec![
            json!({"op": "break_line", "file": "host.rs", "line": after_reload_line}),
            json!({"op": "start"}),
            json!({"op": "sharedlibs"}),
            json!({"op": "break_fn", "name": tpl}),
            json!({"op": "continue"}),
            json!({"op": "values", "names": [], "derefs": []}),
            json!({"op": "continue"}),
            json!({"op": "values", "names": [], "derefs": []}),
            json!({"op": "continue"}),
            json!({"op": "values", "names": [], "derefs": []}),
            json!({"op": "continue"}),
        ]
    };
    let mut runs: std::collections::VecDeque<crate::mt::Run> = {
        use rayon::prelude::*;
        let pool = rayon::ThreadPoolBuilder::new().num_threads(8).build().unwrap();
        pool.install(|| {
            templates
                .par_iter()
                .map(|(tpl, _)| {
                    let script = script_for(tpl);
                    crate::mt::session_init(
                        json!({"exe": host, "args": [dir]}),
                        |obs| {
                            if obs.last().map(|o| o["res"]["kind"] == "exit").unwrap_or(false) {
                                return None;
                            }
                            script.get(obs.len()).cloned()
                        },
                        Duration::from_secs(60),
                        script.len(),
                    )
                })
                .collect::<Vec<_>>()
                .into()
        })
    };
    for (tpl, selected) in templates {
        let script = script_for(tpl);
        let run = runs.pop_front().unwrap();
        part.evaluations += 1;
        part.states += run.obs.len() as u64;
        part.transitions += run.obs.len() as u64;
        part.traces_validated += 1;
        let replay = json!({"engine": "mt", "exe": host, "init": {"args": [dir]}, "commands": script});
        if run.hang_at.is_some() || run.crashed.is_some() || run.obs.len() < 5 {
            part.violate("C17:objects:session-broke", format!("[{tpl}] hang {:?} crash {:?}", run.hang_at, run.crashed), replay);
            continue;
        }
        // locations returned for the template
        let maps = run.obs[2]["res"]["maps"].as_array().cloned().unwrap_or_default();
        let views: Vec<u64> = run.obs[3]["res"]["views"].as_array().map(|v| v.iter().filter_map(|x| x["addr"].as_u64()).collect()).unwrap_or_default();
        let mut want_addrs: Vec<(String, u64)> = vec![];
        for (obj, path, _) in calls.iter().filter(|c| selected.contains(&c.1)) {
            let file = format!("{dir}/{obj}");
            let base = maps.iter().find(|m| m["path"].as_str().map(|p| p.ends_with(obj)).unwrap_or(false)).and_then(|m| m["from"].as_u64());
            let off = crate::reftrace::text_symbol(&file, |s| s.contains("4twin"));
            match (base, off) {
                (Some(b), Some(o)) => want_addrs.push((path.to_string(), b + o)),
                _ => part.violate("MACHINERY:c17-objects-no-symbol", format!("[{tpl}] {obj}: base {base:?} offset {off:?}"), replay.clone()),
            }
        }
        for (path, a) in &want_addrs {
            if !views.iter().any(|v| *v >= *a && *v <= *a + 64) {
                part.violate("C17:objects:selected-instance-got-no-location", format!("[{tpl}] `{path}` lies at {a:#x}; locations returned {views:x?}"), replay.clone());
            }
        }
        if views.len() != want_addrs.len() {
            part.violate("C17:objects:number-of-locations-differs", format!("[{tpl}] {} locations {views:x?}, the template denotes {:?}", views.len(), selected), replay.clone());
        }
        // stops: exactly the calls of the selected instances, in order
        let want: Vec<(String, u64)> = calls.iter().filter(|c| selected.contains(&c.1)).map(|c| (c.1.to_string(), c.2)).collect();
        let mut got: Vec<(String, u64)> = vec![];
        for (i, o) in run.obs.iter().enumerate().skip(4) {
            if o["cmd"]["op"] == "continue" && o["res"]["kind"] == "breakpoint" {
                // the stop event names the function without its crate: the object is told by the pc
                let pc = o["res"]["pc"].as_u64().unwrap_or(0);
                let short = o["events"].as_array().and_then(|e| e.iter().find(|e| e["ev"] == "breakpoint")).and_then(|e| e["fn"].as_str()).unwrap_or("?").to_string();
                let obj = maps.iter().find(|m| m["from"].as_u64().unwrap_or(u64::MAX) <= pc && pc < m["to"].as_u64().unwrap_or(0)).and_then(|m| m["path"].as_str()).unwrap_or("?");
                let krate = if obj.ends_with("libplug.so") { "plug" } else if obj.ends_with("libdep.so") { "dep" } else if obj.ends_with("/host") { "host" } else { "?" };
                let f = format!("{krate}::{short}");
                let a = run.obs.get(i + 1).and_then(|v| v["res"]["frames"][0]["args"]["Ok"].as_array().cloned()).unwrap_or_default().iter().find(|a| a["name"] == "a").and_then(|a| a["v"]["v"].as_str().and_then(|s| s.parse::<u64>().ok())).unwrap_or(u64::MAX);
                got.push((f, a));
            }
        }
        part.sample(json!({"template": tpl, "locations": views.len(), "stops": got}));
        if got != want {
            part.violate("C17:objects:stops-differ-from-the-selected-instances", format!("[{tpl}] stops (function, first argument) {got:?}, the template denotes {want:?}"), replay.clone());
        }
        if !run.obs.iter().any(|o| o["res"]["kind"] == "exit") {
            part.violate("C17:objects:program-did-not-finish", format!("[{tpl}] {:?}", run.obs.last().map(|o| o["res"].clone())), replay.clone());
        }
        part.distinct_nontrivial += 1;
    }
    part.bounds = json!({"templates": templates.len(), "objects": 3});
    part
}
