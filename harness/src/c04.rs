//! C04 — address <-> source answers agree with the binary's DWARF, independently decoded.

use crate::common::*;
use crate::corpus::{self, Config};
use crate::e2x::*;
use rayon::prelude::*;
use serde_json::{Value, json};
use std::time::Duration;

fn job_for(p: &Prog) -> Value {
    let mut job = init_json(p, false);
    let mut fns = p.built.program.functions.clone();
    fns.extend(["memset".to_string(), "write".to_string(), "nosuchfn".to_string()]);
    job["commands"] = json!([
        {"op":"break_fn","name":"main"},
        {"op":"start"},
        {"op":"remove_fn","name":"main"},
        {"op":"c04_sweep","file":p.built.program.src_file,"fns":fns},
        {"op":"continue"}
    ]);
    job
}

pub fn part_sweep(tier: Tier) -> Part {
    let mut part = Part::new("dwarf-agreement-sweep");
    let (bodies, cfgs) = match tier {
        Tier::Quick => (corpus::quick_bodies(), vec![Config::default_cfg(), Config { toolchain: "stable".into(), opt: 1, dwarf: 5, pie: true }, Config { toolchain: "1.89".into(), opt: 0, dwarf: 5, pie: false }]),
        Tier::Thorough => (corpus::enumerate_bodies(2), Config::matrix()),
    };
    part.rule = "for every corpus binary, inside one debugger session: every instruction address (capstone over the ranges) of every user function -> resolve_function_at_pc function and (file, line) vs the reference reader's innermost function and row (last row <= pc within its sequence); every line 1..max+2 of the source file under two spellings of the path -> set_breakpoint_at_line addresses must be statement rows of that line (of the next line only when the line has none) and every function instance containing the line must get one; every function name (+ helpers + a missing one) -> set_breakpoint_at_fn addresses must lie inside live instances, one per instance, at the prologue_end row when there is one. Non-trivial = queries the debugger answered".into();
    let progs = match corpus::build_many(&bodies, &cfgs).and_then(prepare) {
        Ok(p) => p,
        Err(e) => {
            part.violate("C04:machinery:corpus", e, json!({}));
            part.exhaustive = false;
            return part;
        }
    };
    part.bounds = json!({"binaries": progs.len(), "configurations": cfgs.iter().map(|c| c.tag()).collect::<Vec<_>>()});
    let results: Vec<(&Prog, WorkerOutcome)> = progs.par_iter().map(|p| (p, run_worker("e2e", &job_for(p), Duration::from_secs(180)))).collect();
    for (p, out) in results {
        let replay = json!({"engine":"c04","exe":p.built.exe});
        match out {
            WorkerOutcome::Ok(v) => {
                let obs = v["obs"].as_array().cloned().unwrap_or_default();
                let Some(sw) = obs.get(3).map(|o| o["res"].clone()) else {
                    part.violate("C04:machinery:no-sweep", format!("[{}] {v}", p.name()), replay);
                    continue;
                };
                if let Some(e) = sw["error"].as_str() {
                    part.violate("C04:machinery:sweep-error", format!("[{}] {e}", p.name()), replay.clone());
                }
                part.evaluations += sw["evaluations"].as_u64().unwrap_or(0);
                part.distinct_nontrivial += sw["nontrivial"].as_u64().unwrap_or(0);
                part.states += 1;
                for f in sw["findings"].as_array().cloned().unwrap_or_default() {
                    part.violate(f["sig"].as_str().unwrap_or("C04:?"), format!("[{}] {}", p.name(), f["detail"].as_str().unwrap_or("")), replay.clone());
                }
                part.sample(json!({"binary": p.name(), "user_functions": sw["user_functions"], "lines": sw["max_line"], "examples": sw["samples"]}));
            }
            WorkerOutcome::Crashed { status, stderr, .. } => {
                let first = stderr.lines().find(|l| l.contains("panicked")).unwrap_or(stderr.lines().last().unwrap_or("")).to_string();
                part.violate("C04:debugger-crashed", format!("[{}] {status}: {first}", p.name()), replay);
            }
            WorkerOutcome::Timeout { .. } => part.violate("C04:debugger-hung", format!("[{}]", p.name()), replay),
        }
    }
    part.transitions = part.evaluations;
    part.traces_validated = part.states;
    part
}

/// The same sweep over a C program (gcc line tables: no prologue_end marks, `main` from crt).
pub fn part_c_binary(_tier: Tier) -> Part {
    let mut part = Part::new("dwarf-agreement-c-binary");
    part.rule = "the address / line / function sweep of the first part over a C program built by the system C compiler (position independent and fixed address): its line table has no prologue_end marks, so a function breakpoint has to be found without them and must still lie inside the function it names".into();
    let bins = match crate::c05c::build() {
        Ok(b) => b,
        Err(e) => {
            part.violate("C04:machinery:c-build", e, json!({}));
            return part;
        }
    };
    let mut targets: Vec<(String, String, &str, Vec<&str>)> = bins.iter().filter(|b| b.0.starts_with("eh-")).map(|b| (format!("c {}", b.0), b.1.clone(), "cframes.c", vec!["leaf", "middle", "outer", "main", "nosuchfn"])).collect();
    // one source file that contributes rows to two compilation units: a library crate whose
    // generic function (instantiated in the binary's unit) begins on the line after a plain one ends
    match build_two_units() {
        Ok(exe) => targets.push(("rust two-units".to_string(), exe, "geo.rs", vec!["area", "scale", "twice", "main", "nosuchfn"])),
        Err(e) => part.violate("C04:machinery:two-units-build", e, json!({})),
    }
    for (name, exe, file, fns) in &targets {
        let job = json!({"exe": exe, "args": [], "main_entry_sp": 0, "bt": false, "commands": [
            {"op":"break_fn","name":"main"},
            {"op":"start"},
            {"op":"remove_fn","name":"main"},
            {"op":"c04_sweep","file":file,"fns":fns},
            {"op":"continue"}
        ]});
        let replay = json!({"engine":"c04-job","job":job});
        match run_worker("e2e", &job, Duration::from_secs(120)) {
            WorkerOutcome::Ok(v) => {
                let obs = v["obs"].as_array().cloned().unwrap_or_default();
                let Some(sw) = obs.get(3).map(|o| o["res"].clone()) else {
                    part.violate("C04:machinery:no-sweep", format!("[{name}] {v}"), replay);
                    continue;
                };
                if let Some(e) = sw["error"].as_str() {
                    part.violate("C04:machinery:sweep-error", format!("[{name}] {e}"), replay.clone());
                }
                part.evaluations += sw["evaluations"].as_u64().unwrap_or(0);
                part.distinct_nontrivial += sw["nontrivial"].as_u64().unwrap_or(0);
                part.states += 1;
                for f in sw["findings"].as_array().cloned().unwrap_or_default() {
                    part.violate(f["sig"].as_str().unwrap_or("C04:?"), format!("[{name}] {}", f["detail"].as_str().unwrap_or("")), replay.clone());
                }
                part.sample(json!({"binary": name.clone(), "user_functions": sw["user_functions"], "lines": sw["max_line"]}));
                if obs.get(4).map(|o| o["res"]["kind"] != "exit").unwrap_or(true) {
                    part.violate("C04:c-binary:program-did-not-finish", format!("[{name}] {:?}", obs.get(4).map(|o| o["res"].clone())), replay.clone());
                }
            }
            WorkerOutcome::Crashed { status, stderr, .. } => {
                let first = stderr.lines().find(|l| l.contains("panicked")).unwrap_or(stderr.lines().last().unwrap_or("")).to_string();
                part.violate("C04:debugger-crashed", format!("[{name}] {status}: {first}"), replay);
            }
            WorkerOutcome::Timeout { .. } => part.violate("C04:debugger-hung", format!("[{name}]"), replay),
        }
    }
    part.transitions = part.evaluations;
    part.traces_validated = part.states;
    part.bounds = json!({"binaries": targets.len()});
    part
}

const GEO: &str = r#"pub fn area(w: u32, h: u32) -> u32 {
    let a = w * h;
    a + 1
}
pub fn scale<T: Into<u64>>(v: T, k: u64) -> u64 {
    let x: u64 = v.into();
    x * k
}
pub fn twice(v: u64) -> u64 {
    v * 2
}
"#;

const APP: &str = r#"extern crate geo;
fn main() {
    let a = geo::area(3, 4);
    let b = geo::scale(5u32, 2) + geo::scale(7u8, 3);
    let c = geo::twice(a as u64);
    println!("{a} {b} {c}");
}
"#;

fn build_two_units() -> Result<String, String> {
    let dir = build_dir().join("twounits");
    std::fs::create_dir_all(&dir).map_err(|e| e.to_string())?;
    let mut fresh = true;
    for (n, t) in [("geo.rs", GEO), ("app.rs", APP)] {
        let p = dir.join(n);
        if std::fs::read_to_string(&p).map(|x| x != t).unwrap_or(true) {
            std::fs::write(&p, t).map_err(|e| e.to_string())?;
            fresh = false;
        }
    }
    let exe = dir.join("app");
    if fresh && exe.exists() {
        return Ok(exe.display().to_string());
    }
    let d = dir.display().to_string();
    let run = |args: &[&str]| -> Result<(), String> {
        let o = std::process::Command::new("rustc").current_dir("/").arg("+1.89").args(["--edition", "2021", "-g", "-C", "opt-level=0"]).args(args).output().map_err(|e| e.to_string())?;
        if o.status.success() { Ok(()) } else { Err(String::from_utf8_lossy(&o.stderr).to_string()) }
    };
    run(&["--crate-type", "rlib", "--crate-name", "geo", "-o", &format!("{d}/libgeo.rlib"), &format!("{d}/geo.rs")])?;
    run(&["--extern", &format!("geo={d}/libgeo.rlib"), "-o", &format!("{d}/app"), &format!("{d}/app.rs")])?;
    Ok(exe.display().to_string())
}

pub fn replay(v: &Value) -> i32 {
    let p = match load_prog(v["exe"].as_str().unwrap_or("")) {
        Ok(p) => p,
        Err(e) => {
            eprintln!("{e}");
            return 2;
        }
    };
    match run_worker("e2e", &job_for(&p), Duration::from_secs(180)) {
        WorkerOutcome::Ok(r) => {
            let f = r["obs"][3]["res"]["findings"].as_array().cloned().unwrap_or_default();
            for x in &f {
                println!("violated {}: {}", x["sig"], x["detail"]);
            }
            if f.is_empty() { 0 } else { 1 }
        }
        o => {
            println!("{o:?}");
            1
        }
    }
}
