//! C04 — address <-> source answers agree with the binary's DWARF, independently decoded.

use crate::common::*;
use crate::corpus::{self, Config};
use crate::e2x::*;
use rayon::prelude::*;
use serde_json::{Value, json};
use std::time::Duration;

fn job_for(p: &Prog) -> Value {
    let mut job = init_json(p, false);
    let mut fns = p.built.program.functions.clone();
    fns.extend(["memset".to_string(), "write".to_string(), "nosuchfn".to_string()]);
    job["commands"] = json!([
        {"op":"break_fn","name":"main"},
        {"op":"start"},
        {"op":"remove_fn","name":"main"},
        {"op":"c04_sweep","file":p.built.program.src_file,"fns":fns},
        {"op":"continue"}
    ]);
    job
}

pub fn part_sweep(tier: Tier) -> Part {
    let mut part = Part::new("dwarf-agreement-sweep");
    let (bodies, cfgs) = match tier {
        Tier::Quick => (corpus::quick_bodies(), vec![Config::default_cfg(), Config { toolchain: "stable".into(), opt: 1, dwarf: 5, pie: true }, Config { toolchain: "1.89".into(), opt: 0, dwarf: 5, pie: false }]),
        Tier::Thorough => (corpus::enumerate_bodies(2), Config::matrix()),
    };
    part.rule = "for every corpus binary, inside one debugger session: every instruction address (capstone over the ranges) of every user function -> resolve_function_at_pc function and (file, line) vs the reference reader's innermost function and row (last row <= pc within its sequence); every line 1..max+2 of the source file under two spellings of the path -> set_breakpoint_at_line addresses must be statement rows of that line (of the next line only when the line has none) and every function instance containing the line must get one; every function name (+ helpers + a missing one) -> set_breakpoint_at_fn addresses must lie inside live instances, one per instance, at the prologue_end row when there is one. Non-trivial = queries the debugger answered".into();
    let progs = match corpus::build_many(&bodies, &cfgs).and_then(prepare) {
        Ok(p) => p,
        Err(e) => {
            part.violate("C04:machinery:corpus", e, json!({}));
            part.exhaustive = false;
            return part;
        }
    };
    part.bounds = json!({"binaries": progs.len(), "configurations": cfgs.iter().map(|c| c.tag()).collect::<Vec<_>>()});
    let results: Vec<(&Prog, WorkerOutcome)> = progs.par_iter().map(|p| (p, run_worker("e2e", &job_for(p), Duration::from_secs(180)))).collect();
    for (p, out) in results {
        let replay = json!({"engine":"c04","exe":p.built.exe});
        match out {
            WorkerOutcome::Ok(v) => {
                let obs = v["obs"].as_array().cloned().unwrap_or_default();
                let Some(sw) = obs.get(3).map(|o| o["res"].clone()) else {
                    part.violate("C04:machinery:no-sweep", format!("[{}] {v}", p.name()), replay);
                    continue;
                };
                if let Some(e) = sw["error"].as_str() {
                    part.violate("C04:machinery:sweep-error", format!("[{}] {e}", p.name()), replay.clone());
                }
                part.evaluations += sw["evaluations"].as_u64().unwrap_or(0);
                part.distinct_nontrivial += sw["nontrivial"].as_u64().unwrap_or(0);
                part.states += 1;
                for f in sw["findings"].as_array().cloned().unwrap_or_default() {
                    part.violate(f["sig"].as_str().unwrap_or("C04:?"), format!("[{}] {}", p.name(), f["detail"].as_str().unwrap_or("")), replay.clone());
                }
                part.sample(json!({"binary": p.name(), "user_functions": sw["user_functions"], "lines": sw["max_line"], "examples": sw["samples"]}));
            }
            WorkerOutcome::Crashed { status, stderr, .. } => {
                let first = stderr.lines().find(|l| l.contains("panicked")).unwrap_or(stderr.lines().last().unwrap_or("")).to_string();
                part.violate("C04:debugger-crashed", format!("[{}] {status}: {first}", p.name()), replay);
            }
            WorkerOutcome::Timeout { .. } => part.violate("C04:debugger-hung", format!("[{}]", p.name()), replay),
        }
    }
    part.transitions = part.evaluations;
    part.traces_validated = part.states;
    part
}

/// The same sweep over a C program (gcc line tables: no prologue_end marks, `main` from crt).
pub fn part_c_binary(_tier: Tier) -> Part {
    let mut part = Part::new("dwarf-agreement-c-binary");
    part.rule = "the address / line / function sweep of the first part over a C program built by the system C compiler (position independent and fixed address): its line table has no prologue_end marks, so a function breakpoint has to be found without them and must still lie inside the function it names; further targets: a Rust program of two crates sharing a source file, and a C program of three files whose compilation units touch (the first instruction of a unit is the end address of the unit before)".into();
    let bins = match crate::c05c::build() {
        Ok(b) => b,
        Err(e) => {
            part.violate("C04:machinery:c-build", e, json!({}));
            return part;
        }
    };
    let mut targets: Vec<(String, String, &str, Vec<&str>)> = bins.iter().filter(|b| b.0.starts_with("eh-")).map(|b| (format!("c {}", b.0), b.1.clone(), "cframes.c", vec!["leaf", "middle", "outer", "main", "nosuchfn"])).collect();
    // one source file that contributes rows to two compilation units: a library crate whose
    // generic function (instantiated in the binary's unit) begins on the line after a plain one ends
    match build_two_units() {
        Ok(exe) => targets.push(("rust two-units".to_string(), exe, "geo.rs", vec!["area", "scale", "twice", "main", "nosuchfn"])),
        Err(e) => part.violate("C04:machinery:two-units-build", e, json!({})),
    }
    // compilation units that touch: a C program of three files built without optimization has no
    // padding between the objects, so the first instruction of a unit's first function is the
    // end address of the unit before it
    match build_c_adjacent() {
        Ok(v) => {
            for (tag, exe) in v {
                targets.push((format!("c adjacent-units {tag} (ub.c)"), exe.clone(), "ub.c", vec!["ua_leaf", "ua_last", "ub_first", "ub_second", "main", "nosuchfn"]));
                targets.push((format!("c adjacent-units {tag} (um.c)"), exe, "um.c", vec!["ua_last", "ub_first", "ub_second", "main"]));
            }
        }
        Err(e) => part.violate("C04:machinery:c-adjacent-build", e, json!({})),
    }
    for (name, exe, file, fns) in &targets {
        let job = json!({"exe": exe, "args": [], "main_entry_sp": 0, "bt": false, "commands": [
            {"op":"break_fn","name":"main"},
            {"op":"start"},
            {"op":"remove_fn","name":"main"},
            {"op":"c04_sweep","file":file,"fns":fns},
            {"op":"continue"}
        ]});
        let replay = json!({"engine":"c04-job","job":job});
        match run_worker("e2e", &job, Duration::from_secs(120)) {
            WorkerOutcome::Ok(v) => {
                let obs = v["obs"].as_array().cloned().unwrap_or_default();
                let Some(sw) = obs.get(3).map(|o| o["res"].clone()) else {
                    part.violate("C04:machinery:no-sweep", format!("[{name}] {v}"), replay);
                    continue;
                };
                if let Some(e) = sw["error"].as_str() {
                    part.violate("C04:machinery:sweep-error", format!("[{name}] {e}"), replay.clone());
                }
                part.evaluations += sw["evaluations"].as_u64().unwrap_or(0);
                part.distinct_nontrivial += sw["nontrivial"].as_u64().unwrap_or(0);
                part.states += 1;
                for f in sw["findings"].as_array().cloned().unwrap_or_default() {
                    part.violate(f["sig"].as_str().unwrap_or("C04:?"), format!("[{name}] {}", f["detail"].as_str().unwrap_or("")), replay.clone());
                }
                part.sample(json!({"binary": name.clone(), "user_functions": sw["user_functions"], "lines": sw["max_line"]}));
                if obs.get(4).map(|o| o["res"]["kind"] != "exit").unwrap_or(true) {
                    part.violate("C04:c-binary:program-did-not-finish", format!("[{name}] {:?}", obs.get(4).map(|o| o["res"].clone())), replay.clone());
                }
            }
            WorkerOutcome::Crashed { status, stderr, .. } => {
                let first = stderr.lines().find(|l| l.contains("panicked")).unwrap_or(stderr.lines().last().unwrap_or("")).to_string();
                part.violate("C04:debugger-crashed", format!("[{name}] {status}: {first}"), replay);
            }
            WorkerOutcome::Timeout { .. } => part.violate("C04:debugger-hung", format!("[{name}]"), replay),
        }
    }
    part.transitions = part.evaluations;
    part.traces_validated = part.states;
    part.bounds = json!({"binaries": targets.len()});
    part
}

const GEO: &str = r#"pub fn area(w: u32, h: u32) -> u32 {
    let a = w * h;
    a + 1
}
pub fn scale<T: Into<u64>>(v: T, k: u64) -> u64 {
    let x: u64 = v.into();
    x * k
}
pub fn twice(v: u64) -> u64 {
    v * 2
}
"#;

const APP: &str = r#"extern crate geo;
fn main() {
    let a = geo::area(3, 4);
    let b = geo::scale(5u32, 2) + geo::scale(7u8, 3);
    let c = geo::twice(a as u64);
    println!("{a} {b} {c}");
}
"#;

const UA: &str = "int ua_leaf(int x) {\n    int y = x * 3;\n    return y + 1;\n}\nint ua_last(int x) {\n    int y = ua_leaf(x) + 2;\n    return y;\n}\n";
const UB: &str = "int ub_first(int x) {\n    int y = x - 4;\n    return y * 2;\n}\nint ub_second(int x) {\n    int y = ub_first(x) + 5;\n    return y;\n}\n";
const UM: &str = "#include <stdio.h>\nint ua_last(int);\nint ub_second(int);\nint ub_first(int);\nint main(void) {\n    int a = ua_last(3);\n    int b = ub_first(a);\n    int c = ub_second(b);\n    printf(\"%d %d %d\\n\", a, b, c);\n    return 0;\n}\n";

/// Three C files, one compilation unit each, linked back to back (position independent and
/// fixed address); fails if the units do not touch (the premise of the target).
fn build_c_adjacent() -> Result<Vec<(String, String)>, String> {
    let dir = build_dir().join("cadjacent");
    std::fs::create_dir_all(&dir).map_err(|e| e.to_string())?;
    for (n, t) in [("ua.c", UA), ("ub.c", UB), ("um.c", UM)] {
        let p = dir.join(n);
        if std::fs::read_to_string(&p).map(|x| x != t).unwrap_or(true) {
            std::fs::write(&p, t).map_err(|e| e.to_string())?;
        }
    }
    let mut out = vec![];
    for (tag, flags) in [("pie", vec!["-fPIE", "-pie"]), ("nopie", vec!["-fno-pie", "-no-pie"])] {
        let exe = dir.join(format!("adj-{tag}"));
        if !exe.exists() {
            let o = std::process::Command::new("cc").current_dir(&dir).args(["-g", "-O0"]).args(&flags).arg("-o").arg(&exe).args(["ua.c", "ub.c", "um.c"]).output().map_err(|e| e.to_string())?;
            if !o.status.success() {
                return Err(String::from_utf8_lossy(&o.stderr).to_string());
            }
        }
        let e = exe.display().to_string();
        let sym = |n: &str| crate::reftrace::text_symbol(&e, |s| s == n);
        let info = crate::reftrace::elf_info(&e)?;
        let end_of = |n: &str| info.symbols.iter().find(|(s, _, _)| s == n).map(|(_, a, sz)| a + sz);
        let start_of = |n: &str| info.symbols.iter().find(|(s, _, _)| s == n).map(|(_, a, _)| *a);
        let _ = sym;
        if end_of("ua_last") != start_of("ub_first") || end_of("ub_second") != start_of("main") {
            return Err(format!("[{tag}] the compilation units do not touch: ua_last ends at {:x?}, ub_first starts at {:x?}", end_of("ua_last"), start_of("ub_first")));
        }
        out.push((tag.to_string(), e));
    }
    Ok(out)
}

fn build_two_units() -> Result<String, String> {
    let dir = build_dir().join("twounits");
    std::fs::create_dir_all(&dir).map_err(|e| e.to_string())?;
    let mut fresh = true;
    for (n, t) in [("geo.rs", GEO), ("app.rs", APP)] {
        let p = dir.join(n);
        if std::fs::read_to_string(&p).map(|x| x != t).unwrap_or(true) {
            std::fs::write(&p, t).map_err(|e| e.to_string())?;
            fresh = false;
        }
    }
    let exe = dir.join("app");
    if fresh && exe.exists() {
        return Ok(exe.display().to_string());
    }
    let d = dir.display().to_string();
    let run = |args: &[&str]| -> Result<(), String> {
        let o = std::process::Command::new("rustc").current_dir("/").arg("+1.89").args(["--edition", "2021", "-g", "-C", "opt-level=0"]).args(args).output().map_err(|e| e.to_string())?;
        if o.status.success() { Ok(()) } else { Err(String::from_utf8_lossy(&o.stderr).to_string()) }
    };
    run(&["--crate-type", "rlib", "--crate-name", "geo", "-o", &format!("{d}/libgeo.rlib"), &format!("{d}/geo.rs")])?;
    run(&["--extern", &format!("geo={d}/libgeo.rlib"), "-o", &format!("{d}/app"), &format!("{d}/app.rs")])?;
    Ok(exe.display().to_string())
}

pub fn replay(v: &Value) -> i32 {
    let p = match load_prog(v["exe"].as_str().unwrap_or("")) {
        Ok(p) => p,
        Err(e) => {
            eprintln!("{e}");
            return 2;
        }
    };
    match run_worker("e2e", &job_for(&p), Duration::from_secs(180)) {
        WorkerOutcome::Ok(r) => {
            let f = r["obs"][3]["res"]["findings"].as_array().cloned().unwrap_or_default();
            for x in &f {
                println!("violated {}: {}", x["sig"], x["detail"]);
            }
            if f.is_empty() { 0 } else { 1 }
        }
        o => {
            println!("{o:?}");
            1
        }
    }
}
