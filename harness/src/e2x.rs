//! E2 explorer: explicit-state exploration of debugger command histories on the real kernel.
//! A state is the history that reaches it (one worker session per history); canonical keys
//! deduplicate; every (state, action) pair is executed by the real `Debugger`.

use crate::common::*;
use crate::corpus::{self, Built};
use crate::dwarfref::{self, DwarfRef};
use crate::reftrace::{self, RefTrace};
use rayon::prelude::*;
use serde_json::{Value, json};
use crate::isession::{ISession, SessErr};
use std::collections::{BTreeMap, BTreeSet, HashMap, HashSet, VecDeque};
use std::sync::{Condvar, Mutex};
use std::time::{Duration, Instant};

pub struct Prog {
    /// (address, size, read-write) watchpoint candidates on the program's globals
    pub watch_cands: Vec<(u64, u8, bool)>,
    pub built: Built,
    pub trace: RefTrace,
    pub dref: DwarfRef,
    pub base: u64,
    pub entry: u64,
}

impl Prog {
    pub fn line_of(&self, mark: &str) -> Option<u32> {
        self.built.program.lines.iter().find(|(_, m)| m.ends_with(mark)).map(|(l, _)| *l)
    }
    /// relocated statement addresses of a source line
    pub fn stmt_addrs(&self, line: u32) -> Vec<u64> {
        self.dref
            .stmt_addrs_of_line(&self.built.program.src_file, line as u64)
            .into_iter()
            .map(|a| a + self.base)
            .collect()
    }
    pub fn name(&self) -> String {
        format!("{}-{}", self.built.program.name, self.built.config.tag())
    }
    pub fn line_at(&self, pc: u64) -> Option<u64> {
        self.dref.row_for(pc.wrapping_sub(self.base)).map(|r| r.line)
    }
    pub fn file_at(&self, pc: u64) -> Option<&str> {
        self.dref.row_for(pc.wrapping_sub(self.base)).map(|r| r.file.as_str())
    }
    pub fn is_stmt(&self, pc: u64) -> bool {
        self.dref.stmt_boundary(pc.wrapping_sub(self.base))
    }
    pub fn stack(&self, i: usize) -> &Vec<reftrace::Frame> {
        &self.trace.stacks[self.trace.steps[i].stack as usize]
    }
    pub fn depth(&self, i: usize) -> usize {
        self.stack(i).len()
    }
    pub fn in_trace(&self, pc: u64) -> bool {
        self.trace.steps.iter().any(|s| s.pc == pc)
    }
}

pub fn prepare(builts: Vec<Built>) -> Result<Vec<Prog>, String> {
    builts
        .into_par_iter()
        .map(|b| {
            let job = json!({"exe": b.exe});
            let trace = match run_worker("reftrace", &job, Duration::from_secs(120)) {
                WorkerOutcome::Ok(v) => {
                    if let Some(e) = v["error"].as_str() {
                        return Err(format!("reference trace {}: {e}", b.exe));
                    }
                    let cache = v["cache"].as_str().unwrap_or("");
                    serde_json::from_str::<RefTrace>(&std::fs::read_to_string(cache).map_err(|e| format!("{cache}: {e}"))?).map_err(|e| e.to_string())?
                }
                o => return Err(format!("reference tracer crashed for {}: {o:?}", b.exe)),
            };
            let dref = dwarfref::load(&b.exe)?;
            let info = reftrace::elf_info(&b.exe)?;
            let mut watch_cands = vec![];
            if let Some((_, addr, _)) = info.data_symbols.iter().find(|(n, _, sz)| n.contains("ACC") && *sz == 8) {
                watch_cands.push((*addr, 8u8, false));
                watch_cands.push((*addr, 4u8, true)); // same address: must be refused while the first is active
            }
            if let Some((_, addr, _)) = info.data_symbols.iter().find(|(n, _, _)| n.contains("HITS")) {
                watch_cands.push((*addr + 80, 4u8, true));
                watch_cands.push((*addr + 96, 2u8, false));
                watch_cands.push((*addr + 112, 1u8, false));
                watch_cands.push((*addr + 120, 8u8, false));
                // 4-byte aligned but not 8-byte aligned: legal for a 4-byte watchpoint even in a
                // slot that held an 8-byte one before
                watch_cands.push((*addr + 84, 4u8, false));
            }
            Ok(Prog { watch_cands, built: b, trace, dref, base: info.base, entry: info.entry })
        })
        .collect()
}

pub fn reftrace_worker() {
    let job = read_job();
    let exe = job["exe"].as_str().unwrap();
    match reftrace::trace_cached(exe) {
        Ok((t, cache)) => emit_result(&json!({"steps": t.steps.len(), "cache": cache})),
        Err(e) => emit_result(&json!({"error": e})),
    }
}

// ------------------------------------------------------------------------------------------

#[derive(Clone, Debug, PartialEq, Eq, Hash, PartialOrd, Ord, serde::Serialize, serde::Deserialize)]
pub enum Cand {
    Addr(u64),
    Line(u32),
    Fn(String),
}

impl Cand {
    pub fn label(&self) -> String {
        match self {
            Cand::Addr(a) => format!("{a:#x}"),
            Cand::Line(l) => format!(":{l}"),
            Cand::Fn(n) => n.clone(),
        }
    }
}

#[derive(Clone, Debug, PartialEq, Eq, Hash, serde::Serialize, serde::Deserialize)]
pub enum Action {
    Start,
    Continue,
    Add(usize),
    /// remove candidate k; `by_num` uses the breakpoint number instead of the original designator
    Remove(usize, bool),
    Stepi,
    Step,
    Next,
    Finish,
    Restart,
    /// commands that must fail without side effects
    BadBreak,
    /// hardware watchpoint on watch candidate k
    Watch(usize),
    /// remove watch candidate k (by number / by address)
    Unwatch(usize, bool),
    /// detach, then look at the released process independently and let it finish
    Detach,
    /// drop the debugger
    Drop,
    /// SIGINT sent to the stopped debuggee from outside (stays pending until it is resumed)
    SendSigint,
}

impl Action {
    pub fn label(&self, cands: &[Cand]) -> String {
        match self {
            Action::Start => "start".into(),
            Action::Continue => "continue".into(),
            Action::Add(k) => format!("b+ {}", cands[*k].label()),
            Action::Remove(k, n) => format!("b- {}{}", cands[*k].label(), if *n { " (by number)" } else { "" }),
            Action::Stepi => "stepi".into(),
            Action::Step => "step".into(),
            Action::Next => "next".into(),
            Action::Finish => "finish".into(),
            Action::Restart => "restart".into(),
            Action::BadBreak => "b 0x10".into(),
            Action::Watch(k) => format!("watch+ #{k}"),
            Action::Unwatch(k, n) => format!("watch- #{k}{}", if *n { " (by number)" } else { "" }),
            Action::Detach => "detach".into(),
            Action::Drop => "drop".into(),
            Action::SendSigint => "kill -INT (external)".into(),
        }
    }
}

/// What the explorer believes about the world while it interprets a session.
#[derive(Clone, Debug, Default)]
pub struct Model {
    pub started: bool,
    pub exited: bool,
    /// index into the reference trace; None before `main` is reached / unknown
    pub idx: Option<usize>,
    /// candidate -> (addresses the debugger installed, breakpoint numbers)
    pub enabled: BTreeMap<usize, (Vec<u64>, Vec<u64>)>,
    /// candidate -> for every address: is it stored in global form?  While the program is not
    /// running the debugger keys its breakpoints by (form, address): a relocated and a global
    /// entry for one address coexist; while it runs there is one breakpoint per address.
    pub forms: BTreeMap<usize, Vec<bool>>,
    pub forms_running: bool,
    pub lost: bool,
    /// signals of the reference trace (by delivery index) already accounted for
    pub sig_seen_upto: usize,
    /// active watch candidates
    pub watches: BTreeSet<usize>,
    pub gone: bool,
    pub restarts: u32,
    /// an externally sent SIGINT is pending in the stopped debuggee
    pub pending_sigint: bool,
    pub sigints_sent: u32,
}

/// Entering / leaving the running state rewrites the form of every stored breakpoint address:
/// enabling makes them relocated, the exit turns them into global ones.
pub fn normalize_forms(m: &mut Model) {
    let running = m.started && !m.exited;
    if running != m.forms_running {
        for (c, (a, _)) in m.enabled.iter() {
            m.forms.insert(*c, vec![!running; a.len()]);
        }
        m.forms_running = running;
    }
}

impl Model {
    pub fn addr_set(&self) -> BTreeSet<u64> {
        self.enabled.values().flat_map(|(a, _)| a.iter().copied()).collect()
    }
}

pub fn command_json(p: &Prog, cands: &[Cand], a: &Action) -> Value {
    let file = &p.built.program.src_file;
    match a {
        Action::Start => json!({"op":"start"}),
        Action::Continue => json!({"op":"continue"}),
        Action::Add(k) => match &cands[*k] {
            Cand::Addr(x) => json!({"op":"break_addr","addr":x,"tag":k}),
            Cand::Line(l) => json!({"op":"break_line","file":file,"line":l,"tag":k}),
            Cand::Fn(n) => json!({"op":"break_fn","name":n,"tag":k}),
        },
        Action::Remove(k, by_num) => {
            if *by_num {
                json!({"op":"remove_num_of_tag","tag":k})
            } else {
                match &cands[*k] {
                    Cand::Addr(x) => json!({"op":"remove_addr","addr":x}),
                    Cand::Line(l) => json!({"op":"remove_line","file":file,"line":l}),
                    Cand::Fn(n) => json!({"op":"remove_fn","name":n}),
                }
            }
        }
        Action::Stepi => json!({"op":"stepi"}),
        Action::Step => json!({"op":"step"}),
        Action::Next => json!({"op":"next"}),
        Action::Finish => json!({"op":"finish"}),
        Action::Restart => json!({"op":"restart"}),
        Action::BadBreak => json!({"op":"break_addr","addr":0x10}),
        Action::Watch(k) => {
            let (addr, size, rw) = p.watch_cands[*k];
            json!({"op":"watch_addr","addr":addr,"size":size,"rw":rw,"wtag":k})
        }
        Action::Unwatch(k, by_num) => {
            if *by_num {
                json!({"op":"unwatch_num_of_tag","wtag":k})
            } else {
                json!({"op":"unwatch_addr","addr":p.watch_cands[*k].0})
            }
        }
        Action::Detach => json!({"op":"detach","then":"post_detach_check"}),
        Action::Drop => json!({"op":"drop"}),
        Action::SendSigint => json!({"op":"kill","sig":2}),
    }
}

/// Locate the real machine state in the reference trace at or after `from`.
pub fn locate(t: &RefTrace, from: usize, real: &Value) -> Option<usize> {
    let pc = real["pc"].as_u64()?;
    let sp = real["sp"].as_u64()?;
    let regs = real["regs"].as_u64().unwrap_or(0);
    let mem = real["mem"].as_u64().unwrap_or(0);
    (from..t.steps.len()).find(|&j| {
        let s = &t.steps[j];
        s.pc == pc && s.sp == sp && (s.regs == 0 || regs == 0 || s.regs == regs) && (s.mem == 0 || mem == 0 || s.mem == mem)
    })
}

pub struct Oracles {
    pub projection: bool, // C01
    pub text: bool,       // C02
    pub output: bool,     // C02
    pub teardown: bool,   // C11
    pub steps: bool,      // C03
    pub bt: bool,         // C05
    pub signals: bool,    // C10
    pub dregs: bool,      // C14
}

pub struct Finding {
    pub sig: String,
    pub detail: String,
}

/// Apply one executed command and its observation to the model, checking the oracles.
pub fn apply(p: &Prog, cands: &[Cand], m: &mut Model, path: &[Action], o: &Value, or: &Oracles, prop: &str, f: &mut Vec<Finding>) {
    let t = &p.trace;
    let k = path.len() - 1;
    let a = &path[k];
    let hist = |k: usize| -> String {
        path[..=k].iter().map(|a| a.label(cands)).collect::<Vec<_>>().join("; ")
    };
    let res = &o["res"];
    let ok = res["ok"].as_bool().unwrap_or(false);
    apply_inner(p, cands, m, a, k, o, res, ok, or, prop, f, &hist, t);
}

/// Interpret a whole session (used by replay).
pub fn interpret(p: &Prog, cands: &[Cand], path: &[Action], result: &Value, or: &Oracles, prop: &str) -> (Vec<Model>, Vec<Finding>) {
    let mut m = Model::default();
    let mut models = vec![];
    let mut f = vec![];
    let obs = result["obs"].as_array().cloned().unwrap_or_default();
    for k in 0..path.len() {
        let Some(o) = obs.get(k) else { break };
        apply(p, cands, &mut m, &path[..=k], o, or, prop, &mut f);
        models.push(m.clone());
    }
    check_output(p, cands, &m, path, result["stdout"].as_str().unwrap_or(""), or, prop, &mut f);
    (models, f)
}

pub fn check_output(p: &Prog, cands: &[Cand], m: &Model, path: &[Action], out: &str, or: &Oracles, prop: &str, f: &mut Vec<Finding>) {
    if or.output && m.exited && !m.lost && !path.iter().any(|a| matches!(a, Action::Restart)) {
        if out != p.trace.stdout {
            f.push(Finding { sig: format!("{prop}:output-differs-from-native"), detail: format!("[{}] {}: stdout {:?}, native {:?}", p.name(), path.iter().map(|a| a.label(cands)).collect::<Vec<_>>().join("; "), out, p.trace.stdout) });
        }
    }
}

#[allow(clippy::too_many_arguments)]
fn apply_inner(p: &Prog, cands: &[Cand], m: &mut Model, a: &Action, k_idx: usize, o: &Value, res: &Value, ok: bool, or: &Oracles, prop: &str, f: &mut Vec<Finding>, hist: &dyn Fn(usize) -> String, t: &RefTrace) {
    let _ = cands;
    let k = k_idx;
    {
        match a {
            Action::Add(c) => {
                if ok {
                    let views = res["views"].as_array().cloned().unwrap_or_default();
                    let mut addrs = vec![];
                    let mut nums = vec![];
                    for v in &views {
                        let mut addr = v["addr"].as_u64().unwrap_or(0);
                        if v["global"].as_bool().unwrap_or(false) {
                            addr += p.base;
                        }
                        addrs.push(addr);
                        nums.push(v["num"].as_u64().unwrap_or(0));
                    }
                    normalize_forms(m);
                    let running = m.started && !m.exited;
                    let new_forms: Vec<bool> = views.iter().map(|v| v["global"].as_bool().unwrap_or(false)).collect();
                    // a new breakpoint replaces what sits under the same key: the address while the
                    // program runs, (form, address) while it does not
                    let cands_now: Vec<usize> = m.enabled.keys().copied().collect();
                    for other in cands_now {
                        if other == *c {
                            continue;
                        }
                        let (oa, on) = m.enabled.get(&other).cloned().unwrap_or_default();
                        let of = m.forms.get(&other).cloned().unwrap_or_else(|| vec![false; oa.len()]);
                        let keep: Vec<usize> = (0..oa.len()).filter(|i| !addrs.iter().zip(new_forms.iter()).any(|(a, g)| *a == oa[*i] && (running || *g == *of.get(*i).unwrap_or(&false)))).collect();
                        if keep.len() != oa.len() {
                            if keep.is_empty() {
                                m.enabled.remove(&other);
                                m.forms.remove(&other);
                            } else {
                                m.enabled.insert(other, (keep.iter().map(|i| oa[*i]).collect(), keep.iter().filter_map(|i| on.get(*i).copied()).collect()));
                                m.forms.insert(other, keep.iter().map(|i| *of.get(*i).unwrap_or(&false)).collect());
                            }
                        }
                    }
                    m.forms.insert(*c, new_forms);
                    m.enabled.insert(*c, (addrs, nums));
                } else if or.projection {
                    f.push(Finding { sig: format!("{prop}:add-failed:{}", res["err"].as_str().unwrap_or("?")), detail: format!("[{}] {} failed: {}", p.name(), hist(k), res["msg"]) });
                }
            }
            Action::Remove(c, _) => {
                if ok {
                    // the debugger says what it removed: breakpoints live at addresses, whoever set them
                    let views = res["views"].as_array().cloned().unwrap_or_default();
                    let removed: Vec<u64> = views.iter().map(|v| v["addr"].as_u64().unwrap_or(0) + if v["global"].as_bool().unwrap_or(false) { p.base } else { 0 }).collect();
                    if views.is_empty() && m.enabled.contains_key(c) {
                        // nothing removed although the designator's breakpoint exists
                        if or.projection {
                            let when = if m.exited { "after-exit" } else if !m.started { "before-start" } else { "while-stopped" };
                            let kind = match &cands[*c] {
                                Cand::Addr(_) => "by-address",
                                Cand::Line(_) => "by-line",
                                Cand::Fn(_) => "by-function",
                            };
                            f.push(Finding { sig: format!("{prop}:remove:existing-breakpoint-not-removed:{when}:{kind}"), detail: format!("[{}] {}: the breakpoint of this designator is listed, the debugger removed nothing ({res})", p.name(), hist(k)) });
                        }
                    } else {
                        normalize_forms(m);
                        let running = m.started && !m.exited;
                        let removed_keys: Vec<(u64, bool)> = views.iter().map(|v| (v["addr"].as_u64().unwrap_or(0) + if v["global"].as_bool().unwrap_or(false) { p.base } else { 0 }, v["global"].as_bool().unwrap_or(false))).collect();
                        let cands_now: Vec<usize> = m.enabled.keys().copied().collect();
                        for other in cands_now {
                            let (oa, on) = m.enabled.get(&other).cloned().unwrap_or_default();
                            let of = m.forms.get(&other).cloned().unwrap_or_else(|| vec![false; oa.len()]);
                            let keep: Vec<usize> = (0..oa.len()).filter(|i| !removed_keys.iter().any(|(a, g)| *a == oa[*i] && (running || *g == *of.get(*i).unwrap_or(&false)))).collect();
                            if keep.is_empty() {
                                m.enabled.remove(&other);
                                m.forms.remove(&other);
                            } else if keep.len() != oa.len() {
                                m.enabled.insert(other, (keep.iter().map(|i| oa[*i]).collect(), keep.iter().filter_map(|i| on.get(*i).copied()).collect()));
                                m.forms.insert(other, keep.iter().map(|i| *of.get(*i).unwrap_or(&false)).collect());
                            }
                        }
                        let _ = removed;
                    }
                } else if or.projection {
                    f.push(Finding { sig: format!("{prop}:remove-failed"), detail: format!("[{}] {}: {}", p.name(), hist(k), res["msg"]) });
                }
            }
            Action::BadBreak => {}
            Action::Watch(c) => {
                let (addr, _, _) = p.watch_cands[*c];
                let full = m.watches.len() >= 4;
                let same_addr = m.watches.iter().any(|w| p.watch_cands[*w].0 == addr);
                let must_fail = full || same_addr || !m.started || m.exited;
                if ok && !must_fail {
                    m.watches.insert(*c);
                } else if ok && must_fail && or.dregs {
                    f.push(Finding { sig: format!("{prop}:watch:accepted-{}", if full { "fifth" } else if same_addr { "second-on-same-address" } else { "without-process" }), detail: format!("[{}] {}: {res}", p.name(), hist(k)) });
                    m.watches.insert(*c);
                } else if !ok && !must_fail && or.dregs {
                    f.push(Finding { sig: format!("{prop}:watch:refused:{}", res["err"].as_str().unwrap_or("?")), detail: format!("[{}] {}: {}", p.name(), hist(k), res["msg"]) });
                }
            }
            Action::Unwatch(c, _) => {
                let had = m.watches.contains(c);
                if ok && res["removed"].as_bool() == Some(true) {
                    if !had && or.dregs {
                        f.push(Finding { sig: format!("{prop}:unwatch:removed-something-not-set"), detail: format!("[{}] {}", p.name(), hist(k)) });
                    }
                    m.watches.remove(c);
                } else if had && or.dregs && m.started && !m.exited {
                    f.push(Finding { sig: format!("{prop}:unwatch:failed"), detail: format!("[{}] {}: {res}", p.name(), hist(k)) });
                }
            }
            Action::SendSigint => {
                if ok {
                    m.pending_sigint = true;
                    m.sigints_sent += 1;
                }
            }
            Action::Detach => {
                m.gone = true;
                if !ok {
                    if or.teardown {
                        f.push(Finding { sig: format!("{prop}:detach:failed:{}", res["err"].as_str().unwrap_or("?")), detail: format!("[{}] {}: {}", p.name(), hist(k), res["msg"]) });
                    }
                } else if or.teardown && m.started && !m.exited {
                    let pd = &o["post_detach"];
                    let st = pd["state_after_detach"].as_str().unwrap_or("?");
                    if st == "t" || st == "T" {
                        f.push(Finding { sig: format!("{prop}:detach:process-left-stopped"), detail: format!("[{}] {}: process state `{st}` after detach", p.name(), hist(k)) });
                    }
                    if pd["seized"].as_bool() == Some(true) {
                        let diff = pd["text_diff"].as_array().map(|a| a.len()).unwrap_or(0);
                        if diff != 0 {
                            f.push(Finding { sig: format!("{prop}:detach:code-patches-left"), detail: format!("[{}] {}: {} patched bytes remain: {}", p.name(), hist(k), diff, pd["text_diff"]) });
                        }
                        if pd["foreign_text_diff"].as_array().map(|a| !a.is_empty()).unwrap_or(false) {
                            f.push(Finding { sig: format!("{prop}:detach:code-patches-left-in-another-object"), detail: format!("[{}] {}: the released process still carries patches outside the executable: {}", p.name(), hist(k), pd["foreign_text_diff"]) });
                        }
                        if pd["dr7"].as_u64().map(|d| d & 0xff != 0).unwrap_or(false) {
                            f.push(Finding { sig: format!("{prop}:detach:hardware-breakpoints-left"), detail: format!("[{}] {}: DR7 = {:#x}", p.name(), hist(k), pd["dr7"].as_u64().unwrap_or(0)) });
                        }
                    }
                    if pd["exit_code"].as_i64() != Some(t.exit_code as i64) {
                        f.push(Finding { sig: format!("{prop}:detach:released-process-wrong-exit"), detail: format!("[{}] {}: exit {:?}, native {}", p.name(), hist(k), pd["exit_code"], t.exit_code) });
                    }
                    if pd["stdout"].as_str() != Some(t.stdout.as_str()) && !path_has_restart(m) {
                        f.push(Finding { sig: format!("{prop}:detach:released-process-wrong-output"), detail: format!("[{}] {}: output {:?}, native {:?}", p.name(), hist(k), pd["stdout"], t.stdout) });
                    }
                }
                return;
            }
            Action::Drop => {
                m.gone = true;
                if or.teardown {
                    if let Some(st) = res["left_state"].as_str() {
                        f.push(Finding { sig: format!("{prop}:drop:process-left-behind:{}:{}", if st == "Z" { "zombie" } else { "alive" }, if !m.started { "not-started" } else if m.exited { "exited" } else { "stopped" }), detail: format!("[{}] {}: /proc/<pid> still exists in state `{st}` 20 ms after the debugger was dropped", p.name(), hist(k)) });
                    }
                }
                return;
            }
            Action::Start | Action::Continue | Action::Restart => {
                if matches!(a, Action::Restart) {
                    m.idx = None;
                    m.exited = false;
                    m.sig_seen_upto = 0;
                    m.restarts += 1;
                }
                if m.exited || (!m.started && matches!(a, Action::Continue)) {
                    // must fail, nothing changes
                    if ok && res["kind"] != "exit" {
                        f.push(Finding { sig: format!("{prop}:resume-without-process-succeeded"), detail: format!("[{}] {} -> {res}", p.name(), hist(k)) });
                    }
                    return;
                }
                m.started = true;
                if m.pending_sigint {
                    // SIGINT stops the program (reported with the receiving thread) and is never
                    // delivered: the position does not change apart from the breakpoint step-over
                    m.pending_sigint = false;
                    let kind = res["kind"].as_str().unwrap_or("");
                    if !(ok && kind == "signal" && res["sig"].as_i64() == Some(2)) {
                        if or.signals {
                            f.push(Finding { sig: format!("{prop}:pending-SIGINT-not-reported:got-{}", if kind.is_empty() { res["err"].as_str().unwrap_or("?") } else { kind }), detail: format!("[{}] {}: a SIGINT was pending, the debugger reported {res}", p.name(), hist(k)) });
                        }
                        m.lost = true;
                        return;
                    }
                    if let Some(j) = locate(t, m.idx.unwrap_or(0), &o["real"]) {
                        m.idx = Some(j);
                    }
                    return;
                }
                let from = m.idx.map(|i| i + 1).unwrap_or(0);
                let set = m.addr_set();
                let mut expect = (from..t.steps.len()).find(|&j| set.contains(&t.steps[j].pc));
                let kind = res["kind"].as_str().unwrap_or("");
                // non-quiet signals stop the program: the stop happens in the state just before the
                // handler's first instruction (signal-delivery-stop), unless a breakpoint comes first
                const QUIET: [i32; 6] = [14, 23, 17, 29, 26, 27];
                let next_sig = t.signals.iter().find(|(k, sig)| *k >= 1 && *k - 1 >= from.saturating_sub(1) && *k > m.sig_seen_upto && !QUIET.contains(sig));
                if let Some((k, sig)) = next_sig {
                    let at = *k - 1;
                    if expect.map(|j| at < j).unwrap_or(true) {
                        // expected: SignalStop(sig)
                        m.sig_seen_upto = *k;
                        if !(ok && kind == "signal" && res["sig"].as_i64() == Some(*sig as i64)) {
                            if or.signals {
                                f.push(Finding { sig: format!("{prop}:signal-stop-not-reported:{sig}:got-{}", if kind.is_empty() { res["err"].as_str().unwrap_or("?") } else { kind }), detail: format!("[{}] {}: signal {sig} is delivered at trace index {at}, debugger reported {res}", p.name(), hist(k_idx)) });
                            }
                            m.lost = true;
                            return;
                        }
                        let real = &o["real"];
                        let located = locate(t, at.saturating_sub(2), real);
                        if or.signals {
                            let evs = o["events"].as_array().map(|v| v.iter().filter(|e| e["ev"] == "signal" && e["sig"].as_i64() == Some(*sig as i64)).count()).unwrap_or(0);
                            if evs != 1 {
                                f.push(Finding { sig: format!("{prop}:on_signal-hook-count-{evs}"), detail: format!("[{}] {}", p.name(), hist(k_idx)) });
                            }
                            if res["tid"].as_i64() != o["pid"].as_i64() {
                                f.push(Finding { sig: format!("{prop}:signal-reported-for-wrong-thread"), detail: format!("[{}] {}: {res}", p.name(), hist(k_idx)) });
                            }
                        }
                        m.idx = located.or(Some(at));
                        return;
                    }
                }
                if kind == "signal" && or.signals {
                    f.push(Finding { sig: format!("{prop}:unexpected-signal-stop:{}", res["sig"]), detail: format!("[{}] {}: {res}, but no non-quiet signal is due before the next stop", p.name(), hist(k_idx)) });
                    m.lost = true;
                    return;
                }
                let _ = &mut expect;
                match expect {
                    Some(j) => {
                        let want_pc = t.steps[j].pc;
                        if !(ok && kind == "breakpoint") {
                            if or.projection {
                                f.push(Finding {
                                    sig: format!("{prop}:missed-stop:{}", if kind == "exit" { "ran-to-exit" } else { kind }),
                                    detail: format!("[{}] {}: expected a stop at {want_pc:#x} (trace index {j}), debugger reported {res}", p.name(), hist(k)),
                                });
                            }
                            if kind == "exit" || !ok {
                                m.exited = kind == "exit" || res["err"] == "ProcessExit";
                                m.lost = true;
                            }
                        } else {
                            let got_pc = res["pc"].as_u64().unwrap_or(0);
                            let real = &o["real"];
                            let at = locate(t, from, real);
                            if or.projection {
                                if got_pc != want_pc {
                                    f.push(Finding { sig: format!("{prop}:wrong-stop-address"), detail: format!("[{}] {}: stop reported at {got_pc:#x}, reference next arrival is {want_pc:#x} (index {j})", p.name(), hist(k)) });
                                }
                                if real["pc"].as_u64() != Some(got_pc) {
                                    f.push(Finding { sig: format!("{prop}:reported-pc-differs-from-real-pc"), detail: format!("[{}] {}: reported {got_pc:#x}, PTRACE_GETREGS rip {:#x}", p.name(), hist(k), real["pc"].as_u64().unwrap_or(0)) });
                                }
                                if o["ecx_pc"].as_u64() != Some(got_pc) {
                                    f.push(Finding { sig: format!("{prop}:ecx-pc-differs"), detail: format!("[{}] {}: ecx pc {:#x} vs stop {got_pc:#x}", p.name(), hist(k), o["ecx_pc"].as_u64().unwrap_or(0)) });
                                }
                                if at != Some(j) {
                                    f.push(Finding {
                                        sig: format!("{prop}:arrival-skipped-or-duplicated"),
                                        detail: format!("[{}] {}: machine state matches trace index {at:?}, reference next arrival is index {j}", p.name(), hist(k)),
                                    });
                                }
                                let evs: Vec<&Value> = o["events"].as_array().map(|v| v.iter().filter(|e| e["ev"] == "breakpoint").collect()).unwrap_or_default();
                                if evs.len() != 1 || evs[0]["pc"].as_u64() != Some(got_pc) {
                                    f.push(Finding { sig: format!("{prop}:on_breakpoint-hook-count-{}", evs.len()), detail: format!("[{}] {}: on_breakpoint events {evs:?}", p.name(), hist(k)) });
                                }
                            }
                            m.idx = at.or(Some(j));
                        }
                    }
                    None => {
                        if !(ok && kind == "exit") {
                            if or.projection {
                                f.push(Finding { sig: format!("{prop}:spurious-stop:{kind}"), detail: format!("[{}] {}: no enabled breakpoint is reached any more, expected exit({}), debugger reported {res}", p.name(), hist(k), t.exit_code) });
                            }
                            m.lost = true;
                        } else {
                            if res["code"].as_i64() != Some(t.exit_code as i64) && (or.projection || or.output) {
                                f.push(Finding { sig: format!("{prop}:wrong-exit-code"), detail: format!("[{}] {}: exit code {} vs native {}", p.name(), hist(k), res["code"], t.exit_code) });
                            }
                            m.exited = true;
                            m.idx = None;
                        }
                    }
                }
            }
            Action::Stepi | Action::Step | Action::Next | Action::Finish => {
                // position after a step is found by locating the real machine state
                if m.exited || !m.started {
                    return;
                }
                let before = m.idx;
                if m.pending_sigint {
                    m.pending_sigint = false;
                    let said_so = o["events"].as_array().map(|v| v.iter().any(|e| e["ev"] == "signal" && e["sig"].as_i64() == Some(2))).unwrap_or(false);
                    // outside of main (in `_start`: no debug information, no caller) a source-level
                    // step may not resume the program at all: then the signal simply stays pending
                    let outside = before.map(|i| p.depth(i) == 0 || p.dref.func_at(t.steps[i].pc.wrapping_sub(p.base)).is_none()).unwrap_or(true);
                    let here = locate(t, m.idx.unwrap_or(0), &o["real"]);
                    if !said_so && outside && !matches!(a, Action::Stepi) && (here == before || here.is_none()) {
                        m.pending_sigint = true;
                        return;
                    }
                    if !said_so && or.signals {
                        f.push(Finding { sig: format!("{prop}:pending-SIGINT-not-reported:during-{}", action_kind(a)), detail: format!("[{}] {}: a SIGINT was pending when the step started; no signal was reported ({res})", p.name(), hist(k)) });
                    }
                    if let Some(j) = locate(t, m.idx.unwrap_or(0), &o["real"]) {
                        m.idx = Some(j);
                    }
                    return;
                }
                if res["err"] == "ProcessExit" {
                    m.exited = true;
                    m.idx = None;
                } else if let Some(real) = o.get("real") {
                    let from = m.idx.map(|i| i + 1).unwrap_or(0);
                    let no_debug_info_here = before.map(|i| p.depth(i) == 0).unwrap_or(true);
                    // a step cut short by a signal: the stop is the signal-delivery state of the next
                    // signal of the reference execution (matched by pc and sp; the register image
                    // at that point legitimately differs between a stepped and a free-running run)
                    let sig_ev = o["events"].as_array().and_then(|v| v.iter().find(|e| e["ev"] == "signal").and_then(|e| e["sig"].as_i64()));
                    let by_signal = sig_ev.and_then(|sg| {
                        t.signals.iter().find(|(k, s2)| *k > m.sig_seen_upto && *s2 as i64 == sg && *k >= 1).and_then(|(k, _)| {
                            let st = &t.steps[*k - 1];
                            if Some(st.pc) == real["pc"].as_u64() && Some(st.sp) == real["sp"].as_u64() { Some(*k) } else { None }
                        })
                    });
                    if let Some(k) = by_signal {
                        m.idx = Some(k - 1);
                        m.sig_seen_upto = k;
                    } else {
                    match locate(t, from, real) {
                        Some(j) => {
                            m.idx = Some(j);
                            for (k, _) in &t.signals {
                                if *k <= j + 1 {
                                    m.sig_seen_upto = m.sig_seen_upto.max(*k);
                                }
                            }
                        }
                        None => {
                            // outside the traced window (before main), or in code without debug
                            // information where step commands are unspecified, or lost
                            if m.idx.is_some() && !no_debug_info_here {
                                m.lost = true;
                            }
                        }
                    }
                    }
                }
                if or.steps {
                    if let Some(i) = before.filter(|i| p.depth(*i) > 0) {
                        check_step(p, m, a, i, o, res, ok, prop, f, &hist(k));
                    }
                }
            }
        }
        // ---- invariants evaluated after every command
        if or.dregs && m.started && !m.exited && !m.gone && o["alive"].as_bool().unwrap_or(false) {
            let want: BTreeSet<(u64, u8, bool)> = m.watches.iter().map(|w| p.watch_cands[*w]).collect();
            for th in o["dregs"].as_array().cloned().unwrap_or_default() {
                let dr7 = th["dr7"].as_u64().unwrap_or(0);
                let mut got: BTreeSet<(u64, u8, bool)> = BTreeSet::new();
                let mut dup = false;
                for n in 0..4u64 {
                    let l = dr7 >> (2 * n) & 1 == 1;
                    let g = dr7 >> (2 * n + 1) & 1 == 1;
                    if g {
                        f.push(Finding { sig: format!("{prop}:dregs:global-enable-bit-set"), detail: format!("[{}] {}: thread {} DR7 {dr7:#x}", p.name(), hist(k), th["tid"]) });
                    }
                    if l {
                        let rw = dr7 >> (16 + 4 * n) & 3;
                        let len = match dr7 >> (18 + 4 * n) & 3 { 0 => 1u8, 1 => 2, 3 => 4, _ => 8 };
                        let addr = th["dr"][n as usize].as_u64().unwrap_or(0);
                        if !got.insert((addr, len, rw == 3)) {
                            dup = true;
                        }
                        if rw != 1 && rw != 3 {
                            f.push(Finding { sig: format!("{prop}:dregs:bad-rw-field"), detail: format!("[{}] {}: DR7 {dr7:#x}", p.name(), hist(k)) });
                        }
                    }
                }
                if got != want || dup {
                    let kind = if got.len() > want.len() || dup { "stale-or-extra-slot" } else if got.len() < want.len() { "missing-slot" } else { "wrong-address-length-or-condition" };
                    // the model no longer describes the registers: do not explore beyond this state
                    m.lost = true;
                    f.push(Finding { sig: format!("{prop}:dregs:{kind}:after-{}", action_kind(a)), detail: format!("[{}] {}: thread {} has enabled slots {:x?} (DR7 {dr7:#x}), the active watchpoints are {:x?}", p.name(), hist(k), th["tid"], got, want) });
                }
            }
            let listed: BTreeSet<u64> = o["wps"].as_array().map(|v| v.iter().filter_map(|w| w["addr"].as_u64()).collect()).unwrap_or_default();
            let want_addrs: BTreeSet<u64> = want.iter().map(|w| w.0).collect();
            if listed != want_addrs {
                f.push(Finding { sig: format!("{prop}:watchpoint-list-differs"), detail: format!("[{}] {}: listed {:x?}, active {:x?}", p.name(), hist(k), listed, want_addrs) });
            }
        }
        if or.bt {
            if let (Some(i), Some(bt)) = (m.idx, o["bt"].as_array()) {
                if !m.exited && !m.lost {
                    check_bt(p, i, bt, &o["frame_info"], prop, f, &hist(k));
                }
            }
        }
        if or.text && m.started && o["alive"].as_bool().unwrap_or(false) {
            let diff: BTreeSet<u64> = o["text_diff"].as_array().map(|v| v.iter().filter_map(|e| e[0].as_u64()).collect()).unwrap_or_default();
            let mut allowed = m.addr_set();
            if !m.started {
                allowed.clear();
            }
            let extra: Vec<u64> = diff.iter().filter(|a| !allowed.contains(a) && **a != p.entry).copied().collect();
            let missing: Vec<u64> = if m.started && !m.exited { allowed.iter().filter(|a| !diff.contains(a) && p.in_trace(**a)).copied().collect() } else { vec![] };
            if !extra.is_empty() {
                f.push(Finding {
                    sig: format!("{prop}:text:leftover-patch-after-{}", action_kind(a)),
                    detail: format!("[{}] {}: code bytes differ from the ELF at {:x?} but no user breakpoint is set there (set: {:x?})", p.name(), hist(k), extra, allowed),
                });
            }
            if !missing.is_empty() && or.projection {
                f.push(Finding { sig: format!("{prop}:text:breakpoint-not-patched"), detail: format!("[{}] {}: breakpoints {:x?} listed but the code is unpatched", p.name(), hist(k), missing) });
            }
        }
    }
}

/// C03: the stop after a step command, against the reference trace (weak specification).
#[allow(clippy::too_many_arguments)]
fn check_step(p: &Prog, m: &Model, a: &Action, i: usize, o: &Value, res: &Value, ok: bool, prop: &str, f: &mut Vec<Finding>, hist: &str) {
    let t = &p.trace;
    let name = action_kind(a);
    let d0 = p.depth(i);
    let l0 = p.line_at(t.steps[i].pc);
    let f0 = p.file_at(t.steps[i].pc);
    let user_bps = m.addr_set();
    // the step may legitimately be cut short by a user breakpoint reached before the bound
    if !ok {
        // a source-level step from main whose execution leaves main before any further statement of
        // main: the stop would lie in main's caller (`_start`, no debug information): unspecified
        let leaves_main_first = d0 <= 1 && matches!(a, Action::Next | Action::Step) && {
            let n = t.steps.len();
            let mut first = None;
            for j in i + 1..n {
                if p.depth(j) < d0 {
                    first = Some(true);
                    break;
                }
                if p.depth(j) == d0 && p.is_stmt(t.steps[j].pc) && p.line_at(t.steps[j].pc) != l0 && p.line_at(t.steps[j].pc).is_some() {
                    first = Some(false);
                    break;
                }
            }
            first == Some(true)
        };
        if leaves_main_first {
            return;
        }
        if m.exited {
            // legal iff the program really ends before any legal stop: checked via bounds below
        } else {
            f.push(Finding { sig: format!("{prop}:{name}:failed:{}", res["err"].as_str().unwrap_or("?")), detail: format!("[{}] {hist}: {}", p.name(), res["msg"]) });
            return;
        }
    }
    if m.lost {
        f.push(Finding { sig: format!("{prop}:{name}:stop-outside-real-execution"), detail: format!("[{}] {hist}: after the step the machine state (pc {:#x}) matches no later point of the reference execution", p.name(), o["real"]["pc"].as_u64().unwrap_or(0)) });
        return;
    }
    let n = t.steps.len();
    let same_activation = |j: usize| p.stack(j) == p.stack(i);
    // first legal "different line in the current activation" boundary, or first boundary in the
    // caller after the function returned
    let bound_next = || -> Option<usize> {
        for j in i + 1..n {
            let dj = p.depth(j);
            if dj < d0 {
                // returned: first statement boundary in the caller.  The return address lies in the
                // middle of the statement that made the call; a further is_stmt row of that same line
                // (the rest of `a += f()`) is an allowed stop, not a required one: "right after the
                // return" is read at source level, the first statement that starts after the call
                let ret_line = p.line_at(t.steps[j].pc);
                let ret_file = p.file_at(t.steps[j].pc);
                return (j..n).find(|&q| {
                    let pc = t.steps[q].pc;
                    p.depth(q) < d0 && p.is_stmt(pc) && !(ret_line.is_some() && p.depth(q) == dj && p.stack(q) == p.stack(j) && p.line_at(pc) == ret_line && p.file_at(pc) == ret_file) || p.depth(q) + 1 < d0
                });
            }
            // rows of another file (code inlined from a library) are neither required nor
            // forbidden stops: only lines of the function's own file count
            if dj == d0 && same_activation(j) && p.is_stmt(t.steps[j].pc) && p.line_at(t.steps[j].pc) != l0 && p.line_at(t.steps[j].pc).is_some() && p.file_at(t.steps[j].pc) == f0 && !p.dref.in_inlined(t.steps[j].pc.wrapping_sub(p.base)) {
                return Some(j);
            }
        }
        None
    };
    let first_bp_after = |lim: usize| -> Option<usize> { (i + 1..=lim.min(n - 1)).find(|&j| user_bps.contains(&t.steps[j].pc)) };
    let ev_step: Vec<&Value> = o["events"].as_array().map(|v| v.iter().filter(|e| e["ev"] == "step").collect()).unwrap_or_default();
    let Some(k) = m.idx else {
        // exited during the step
        let b = match a {
            Action::Stepi => Some(i + 1),
            Action::Finish => (i + 1..n).find(|&j| p.depth(j) < d0),
            _ => bound_next(),
        };
        if let Some(b) = b {
            if b < n && d0 >= 1 && !(matches!(a, Action::Finish) && d0 <= 1) {
                f.push(Finding { sig: format!("{prop}:{name}:ran-past-legal-stop-to-exit"), detail: format!("[{}] {hist}: program exited during the step, but a legal stop existed at trace index {b} (pc {:#x}, line {:?})", p.name(), t.steps[b].pc, p.line_at(t.steps[b].pc)) });
            }
        }
        return;
    };
    let pc_k = t.steps[k].pc;
    // reported place = place of the real pc
    if o["ecx_pc"].as_u64() != Some(pc_k) {
        f.push(Finding { sig: format!("{prop}:{name}:reported-pc-differs-from-real-pc"), detail: format!("[{}] {hist}: ecx pc {:#x}, real pc {pc_k:#x}", p.name(), o["ecx_pc"].as_u64().unwrap_or(0)) });
    }
    for e in &ev_step {
        if e["pc"].as_u64() != Some(pc_k) {
            f.push(Finding { sig: format!("{prop}:{name}:on_step-pc-differs-from-real-pc"), detail: format!("[{}] {hist}: on_step pc {:#x}, real pc {pc_k:#x}", p.name(), e["pc"].as_u64().unwrap_or(0)) });
        } else if let (Some(l), Some(rl)) = (e["line"].as_u64(), p.line_at(pc_k)) {
            if l != rl {
                f.push(Finding { sig: format!("{prop}:{name}:reported-line-differs"), detail: format!("[{}] {hist}: on_step line {l}, reference line of pc {pc_k:#x} is {rl}", p.name()) });
            }
        }
    }
    match a {
        Action::Stepi => {
            if k != i + 1 {
                f.push(Finding { sig: format!("{prop}:stepi:not-exactly-one-instruction"), detail: format!("[{}] {hist}: stepi moved from trace index {i} to {k}", p.name()) });
            }
        }
        Action::Finish => {
            if d0 <= 1 {
                return; // finishing main leaves the program's debug information: unspecified
            }
            let want = (i + 1..n).find(|&j| p.depth(j) < d0);
            let cut = want.and_then(|w| first_bp_after(w.saturating_sub(1)));
            if Some(k) != want && Some(k) != cut {
                // the temporary breakpoint at the return address is also hit when a deeper activation
                // of the same function returns into the one being finished
                let own_return_address = want.map(|w| t.steps[w].pc == pc_k).unwrap_or(false) && p.depth(k) >= d0;
                f.push(Finding { sig: format!("{prop}:finish:{}", if own_return_address { "stopped-when-a-deeper-activation-returned:recursive" } else { "wrong-stop" }), detail: format!("[{}] {hist}: finish from index {i} (depth {d0}) stopped at index {k} (depth {}, pc {pc_k:#x}); the function returns at index {want:?}", p.name(), p.depth(k)) });
            }
        }
        Action::Next | Action::Step => {
            let bound = bound_next();
            let cut = bound.and_then(|b| first_bp_after(b.saturating_sub(1))).or_else(|| if bound.is_none() { first_bp_after(n - 1) } else { None });
            if Some(k) == cut {
                return;
            }
            if !p.is_stmt(pc_k) {
                f.push(Finding { sig: format!("{prop}:{name}:stop-not-at-statement-boundary"), detail: format!("[{}] {hist}: stopped at pc {pc_k:#x} (index {k}, line {:?}) which is not the address of an is_stmt row", p.name(), p.line_at(pc_k)) });
            }
            let dk = p.depth(k);
            // an inlined callee is a callee: `next` may end inside an inlined body only if it
            // started inside that same body
            if matches!(a, Action::Next) && dk == d0 && same_activation(k) {
                let start = p.dref.inlined_containing(t.steps[i].pc.wrapping_sub(p.base));
                let entered: Vec<(u64, u64)> = p.dref.inlined_containing(pc_k.wrapping_sub(p.base)).into_iter().filter(|r| !start.contains(r)).collect();
                let own_file = p.file_at(pc_k).map(|f| f.ends_with(&p.built.program.src_file)).unwrap_or(false);
                if !entered.is_empty() && own_file {
                    f.push(Finding { sig: format!("{prop}:next:stopped-inside-inlined-callee"), detail: format!("[{}] {hist}: next from pc {:#x} (line {l0:?}) stopped at pc {pc_k:#x} (line {:?}) inside the inlined body {:x?} that the step did not start in", p.name(), t.steps[i].pc, p.line_at(pc_k), entered) });
                }
            }
            if matches!(a, Action::Next) && dk > d0 {
                let rec = p.stack(k).last().map(|fr| fr.entry) == p.stack(i).last().map(|fr| fr.entry);
                f.push(Finding { sig: format!("{prop}:next:stopped-inside-callee{}", if rec { ":recursive" } else { "" }), detail: format!("[{}] {hist}: next from depth {d0} stopped at depth {dk} (pc {pc_k:#x}, line {:?})", p.name(), p.line_at(pc_k)) });
            }
            let own_file = f0.map(|f| f.ends_with(&p.built.program.src_file)).unwrap_or(false);
            if let (Some(b), true) = (bound, own_file) {
                let mut limit = b;
                if matches!(a, Action::Step) {
                    // entering a callee that has line information: must stop no later than its
                    // first statement row after the prologue (any statement row inside is accepted)
                    if let Some(c) = (i + 1..=b).find(|&j| p.depth(j) > d0 && p.line_at(t.steps[j].pc).is_some()) {
                        let callee_stack = p.stack(c).clone();
                        let first_stmt_in_callee = (c + 1..n).find(|&j| *p.stack(j) == callee_stack && p.is_stmt(t.steps[j].pc) && t.steps[j].pc != t.steps[c].pc);
                        if let Some(fs) = first_stmt_in_callee {
                            limit = limit.min(fs.max(c));
                        }
                    }
                }
                // consecutive statement boundaries of the very line that bounds the step are the same
                // stop as far as the statement goes ("a statement boundary ... on a different line")
                let limit_line = p.line_at(t.steps[limit].pc);
                let mut ext = limit;
                for j in limit + 1..=k.min(n - 1) {
                    if p.stack(j) != p.stack(limit) {
                        break;
                    }
                    if p.is_stmt(t.steps[j].pc) {
                        if p.line_at(t.steps[j].pc) == limit_line && p.file_at(t.steps[j].pc) == p.file_at(t.steps[limit].pc) {
                            ext = j;
                        } else {
                            break;
                        }
                    }
                }
                let limit = if k <= ext { k.max(limit) } else { limit };
                if k > limit {
                    // classify the skipped boundary for the known-finding signature
                    let skipped_pc = t.steps[limit].pc;
                    let func = p.dref.func_at(skipped_pc.wrapping_sub(p.base));
                    let after_epilogue = func
                        .map(|fu| {
                            p.dref.rows.iter().any(|r| r.epilogue_begin && fu.ranges.iter().any(|(lo, hi)| *lo <= r.addr && r.addr < *hi) && r.addr + p.base < skipped_pc)
                        })
                        .unwrap_or(false);
                    let bp_in_range = (i + 1..=k).any(|j| user_bps.contains(&t.steps[j].pc));
                    let cause = if bp_in_range { "user-breakpoint-inside-stepped-range" } else if after_epilogue { "skipped-row-lies-after-epilogue-begin-row" } else { "other" };
                    f.push(Finding { sig: format!("{prop}:{name}:stopped-later-than-allowed:{cause}"), detail: format!("[{}] {hist}: {name} from index {i} (line {l0:?}) stopped at index {k} (line {:?}, pc {pc_k:#x}); it had to stop no later than index {limit} (line {:?}, pc {skipped_pc:#x})", p.name(), p.line_at(pc_k), p.line_at(skipped_pc)) });
                }
            }
        }
        _ => {}
    }
}

/// Does the range of this step command contain the end of the process (no legal stop remains)?
pub fn crosses_exit(p: &Prog, m: &Model, a: &Action) -> bool {
    let Some(i) = m.idx else { return false };
    let t = &p.trace;
    let n = t.steps.len();
    match a {
        Action::Stepi => i + 1 >= n,
        Action::Step | Action::Next => {
            let here = (p.file_at(t.steps[i].pc).map(|s| s.to_string()), p.line_at(t.steps[i].pc));
            !(i + 1..n).any(|j| {
                let pc = t.steps[j].pc;
                p.is_stmt(pc) && (p.file_at(pc).map(|s| s.to_string()), p.line_at(pc)) != here && p.line_at(pc).is_some()
            })
        }
        Action::Finish => !(i + 1..n).any(|j| p.depth(j) < p.depth(i) && p.depth(j) > 0),
        _ => false,
    }
}

/// C05: the backtrace at trace index i against the shadow stack.
fn check_bt(p: &Prog, i: usize, bt: &[Value], fi: &Value, prop: &str, f: &mut Vec<Finding>, hist: &str) {
    let st = p.stack(i);
    if st.is_empty() {
        return; // after main returned: no frame with debug information
    }
    let pc = p.trace.steps[i].pc;
    let mut want: Vec<u64> = vec![pc];
    for fr in st.iter().rev() {
        want.push(fr.ret);
    }
    // frames up to and including main are decidable; main's caller (_start) has no unwind info
    let decidable = st.len();
    let got: Vec<u64> = bt.iter().filter_map(|fr| fr["ip"].as_u64()).collect();
    let recursive = st.windows(2).any(|w| w[0].entry == w[1].entry);
    // at a function's very first instructions the CFA rules are exact too, so no exemption
    if got.len() < decidable || got[..decidable] != want[..decidable] {
        let kind = if got.len() < decidable { "missing-frames" } else { "wrong-frame-ip" };
        f.push(Finding {
            sig: format!("{prop}:bt:{kind}{}", if recursive { ":recursion" } else { "" }),
            detail: format!("[{}] {hist}: at trace index {i} (pc {pc:#x}) backtrace ips {:x?}; real call chain (innermost first) {:x?}", p.name(), got, &want[..decidable]),
        });
    }
    // these programs' entry stub has no unwind information: nothing can follow main's caller
    if got.len() > decidable + 1 {
        f.push(Finding {
            sig: format!("{prop}:bt:extra-frames-below-main"),
            detail: format!("[{}] {hist}: {} frames reported, the real chain has {} (+1 for main's caller at most); tail {:x?}", p.name(), got.len(), decidable, &got[decidable..got.len().min(decidable + 4)]),
        });
    }
    if let (Some(cfa), Some(top)) = (fi["cfa"].as_u64(), st.last()) {
        if fi["num"].as_u64() == Some(0) {
            if cfa != top.cfa {
                f.push(Finding { sig: format!("{prop}:frame-info:wrong-cfa"), detail: format!("[{}] {hist}: frame_info cfa {cfa:#x}, real {:#x}", p.name(), top.cfa) });
            }
            // `None` (no answer, e.g. the caller has no unwind information) is not a wrong answer
            if fi["ret"].as_u64().is_some() && fi["ret"].as_u64() != Some(top.ret) {
                f.push(Finding { sig: format!("{prop}:frame-info:wrong-return-address"), detail: format!("[{}] {hist}: frame_info return address {:x?}, real {:#x}", p.name(), fi["ret"].as_u64(), top.ret) });
            }
        }
    }
}

fn path_has_restart(m: &Model) -> bool {
    m.restarts > 0
}

fn action_kind(a: &Action) -> &'static str {
    match a {
        Action::Start => "start",
        Action::Continue => "continue",
        Action::Add(_) => "add",
        Action::Remove(..) => "remove",
        Action::Stepi => "stepi",
        Action::Step => "step",
        Action::Next => "next",
        Action::Finish => "finish",
        Action::Restart => "restart",
        Action::BadBreak => "failed-break",
        Action::Watch(_) => "watch",
        Action::Unwatch(..) => "unwatch",
        Action::Detach => "detach",
        Action::Drop => "drop",
        Action::SendSigint => "kill",
    }
}

pub fn canon(m: &Model, last_obs: Option<&Value>) -> String {
    let diff: Vec<u64> = last_obs
        .and_then(|o| o["text_diff"].as_array())
        .map(|v| v.iter().filter_map(|e| e[0].as_u64()).collect())
        .unwrap_or_default();
    // the form of the stored address (global / relocated) is hidden state that decides how a later
    // removal by address behaves: keep it in the key
    let mut bps: Vec<(u64, bool)> = last_obs
        .and_then(|o| o["bps"].as_array())
        .map(|v| v.iter().filter_map(|e| e["addr"].as_u64().map(|a| (a, e["global"].as_bool().unwrap_or(false)))).collect())
        .unwrap_or_default();
    // the listing order is the iteration order of a hash map inside the debugger
    bps.sort();
    format!(
        "{}|{}|{:?}|{:?}|{:x?}|{:x?}|{}|{}|{:?}|{}|{}|{}",
        m.started,
        m.exited,
        m.idx,
        m.enabled.keys().collect::<Vec<_>>(),
        diff,
        bps,
        m.lost,
        m.sig_seen_upto,
        m.watches,
        m.gone,
        m.pending_sigint,
        m.sigints_sent
    )
}

pub fn init_json(p: &Prog, bt: bool) -> Value {
    json!({"exe": p.built.exe, "args": [], "main_entry_sp": p.trace.main_entry_sp, "bt": bt})
}

/// Batch session (used by replay): all commands at once.
pub fn run_session(p: &Prog, cands: &[Cand], path: &[Action], bt: bool) -> (Value, WorkerOutcome) {
    let cmds: Vec<Value> = path.iter().map(|a| command_json(p, cands, a)).collect();
    let mut job = init_json(p, bt);
    job["commands"] = json!(cmds);
    let out = run_worker("e2e", &job, Duration::from_secs(120));
    (job, out)
}

pub struct ExploreCfg {
    pub prop: &'static str,
    pub depth: usize,
    pub oracles: Oracles,
    pub steps: bool,
    pub restart: bool,
    pub failing: bool,
    pub remove_by_num: bool,
    pub bp_only_before_start: bool,
    pub continue_after_start: bool,
    pub watches: usize,
    pub terminals: bool,
    pub ext_sigint: bool,
    pub wall: Duration,
}

pub fn actions_for(m: &Model, cands: &[Cand], cfg: &ExploreCfg) -> Vec<Action> {
    let p_watch_len = cfg.watches;
    let mut v = vec![];
    if !m.started {
        v.push(Action::Start);
    } else if cfg.continue_after_start {
        v.push(Action::Continue);
    }
    for k in 0..cands.len() {
        if cfg.bp_only_before_start && m.started {
            break;
        }
        if m.enabled.contains_key(&k) {
            v.push(Action::Remove(k, false));
        } else {
            v.push(Action::Add(k));
        }
    }
    if cfg.steps && m.started && !m.exited {
        v.extend([Action::Stepi, Action::Step, Action::Next, Action::Finish]);
    }
    if cfg.restart && m.started {
        v.push(Action::Restart);
    }
    if cfg.failing {
        v.push(Action::BadBreak);
    }
    if m.gone {
        return vec![];
    }
    if m.started && !m.exited {
        for k in 0..cfg.watches.min(p_watch_len) {
            if m.watches.contains(&k) {
                v.push(Action::Unwatch(k, k % 2 == 0));
            } else {
                v.push(Action::Watch(k));
            }
        }
    }
    if cfg.ext_sigint && m.started && !m.exited && !m.pending_sigint && m.sigints_sent < 2 {
        v.push(Action::SendSigint);
    }
    if cfg.terminals {
        v.push(Action::Drop);
        if m.started && !m.exited {
            v.push(Action::Detach);
        }
    }
    v
}

struct StateInfo {
    path: Vec<Action>,
    model: Model,
}

#[derive(Default)]
struct Shared {
    known: HashMap<String, StateInfo>,
    explored: HashSet<(String, Action)>,
    /// executed edges: (source state, action) -> target state
    succ: HashMap<(String, Action), String>,
    pending: VecDeque<(String, Action)>,
    in_flight: usize,
    findings: Vec<(Finding, Value)>,
    transitions: u64,
    replayed_steps: u64,
    sessions: u64,
    nontrivial: u64,
    outcomes: HashSet<String>,
    samples: Vec<Value>,
    errors: Vec<String>,
    unreproducible: Vec<String>,
}

/// Exploration of one program: a pool of interactive sessions walks the state graph; every
/// (canonical state, action) pair with state depth < bound is executed exactly once (plus prefix
/// replays needed to reach the state again in a fresh process).
pub fn explore_program(p: &Prog, cands: &[Cand], cfg: &ExploreCfg, part: &mut Part, deadline: Instant) {
    let shared = Mutex::new(Shared::default());
    let cv = Condvar::new();
    {
        let mut g = shared.lock().unwrap();
        let root = canon(&Model::default(), None);
        for a in actions_for(&Model::default(), cands, cfg) {
            g.pending.push_back((root.clone(), a));
        }
        g.known.insert(root, StateInfo { path: vec![], model: Model::default() });
    }
    let capped = std::sync::atomic::AtomicBool::new(false);
    let nthreads = std::env::var("BSMC_THREADS").ok().and_then(|s| s.parse().ok()).unwrap_or_else(|| std::thread::available_parallelism().map(|n| n.get()).unwrap_or(8).min(8));
    std::thread::scope(|sc| {
        for _ in 0..nthreads {
            sc.spawn(|| {
                loop {
                    // ---- take one unexplored edge
                    let (start_key, first_action, prefix) = {
                        let mut g = shared.lock().unwrap();
                        loop {
                            if Instant::now() > deadline {
                                capped.store(true, std::sync::atomic::Ordering::Relaxed);
                                cv.notify_all();
                                return;
                            }
                            let mut found = None;
                            while let Some((k, a)) = g.pending.pop_front() {
                                if g.explored.contains(&(k.clone(), a.clone())) {
                                    continue;
                                }
                                g.explored.insert((k.clone(), a.clone()));
                                found = Some((k, a));
                                break;
                            }
                            if let Some((k, a)) = found {
                                let prefix = g.known[&k].path.clone();
                                g.in_flight += 1;
                                break (k, a, prefix);
                            }
                            if g.in_flight == 0 {
                                cv.notify_all();
                                return;
                            }
                            g = cv.wait_timeout(g, Duration::from_millis(100)).unwrap().0;
                        }
                    };
                    walk(p, cands, cfg, &shared, start_key, first_action, prefix);
                    let mut g = shared.lock().unwrap();
                    g.in_flight -= 1;
                    cv.notify_all();
                }
            });
        }
    });
    let mut g = shared.into_inner().unwrap();
    // a finding is reported only if a fresh session shows it again (known findings are matched by
    // `finish` without a second look); per signature at most two witnesses are tried, each twice
    {
        let known: BTreeSet<String> = crate::common::load_known_findings().into_iter().filter(|k| k.kind == "finding").map(|k| k.signature).collect();
        let mut verdict: BTreeMap<String, bool> = BTreeMap::new();
        let mut witnesses_tried: BTreeMap<String, u32> = BTreeMap::new();
        let all = std::mem::take(&mut g.findings);
        for (f, rp) in &all {
            if known.contains(&f.sig) || verdict.get(&f.sig) == Some(&true) {
                continue;
            }
            let n = witnesses_tried.entry(f.sig.clone()).or_insert(0);
            if *n >= 2 {
                continue;
            }
            *n += 1;
            let path: Vec<Action> = serde_json::from_value(rp["path"].clone()).unwrap_or_default();
            let slow = f.sig.contains(":debugger-hung");
            let mut ok = false;
            for _ in 0..if slow { 1 } else { 2 } {
                let (_, out) = run_session(p, cands, &path, cfg.oracles.bt);
                g.replayed_steps += path.len() as u64;
                let again = match &out {
                    WorkerOutcome::Ok(res) => interpret(p, cands, &path, res, &cfg.oracles, cfg.prop).1.iter().any(|x| x.sig == f.sig),
                    WorkerOutcome::Crashed { .. } => f.sig.contains(":debugger-crashed") || f.sig.contains(":teardown-failed"),
                    WorkerOutcome::Timeout { .. } => f.sig.contains(":debugger-hung"),
                };
                if again {
                    ok = true;
                    break;
                }
            }
            let e = verdict.entry(f.sig.clone()).or_insert(false);
            *e = *e || ok;
        }
        for (f, rp) in all {
            if known.contains(&f.sig) || verdict.get(&f.sig) == Some(&true) {
                g.findings.push((f, rp));
            } else {
                g.unreproducible.push(format!("[{}] finding {} seen once and not reproduced by fresh sessions: {}", p.name(), f.sig, f.detail.chars().take(300).collect::<String>()));
            }
        }
    }
    part.states += g.known.len() as u64;
    part.transitions += g.transitions;
    part.evaluations += g.transitions + g.replayed_steps;
    part.distinct_nontrivial += g.nontrivial;
    part.distinct_outcomes += g.outcomes.len() as u64;
    for (f, rp) in g.findings {
        part.violate(f.sig, f.detail, rp);
    }
    for s in g.samples {
        part.sample(s);
    }
    for e in g.errors {
        part.violate(format!("{}:machinery", cfg.prop), e, json!({}));
        part.exhaustive = false;
    }
    if !g.unreproducible.is_empty() {
        part.exhaustive = false;
        part.caps_hit.push(format!("{} state(s) observed once could not be reached again and were not expanded", g.unreproducible.len()));
        let e = part.extra.entry("unreproducible_observations".to_string()).or_insert(json!([]));
        if let Some(a) = e.as_array_mut() {
            a.extend(g.unreproducible.iter().take(5).map(|s| json!(s)));
        }
    }
    let e = part.extra.entry("sessions".to_string()).or_insert(json!(0));
    *e = json!(e.as_u64().unwrap_or(0) + g.sessions);
    let e = part.extra.entry("replayed_prefix_steps".to_string()).or_insert(json!(0));
    *e = json!(e.as_u64().unwrap_or(0) + g.replayed_steps);
    if capped.load(std::sync::atomic::Ordering::Relaxed) {
        part.exhaustive = false;
        part.caps_hit.push(format!("wall cap hit while exploring {}", p.name()));
    }
}

fn walk(p: &Prog, cands: &[Cand], cfg: &ExploreCfg, shared: &Mutex<Shared>, start_key: String, first_action: Action, prefix: Vec<Action>) {
    let replay_of = |path: &[Action]| json!({"engine":"e2e","prop":cfg.prop,"exe":p.built.exe,"cands":cands,"path":path,"history":path.iter().map(|a| a.label(cands)).collect::<Vec<_>>()});
    let timeout = Duration::from_secs(90);
    let mut attempt = 0;
    let mut reached_keys: Vec<String> = vec![];
    let (mut sess, mut m, mut path, mut findings, mut last_obs) = loop {
        attempt += 1;
        let mut sess = match ISession::start("e2e", &init_json(p, cfg.oracles.bt)) {
            Ok(s) => s,
            Err(e) => {
                shared.lock().unwrap().errors.push(format!("cannot start worker: {e}"));
                return;
            }
        };
        shared.lock().unwrap().sessions += 1;
        let mut m = Model::default();
        let mut path: Vec<Action> = vec![];
        let mut findings: Vec<Finding> = vec![];
        let mut last_obs: Option<Value> = None;
        // ---- replay the prefix
        let mut failed: Option<String> = None;
        for a in &prefix {
            path.push(a.clone());
            match sess.cmd(&command_json(p, cands, a), timeout) {
                Ok(o) => {
                    apply(p, cands, &mut m, &path, &o, &cfg.oracles, cfg.prop, &mut findings);
                    last_obs = Some(o);
                }
                Err(e) => {
                    failed = Some(format!("[{}] replaying known prefix {:?} failed: {e:?}", p.name(), path.iter().map(|a| a.label(cands)).collect::<Vec<_>>()));
                    break;
                }
            }
            shared.lock().unwrap().replayed_steps += 1;
        }
        let reached = canon(&m, last_obs.as_ref());
        if failed.is_none() && reached == start_key {
            break (sess, m, path, findings, last_obs);
        }
        // the state is located by hashes of the machine state; a rare mislocation (or a worker
        // that died under load) is retried twice before it counts as nondeterminism
        reached_keys.push(failed.clone().unwrap_or(reached.clone()));
        if attempt >= 3 {
            let mut g = shared.lock().unwrap();
            if failed.is_none() && reached_keys.iter().all(|k| k == &reached_keys[0]) {
                // three fresh sessions agree with each other, not with the state recorded once
                g.unreproducible.push(format!("[{}] {:?}: recorded once {}, replayed three times {}", p.name(), path.iter().map(|a| a.label(cands)).collect::<Vec<_>>(), start_key, reached));
            } else {
                g.errors.push(failed.unwrap_or_else(|| format!("[{}] nondeterminism: replaying {:?} reached {:?} instead of {}", p.name(), path.iter().map(|a| a.label(cands)).collect::<Vec<_>>(), reached_keys, start_key)));
            }
            return;
        }
        sess.kill();
    };
    // ---- walk
    let mut next = Some(first_action);
    let mut prev_key: Option<String> = Some(start_key.clone());
    while let Some(a) = next.take() {
        path.push(a.clone());
        let r = sess.cmd(&command_json(p, cands, &a), timeout);
        let mut g = shared.lock().unwrap();
        g.transitions += 1;
        match r {
            Ok(o) => {
                let mut fs = vec![];
                apply(p, cands, &mut m, &path, &o, &cfg.oracles, cfg.prop, &mut fs);
                for f in fs {
                    g.findings.push((f, replay_of(&path)));
                }
                g.outcomes.insert(format!("{}|{}|{}", o["res"]["kind"], o["res"]["err"], o["res"]["pc"]));
                let key = canon(&m, Some(&o));
                last_obs = Some(o);
                // canonical route to the new state: shortest known route to its predecessor + action
                let route: Vec<Action> = match prev_key.as_ref().and_then(|k| g.known.get(k)) {
                    Some(pi) if pi.path.len() + 1 < path.len() => {
                        let mut r = pi.path.clone();
                        r.push(a.clone());
                        r
                    }
                    _ => path.clone(),
                };
                let depth = route.len();
                let is_new = !g.known.contains_key(&key);
                if let Some(prev_key) = &prev_key {
                    g.succ.insert((prev_key.clone(), a.clone()), key.clone());
                }
                if is_new {
                    if m.idx.is_some() || !m.enabled.is_empty() {
                        g.nontrivial += 1;
                    }
                    if g.samples.len() < 4 && path.len() >= 2 {
                        g.samples.push(json!({"program": p.name(), "history": path.iter().map(|a| a.label(cands)).collect::<Vec<_>>(), "trace_index": m.idx, "exited": m.exited}));
                    }
                    g.known.insert(key.clone(), StateInfo { path: route.clone(), model: m.clone() });
                    if depth < cfg.depth && !m.lost {
                        for a in actions_for(&m, cands, cfg) {
                            g.pending.push_back((key.clone(), a));
                        }
                    }
                } else if g.known[&key].path.len() > depth {
                    // shorter route found: relax this state and everything reachable from it, so
                    // that the explored set does not depend on the order sessions happened to run
                    let mut work = vec![(key.clone(), route.clone())];
                    while let Some((k, pth)) = work.pop() {
                        let Some(info) = g.known.get_mut(&k) else { continue };
                        if info.path.len() <= pth.len() {
                            continue;
                        }
                        info.path = pth.clone();
                        let model = info.model.clone();
                        if pth.len() < cfg.depth && !model.lost {
                            for a in actions_for(&model, cands, cfg) {
                                let e = (k.clone(), a.clone());
                                if let Some(t) = g.succ.get(&e).cloned() {
                                    let mut np = pth.clone();
                                    np.push(a);
                                    work.push((t, np));
                                } else if !g.explored.contains(&e) {
                                    g.pending.push_back(e);
                                }
                            }
                        }
                    }
                }
                prev_key = Some(key.clone());
                // continue the walk with an unexplored action of the current state
                let depth = g.known[&key].path.len().min(depth);
                if depth < cfg.depth && !m.lost {
                    for a in actions_for(&m, cands, cfg) {
                        let e = (key.clone(), a.clone());
                        if !g.explored.contains(&e) {
                            g.explored.insert(e);
                            next = Some(a);
                            break;
                        }
                    }
                }
            }
            Err(SessErr::Timeout) => {
                g.findings.push((Finding { sig: format!("{}:debugger-hung", cfg.prop), detail: format!("[{}] {:?}: no answer within {} s", p.name(), path.iter().map(|a| a.label(cands)).collect::<Vec<_>>(), timeout.as_secs()) }, replay_of(&path)));
                drop(g);
                sess.kill();
                return;
            }
            Err(SessErr::Crashed { status, stderr }) => {
                let first = stderr.lines().find(|l| l.contains("panicked")).unwrap_or(stderr.lines().last().unwrap_or("")).to_string();
                let class = if crosses_exit(p, &m, &a) { ":step-range-contains-process-exit" } else { "" };
                if !class.is_empty() && cfg.prop != "C03" {
                    // triaged: this crash belongs to C03 (recorded there); it says nothing about this property
                    g.outcomes.insert("crash attributed to C03".into());
                    return;
                }
                g.findings.push((Finding { sig: format!("{}:debugger-crashed{class}", cfg.prop), detail: format!("[{}] {:?}: worker {status}: {first}", p.name(), path.iter().map(|a| a.label(cands)).collect::<Vec<_>>()) }, replay_of(&path)));
                return;
            }
        }
    }
    // ---- end of session: stdout / teardown facts
    match sess.end(Duration::from_secs(30)) {
        Ok(res) => {
            let mut fs = vec![];
            check_output(p, cands, &m, &path, res["stdout"].as_str().unwrap_or(""), &cfg.oracles, cfg.prop, &mut fs);
            if cfg.oracles.teardown && res["process_left_after_drop"].as_bool().unwrap_or(false) {
                fs.push(Finding { sig: format!("{}:process-left-after-drop", cfg.prop), detail: format!("[{}] {:?}: debuggee still exists after the debugger was dropped", p.name(), path.iter().map(|a| a.label(cands)).collect::<Vec<_>>()) });
            }
            let mut g = shared.lock().unwrap();
            for f in fs {
                g.findings.push((f, replay_of(&path)));
            }
        }
        Err(e) => {
            let mut g = shared.lock().unwrap();
            g.findings.push((Finding { sig: format!("{}:teardown-failed", cfg.prop), detail: format!("[{}] {:?}: {e:?}", p.name(), path.iter().map(|a| a.label(cands)).collect::<Vec<_>>()) }, replay_of(&path)));
        }
    }
}

/// Candidate breakpoint locations of one program: a raw statement address, the address of the
/// instruction executed right after it (so that stepping off one breakpoint lands on another),
/// then a file:line, a function name and a second raw address in another function.
pub fn candidates(p: &Prog, n: usize) -> Vec<Cand> {
    let mut v: Vec<Cand> = vec![];
    let first_addr = |mark: &str| -> Option<u64> {
        let l = p.line_of(mark)?;
        p.stmt_addrs(l).into_iter().find(|a| p.in_trace(*a))
    };
    // raw address of a loop-body / callee statement
    for mark in ["body1", "rec.4", "ff.2", "cl1", "gg.2", "then", "assign"] {
        if let Some(a) = first_addr(mark) {
            v.push(Cand::Addr(a));
            // the very next instruction executed after the first arrival there
            if let Some(i) = p.trace.steps.iter().position(|s| s.pc == a) {
                if let Some(nx) = p.trace.steps.get(i + 1) {
                    if nx.pc != a {
                        v.push(Cand::Addr(nx.pc));
                    }
                }
            }
            break;
        }
    }
    let mut line = None;
    for mark in ["body2", "callrec", "callc", "callf", "callg8", "else", "assign"] {
        if let Some(l) = p.line_of(mark) {
            if !p.stmt_addrs(l).is_empty() {
                line = Some(Cand::Line(l));
                break;
            }
        }
    }
    let mut func = None;
    for f in ["rec", "ff", "gg", "emit"] {
        if p.built.program.functions.iter().any(|x| x == f) {
            func = Some(Cand::Fn(f.to_string()));
            break;
        }
    }
    // alternate which designator kind gets the third slot so that both kinds are exercised in
    // small candidate sets
    let alt = p.built.program.name.len() % 2 == 0;
    let (third, fourth) = if alt { (func, line) } else { (line, func) };
    v.extend(third);
    v.extend(fourth);
    for mark in ["main.emit", "rec.2", "ff.3"] {
        if let Some(a) = first_addr(mark) {
            if !v.contains(&Cand::Addr(a)) {
                v.push(Cand::Addr(a));
                break;
            }
        }
    }
    v.truncate(n);
    v
}

pub fn oracles_for(prop: &str) -> Oracles {
    match prop {
        "C01" => Oracles { projection: true, text: false, output: false, teardown: false, steps: false, bt: false, signals: false, dregs: false },
        "C03" => Oracles { projection: false, text: false, output: false, teardown: false, steps: true, bt: false, signals: false, dregs: false },
        "C05" => Oracles { projection: false, text: false, output: false, teardown: false, steps: false, bt: true, signals: false, dregs: false },
        "C11" => Oracles { projection: true, text: true, output: true, teardown: true, steps: false, bt: false, signals: false, dregs: false },
        "C14" => Oracles { projection: false, text: false, output: false, teardown: true, steps: false, bt: false, signals: false, dregs: true },
        "C18" => Oracles { projection: true, text: true, output: true, teardown: false, steps: false, bt: true, signals: false, dregs: false },
        "C10" => Oracles { projection: true, text: true, output: true, teardown: false, steps: false, bt: false, signals: true, dregs: false },
        "C02" => Oracles { projection: false, text: true, output: true, teardown: false, steps: false, bt: false, signals: false, dregs: false },
        _ => Oracles { projection: true, text: true, output: true, teardown: true, steps: true, bt: true, signals: true, dregs: false },
    }
}

pub fn load_prog(exe: &str) -> Result<Prog, String> {
    let meta = std::path::Path::new(exe).parent().unwrap().join("meta.json");
    let b: Built = serde_json::from_str(&std::fs::read_to_string(meta).map_err(|e| e.to_string())?).map_err(|e| e.to_string())?;
    Ok(prepare(vec![b])?.remove(0))
}

/// Re-execute one recorded history (twice) without the explorer and re-evaluate the oracle.
pub fn replay(v: &Value) -> i32 {
    let exe = v["exe"].as_str().unwrap_or("");
    let prop = v["prop"].as_str().unwrap_or("C01").to_string();
    let p = match load_prog(exe) {
        Ok(p) => p,
        Err(e) => {
            eprintln!("cannot load program: {e}");
            return 2;
        }
    };
    let cands: Vec<Cand> = serde_json::from_value(v["cands"].clone()).unwrap_or_default();
    let path: Vec<Action> = serde_json::from_value(v["path"].clone()).unwrap_or_default();
    let bt = oracles_for(&prop).bt;
    let (_, a) = run_session(&p, &cands, &path, bt);
    let (_, b) = run_session(&p, &cands, &path, bt);
    let summarize = |o: &WorkerOutcome| -> String {
        match o {
            WorkerOutcome::Ok(v) => v["obs"]
                .as_array()
                .map(|obs| obs.iter().map(|o| format!("{} -> {} real_pc={} text_diff={}", o["cmd"], o["res"], o["real"]["pc"], o["text_diff"])).collect::<Vec<_>>().join("\n"))
                .unwrap_or_default(),
            o => format!("{o:?}"),
        }
    };
    let (sa, sb) = (summarize(&a), summarize(&b));
    println!("{sa}");
    let strip = |s: &str| -> String { regex::Regex::new(r#""(pid|tid)":\d+"#).unwrap().replace_all(s, "").to_string() };
    if strip(&sa) != strip(&sb) {
        eprintln!("harness nondeterminism: second run differs:\n{sb}");
        return 2;
    }
    if let WorkerOutcome::Ok(res) = &a {
        // diagnostics: where in the reference trace does each observed machine state occur?
        for o in res["obs"].as_array().cloned().unwrap_or_default() {
            let real = &o["real"];
            if let (Some(pc), Some(sp)) = (real["pc"].as_u64(), real["sp"].as_u64()) {
                let hits: Vec<String> = p
                    .trace
                    .steps
                    .iter()
                    .enumerate()
                    .filter(|(_, s)| s.pc == pc)
                    .map(|(j, s)| format!("{j}{}{}{}", if s.sp == sp { "" } else { "(sp differs)" }, if s.regs == real["regs"].as_u64().unwrap_or(0) { "" } else { "(regs differ)" }, if s.mem == real["mem"].as_u64().unwrap_or(0) { "" } else { "(mem differs)" }))
                    .take(8)
                    .collect();
                println!("  [{}] real pc {pc:#x} sp {sp:#x} line {:?} -> trace indices with this pc: {hits:?}", o["cmd"]["op"], p.line_at(pc));
            }
        }
    }
    match a {
        WorkerOutcome::Ok(res) => {
            let prop_static: &'static str = Box::leak(prop.clone().into_boxed_str());
            let (_, findings) = interpret(&p, &cands, &path, &res, &oracles_for(&prop), prop_static);
            for f in &findings {
                println!("violated {}: {}", f.sig, f.detail);
            }
            if findings.is_empty() { 0 } else { 1 }
        }
        _ => 1,
    }
}
