//! C04 worker sweep: every address/source answer of the debugger against the independent reader.

use crate::dwarfref;
use crate::e2w::Session;
use bugstalker::debugger::address::{Address, GlobalAddress, RelocatedAddress};
use capstone::prelude::*;
use serde_json::{Value, json};
use std::collections::BTreeSet;

pub fn sweep(s: &mut Session, src_file: &str, fn_names: &[String]) -> Value {
    let dref = match dwarfref::load(&s.exe) {
        Ok(d) => d,
        Err(e) => return json!({"error": e}),
    };
    let base = s.elf.base;
    let mut findings: Vec<Value> = vec![];
    let mut evals = 0u64;
    let mut nontrivial = 0u64;
    let mut samples = vec![];
    // user functions = live instances whose rows are in the program's own source file
    let text0: Vec<(u64, u64)> = s.elf.text.iter().map(|(a, _, sz)| (*a - base, *sz)).collect();
    let live: Vec<&dwarfref::Func> = dref.live_funcs().into_iter().filter(|f| f.ranges.iter().all(|(lo, _)| text0.iter().any(|(a, sz)| a <= lo && *lo < a + sz))).collect();
    let user: Vec<&dwarfref::Func> = live
        .iter()
        .copied()
        .filter(|f| f.ranges.iter().any(|(lo, _)| dref.row_for(*lo).map(|r| r.file.ends_with(src_file)).unwrap_or(false)))
        .collect();
    let cs = Capstone::new().x86().mode(arch::x86::ArchMode::Mode64).build().unwrap();
    let file_bytes = std::fs::read(&s.exe).unwrap_or_default();
    let text: Vec<(u64, u64, u64)> = s.elf.text.iter().map(|(a, o, sz)| (*a - base, *o, *sz)).collect();
    let bytes_at = |addr: u64, len: u64| -> Option<&[u8]> {
        text.iter().find(|(a, _, sz)| *a <= addr && addr + len <= *a + *sz).map(|(a, o, _)| &file_bytes[(*o + addr - *a) as usize..(*o + addr - *a + len) as usize])
    };
    // ---- 1. pc -> function and (file, line) for every instruction address of every user function
    for f in &user {
        for (lo, hi) in &f.ranges {
            let Some(code) = bytes_at(*lo, hi - lo) else { continue };
            let Ok(insns) = cs.disasm_all(code, *lo) else { continue };
            for i in insns.iter() {
                let pc = i.address();
                evals += 1;
                let want_row = dref.row_for(pc);
                let want_fn = dref.func_at(pc);
                let got = s.dbg.as_ref().unwrap().resolve_function_at_pc(GlobalAddress::from(pc));
                match got {
                    Ok(Some((name, place))) => {
                        nontrivial += 1;
                        if let Some(wf) = want_fn {
                            let base_name = |n: &str| n.rsplit("::").next().unwrap_or(n).to_string();
                            let strip = |n: &str| n.split('<').next().unwrap_or(n).to_string();
                            if strip(&base_name(&name)) != strip(&base_name(&wf.name)) {
                                findings.push(json!({"sig": "C04:pc->function:wrong-function", "detail": format!("pc {pc:#x}: debugger says `{name}`, the innermost function whose range contains it is `{}`", wf.name)}));
                            }
                        }
                        match (place, want_row) {
                            (Some(p), Some(r)) => {
                                if p.line_number != r.line || !r.file.ends_with(p.file.file_name().and_then(|x| x.to_str()).unwrap_or("?")) {
                                    let same_addr_rows = dref.rows.iter().filter(|x| x.addr == r.addr && !x.end_sequence).count();
                                    let kind = if same_addr_rows > 1 { "row-with-equal-address-chosen" } else { "wrong-row" };
                                    findings.push(json!({"sig": format!("C04:pc->line:{kind}"), "detail": format!("pc {pc:#x}: debugger says {}:{}, the line table says {}:{} (row at {:#x})", p.file.display(), p.line_number, r.file, r.line, r.addr)}));
                                }
                            }
                            (None, Some(r)) => findings.push(json!({"sig": "C04:pc->line:no-answer", "detail": format!("pc {pc:#x}: no place, the line table says {}:{}", r.file, r.line)})),
                            (Some(p), None) => findings.push(json!({"sig": "C04:pc->line:answer-outside-any-sequence", "detail": format!("pc {pc:#x}: debugger says line {}", p.line_number)})),
                            _ => {}
                        }
                    }
                    Ok(None) => {
                        if want_fn.is_some() {
                            findings.push(json!({"sig": "C04:pc->function:not-found", "detail": format!("pc {pc:#x} lies in `{}` but no function was resolved", want_fn.unwrap().name)}));
                        }
                    }
                    Err(e) => findings.push(json!({"sig": "C04:pc->function:error", "detail": format!("pc {pc:#x}: {e}")})),
                }
            }
        }
    }
    // ---- 2. file:line -> addresses, for every line of the file (+2) and two spellings of the path
    let max_line = dref.rows.iter().filter(|r| r.file.ends_with(src_file)).map(|r| r.line).max().unwrap_or(0);
    let full_path = dref.rows.iter().find(|r| r.file.ends_with(src_file)).map(|r| r.file.clone()).unwrap_or_default();
    let mut full_path = full_path;
    while full_path.contains("//") {
        full_path = full_path.replace("//", "/");
    }
    // code lives in executable sections: rows of linker-discarded functions (relocated to 0) do not
    let in_text = |a: u64| text.iter().any(|(lo, _, sz)| *lo <= a && a < *lo + *sz);
    let stmt_rows_of = |line: u64| -> Vec<&dwarfref::Row> {
        dref.rows.iter().filter(|r| !r.end_sequence && r.is_stmt && r.line == line && r.file.ends_with(src_file) && in_text(r.addr)).collect()
    };
    for line in 1..=max_line + 2 {
        for tpl in [src_file.to_string(), full_path.clone()] {
            evals += 1;
            let own = stmt_rows_of(line);
            let (eff_line, rows) = if own.is_empty() { (line + 1, stmt_rows_of(line + 1)) } else { (line, own) };
            let d = s.dbg.as_mut().unwrap();
            let res = d.set_breakpoint_at_line(&tpl, line);
            match res {
                Ok(views) => {
                    nontrivial += 1;
                    let addrs: Vec<u64> = views
                        .iter()
                        .map(|v| match v.addr {
                            Address::Relocated(a) => a.as_u64() - base,
                            Address::Global(a) => u64::from(a),
                        })
                        .collect();
                    let got_set: BTreeSet<u64> = addrs.iter().copied().collect();
                    drop(views);
                    let row_addrs: BTreeSet<u64> = rows.iter().map(|r| r.addr).collect();
                    for a in &got_set {
                        if !row_addrs.contains(a) {
                            let r = dref.row_for(*a);
                            findings.push(json!({"sig": format!("C04:line->addr:not-a-statement-of-the-line{}", if eff_line != line { ":fallback" } else { "" }), "detail": format!("break {tpl}:{line} chose {a:#x}, which is {:?}; the statement rows of line {eff_line} are {:x?}", r.map(|r| (r.line, r.is_stmt)), row_addrs)}));
                        }
                    }
                    // every instance containing the line gets its own breakpoint
                    for f in &live {
                        // statements of the line in the body of the instance (rows of the function's
                        // opening line inside its prologue do not count)
                        let pe = dref.rows.iter().filter(|r| r.prologue_end && !r.end_sequence && f.ranges.iter().any(|(lo, hi)| *lo <= r.addr && r.addr < *hi)).map(|r| r.addr).min();
                        let has = rows.iter().any(|r| f.ranges.iter().any(|(lo, hi)| *lo <= r.addr && r.addr < *hi) && pe.map(|p| r.addr >= p).unwrap_or(true));
                        let innermost = rows.iter().any(|r| dref.func_at(r.addr).map(|g| g.offset == f.offset && g.unit == f.unit).unwrap_or(false));
                        if has && innermost && !got_set.iter().any(|a| f.ranges.iter().any(|(lo, hi)| *lo <= *a && *a < *hi)) {
                            // classify: the debugger keeps only rows with the column of the first row it found
                            let chosen_cols: BTreeSet<u64> = rows.iter().filter(|r| got_set.contains(&r.addr)).map(|r| r.col).collect();
                            let missed_cols: BTreeSet<u64> = rows.iter().filter(|r| f.ranges.iter().any(|(lo, hi)| *lo <= r.addr && r.addr < *hi)).map(|r| r.col).collect();
                            let class = if chosen_cols.is_disjoint(&missed_cols) { ":rows-of-that-instance-have-another-column" } else { "" };
                            findings.push(json!({"sig": format!("C04:line->addr:instance-without-breakpoint{class}"), "detail": format!("break {tpl}:{line}: `{}` at {:x?} contains statements of line {eff_line} but got no breakpoint (chosen: {:x?})", f.name, f.ranges, got_set)}));
                        }
                    }
                    if rows.is_empty() {
                        findings.push(json!({"sig": "C04:line->addr:breakpoint-for-line-without-code", "detail": format!("break {tpl}:{line} chose {got_set:x?} but neither line {line} nor {} has statement rows", line + 1)}));
                    }
                    let _ = s.dbg.as_mut().unwrap().remove_breakpoint_at_line(&tpl, line);
                    for a in &got_set {
                        let _ = s.dbg.as_mut().unwrap().remove_breakpoint(Address::Relocated(RelocatedAddress::from(a + base)));
                    }
                }
                Err(e) => {
                    if !rows.is_empty() {
                        findings.push(json!({"sig": "C04:line->addr:refused-line-with-code", "detail": format!("break {tpl}:{line} failed ({e}) although line {eff_line} has statement rows {:x?}", rows.iter().map(|r| r.addr).collect::<Vec<_>>())}));
                    }
                }
            }
        }
        if samples.len() < 3 && !stmt_rows_of(line).is_empty() {
            samples.push(json!({"line": line, "stmt_rows": stmt_rows_of(line).iter().map(|r| format!("{:#x}", r.addr)).collect::<Vec<_>>()}));
        }
    }
    // ---- 3. function name -> address
    for name in fn_names {
        evals += 1;
        let instances: Vec<&dwarfref::Func> = live.iter().copied().filter(|f| f.name.split('<').next() == Some(name.as_str())).collect();
        let d = s.dbg.as_mut().unwrap();
        match d.set_breakpoint_at_fn(name) {
            Ok(views) => {
                nontrivial += 1;
                let addrs: Vec<u64> = views
                    .iter()
                    .map(|v| match v.addr {
                        Address::Relocated(a) => a.as_u64().wrapping_sub(base),
                        Address::Global(a) => u64::from(a),
                    })
                    .collect();
                drop(views);
                for a in &addrs {
                    // another object (the interpreter, libc) may define the same name: the property
                    // speaks about this binary's DWARF, locations in other objects are C17/C18's
                    if !text0.iter().any(|(t, sz)| *t <= *a && *a < t + sz) {
                        continue;
                    }
                    let inside = instances.iter().find(|f| f.ranges.iter().any(|(lo, hi)| *lo <= *a && *a < *hi));
                    match inside {
                        None => findings.push(json!({"sig": "C04:fn->addr:address-outside-function", "detail": format!("break {name} chose {a:#x}, which is in none of the live instances {:x?}", instances.iter().map(|f| f.ranges.clone()).collect::<Vec<_>>())})),
                        Some(f) => {
                            let pe = dref.rows.iter().find(|r| r.prologue_end && !r.end_sequence && f.ranges.iter().any(|(lo, hi)| *lo <= r.addr && r.addr < *hi));
                            if let Some(pe) = pe {
                                if pe.addr != *a {
                                    findings.push(json!({"sig": "C04:fn->addr:not-at-prologue-end", "detail": format!("break {name}: `{}` has a prologue_end row at {:#x}, the breakpoint is at {a:#x}", f.name, pe.addr)}));
                                }
                            }
                        }
                    }
                }
                for f in &instances {
                    if !addrs.iter().any(|a| f.ranges.iter().any(|(lo, hi)| *lo <= *a && *a < *hi)) {
                        findings.push(json!({"sig": "C04:fn->addr:instance-without-breakpoint", "detail": format!("break {name}: instance `{}` at {:x?} got no breakpoint", f.name, f.ranges)}));
                    }
                }
                let _ = s.dbg.as_mut().unwrap().remove_breakpoint_at_fn(name);
                for a in &addrs {
                    let _ = s.dbg.as_mut().unwrap().remove_breakpoint(Address::Relocated(RelocatedAddress::from(a.wrapping_add(base))));
                }
            }
            Err(e) => {
                if !instances.is_empty() {
                    findings.push(json!({"sig": "C04:fn->addr:refused-existing-function", "detail": format!("break {name} failed: {e}")}));
                }
            }
        }
    }
    json!({"findings": findings, "evaluations": evals, "nontrivial": nontrivial, "user_functions": user.iter().map(|f| f.name.clone()).collect::<Vec<_>>(), "max_line": max_line, "samples": samples})
}
