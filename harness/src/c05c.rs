//! C05 on frames whose unwind information lives in `.debug_frame` only (C code built without
//! unwind tables), in position-independent and fixed-address executables, next to the usual
//! `.eh_frame` case.

use crate::common::{Part, Tier};
use serde_json::{Value, json};
use std::time::Duration;

const SRC: &str = r#"#include <stdio.h>
__attribute__((noinline)) int leaf(int x) {
    volatile int y = x * 2;
    return y + 1;
}
__attribute__((noinline)) int middle(int x) {
    int r = leaf(x) + 3;
    return r;
}
__attribute__((noinline)) int outer(int x) {
    int r = middle(x) + 5;
    return r;
}
int main(void) {
    int r = outer(4);
    printf("%d\n", r);
    return 0;
}
"#;

pub fn build() -> Result<Vec<(String, String)>, String> {
    let dir = crate::common::build_dir().join("cframes");
    std::fs::create_dir_all(&dir).map_err(|e| e.to_string())?;
    let src = dir.join("cframes.c");
    let fresh = std::fs::read_to_string(&src).map(|t| t == SRC).unwrap_or(false);
    if !fresh {
        std::fs::write(&src, SRC).map_err(|e| e.to_string())?;
    }
    let mut out = vec![];
    for (name, flags, strip) in [
        ("eh-pie", vec!["-pie", "-fPIE"], false),
        ("eh-nopie", vec!["-no-pie", "-fno-PIE"], false),
        ("debugframe-pie", vec!["-pie", "-fPIE", "-fno-asynchronous-unwind-tables", "-fno-unwind-tables"], true),
        ("debugframe-nopie", vec!["-no-pie", "-fno-PIE", "-fno-asynchronous-unwind-tables", "-fno-unwind-tables"], true),
    ] {
        let exe = dir.join(format!("cframes-{name}"));
        if !fresh || !exe.exists() {
            let o = std::process::Command::new("cc").args(["-g", "-O0"]).args(&flags).arg("-o").arg(&exe).arg(&src).output().map_err(|e| e.to_string())?;
            if !o.status.success() {
                return Err(String::from_utf8_lossy(&o.stderr).to_string());
            }
            if strip {
                // what is left of .eh_frame comes from the C runtime objects: the functions of this
                // file are described by .debug_frame only
                let _ = std::process::Command::new("objcopy").args(["--remove-section", ".eh_frame", "--remove-section", ".eh_frame_hdr"]).arg(&exe).output();
            }
        }
        out.push((name.to_string(), exe.display().to_string()));
    }
    Ok(out)
}

pub fn part_c_frames(_tier: Tier) -> Part {
    let mut part = Part::new("c05_debug_frame_and_c_code");
    part.rule = "a C program leaf <- middle <- outer <- main built four ways: {position independent, fixed address} x {unwind tables in .eh_frame, none (-fno-asynchronous-unwind-tables, .eh_frame removed): .debug_frame only}; stopped at a breakpoint in leaf the backtrace must name exactly leaf, middle, outer, main in this order (whatever follows main is not judged), the innermost frame at the real pc, and every further frame's address must lie inside the ELF symbol of the function it names, relocated by the load address of the executable".into();
    let bins = match build() {
        Ok(b) => b,
        Err(e) => {
            part.violate("MACHINERY:cframes-build", e, json!(null));
            return part;
        }
    };
    let runs: Vec<((String, String), Vec<Value>, crate::mt::Run)> = {
        use rayon::prelude::*;
        let pool = rayon::ThreadPoolBuilder::new().num_threads(4).build().unwrap();
        pool.install(|| {
            bins.par_iter()
                .map(|(name, exe)| {
                    let cmds = vec![json!({"op": "break_fn", "name": "leaf"}), json!({"op": "start", "bt": true}), json!({"op": "sharedlibs"}), json!({"op": "continue"})];
                    let run = crate::mt::session(exe, |obs| cmds.get(obs.len()).cloned(), Duration::from_secs(60), cmds.len());
                    ((name.clone(), exe.clone()), cmds, run)
                })
                .collect()
        })
    };
    for ((name, exe), cmds, run) in runs {
        let replay = json!({"engine": "mt", "exe": exe, "commands": cmds});
        part.evaluations += 1;
        part.states += run.obs.len() as u64;
        part.transitions += run.obs.len() as u64;
        part.traces_validated += 1;
        if run.hang_at.is_some() || run.crashed.is_some() || run.obs.len() < 4 {
            part.violate("C05:c-frames:session-broke", format!("[{name}] hang {:?} crash {:?}", run.hang_at, run.crashed), replay);
            continue;
        }
        let stop = &run.obs[1];
        if stop["res"]["kind"] != "breakpoint" {
            part.violate("C05:c-frames:no-stop-in-leaf", format!("[{name}] {}", stop["res"]), replay);
            continue;
        }
        let bt: Vec<(String, u64)> = stop["bt"].as_array().map(|b| b.iter().map(|f| (f["fn"].as_str().unwrap_or("?").trim_start_matches("::").to_string(), f["ip"].as_u64().unwrap_or(0))).collect()).unwrap_or_default();
        let names: Vec<&str> = bt.iter().map(|f| f.0.as_str()).collect();
        let want = ["leaf", "middle", "outer", "main"];
        part.sample(json!({"binary": name, "backtrace": names}));
        if names.len() < 4 || names[..4] != want {
            part.violate(format!("C05:c-frames:backtrace-differs:{}", if name.starts_with("debugframe") { "debug_frame-only" } else { "eh_frame" }), format!("[{name}] backtrace {names:?}, the call stack is {want:?}"), replay.clone());
            continue;
        }
        // addresses: frame 0 = pc; the others inside the named function
        let base = run.obs[2]["res"]["maps"].as_array().and_then(|m| m.iter().find(|m| m["path"].as_str().map(|p| p.ends_with(&format!("cframes-{name}"))).unwrap_or(false))).and_then(|m| m["from"].as_u64()).unwrap_or(0);
        let pie = !name.ends_with("nopie");
        let data = std::fs::read(&exe).unwrap_or_default();
        let syms: Vec<(String, u64, u64)> = object::File::parse(&*data)
            .map(|f| {
                use object::{Object, ObjectSymbol};
                f.symbols().filter(|s| s.kind() == object::SymbolKind::Text && s.size() > 0).filter_map(|s| s.name().ok().map(|n| (n.to_string(), s.address(), s.size()))).collect()
            })
            .unwrap_or_default();
        if bt[0].1 != stop["res"]["pc"].as_u64().unwrap_or(0) {
            part.violate("C05:c-frames:innermost-frame-not-at-pc", format!("[{name}] frame 0 at {:#x}, pc {:#x}", bt[0].1, stop["res"]["pc"].as_u64().unwrap_or(0)), replay.clone());
        }
        for (k, (f, ip)) in bt.iter().enumerate().take(4) {
            let Some((_, a, sz)) = syms.iter().find(|s| s.0 == *f) else {
                part.violate("MACHINERY:cframes-no-symbol", format!("[{name}] {f}"), replay.clone());
                continue;
            };
            let lo = a + if pie { base } else { 0 };
            if !(lo <= *ip && *ip <= lo + sz) {
                part.violate("C05:c-frames:frame-address-outside-its-function", format!("[{name}] frame {k} `{f}` at {ip:#x}, the function occupies {lo:#x}..{:#x}", lo + sz), replay.clone());
            }
            part.distinct_nontrivial += 1;
        }
        if run.obs[3]["res"]["kind"] != "exit" {
            part.violate("C05:c-frames:program-did-not-finish", format!("[{name}] {}", run.obs[3]["res"]), replay.clone());
        }
    }
    part.bounds = json!({"binaries": 4, "frames": 4});
    part
}
