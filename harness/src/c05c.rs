//! C05 on frames whose unwind information lives in `.debug_frame` only (C code built without
//! unwind tables), in position-independent and fixed-address executables, next to the usual
//! `.eh_frame` case.

use crate::common::{Part, Tier};
use serde_json::{Value, json};
use std::time::Duration;

const SRC: &str = r#"#include <stdio.h>
__attribute__((noinline)) int leaf(int x) {
    volatile int y = x * 2;
    return y + 1;
}
__attribute__((noinline)) int middle(int x) {
    int r = leaf(x + 100) + 3;
    return r;
}
__attribute__((noinline)) int outer(int x) {
    int r = middle(x + 10) + 5;
    return r;
}
int main(void) {
    int r = outer(4);
    printf("%d\n", r);
    return 0;
}
"#;

pub fn build() -> Result<Vec<(String, String)>, String> {
    let dir = crate::common::build_dir().join("cframes");
    std::fs::create_dir_all(&dir).map_err(|e| e.to_string())?;
    let src = dir.join("cframes.c");
    let fresh = std::fs::read_to_string(&src).map(|t| t == SRC).unwrap_or(false);
    if !fresh {
        std::fs::write(&src, SRC).map_err(|e| e.to_string())?;
    }
    let mut out = vec![];
    for (name, flags, strip) in [
        ("eh-pie", vec!["-pie", "-fPIE"], false),
        ("eh-nopie", vec!["-no-pie", "-fno-PIE"], false),
        ("debugframe-pie", vec!["-pie", "-fPIE", "-fno-asynchronous-unwind-tables", "-fno-unwind-tables"], true),
        ("debugframe-nopie", vec!["-no-pie", "-fno-PIE", "-fno-asynchronous-unwind-tables", "-fno-unwind-tables"], true),
    ] {
        let exe = dir.join(format!("cframes-{name}"));
        if !fresh || !exe.exists() {
            let o = std::process::Command::new("cc").args(["-g", "-O0"]).args(&flags).arg("-o").arg(&exe).arg(&src).output().map_err(|e| e.to_string())?;
            if !o.status.success() {
                return Err(String::from_utf8_lossy(&o.stderr).to_string());
            }
            if strip {
                // what is left of .eh_frame comes from the C runtime objects: the functions of this
                // file are described by .debug_frame only
                let _ = std::process::Command::new("objcopy").args(["--remove-section", ".eh_frame", "--remove-section", ".eh_frame_hdr"]).arg(&exe).output();
            }
        }
        out.push((name.to_string(), exe.display().to_string()));
    }
    Ok(out)
}

fn want_names(k: usize) -> &'static str {
    ["leaf", "middle", "outer", "main"][k.min(3)]
}

pub fn part_c_frames(_tier: Tier) -> Part {
    let mut part = Part::new("c05_debug_frame_and_c_code");
    part.rule = "a C program leaf <- middle <- outer <- main built four ways: {position independent, fixed address} x {unwind tables in .eh_frame, none (-fno-asynchronous-unwind-tables, .eh_frame removed): .debug_frame only}; stopped at a breakpoint in leaf the backtrace must name exactly leaf, middle, outer, main in this order (whatever follows main is not judged), the innermost frame at the real pc, and every further frame's address must lie inside the ELF symbol of the function it names, relocated by the load address of the executable; with each of the first three frames selected its parameter x must show the value that activation was called with (114, 14, 4: gcc addresses parameters off the CFA of the selected frame)".into();
    let bins = match build() {
        Ok(b) => b,
        Err(e) => {
            part.violate("MACHINERY:cframes-build", e, json!(null));
            return part;
        }
    };
    let runs: Vec<((String, String), Vec<Value>, crate::mt::Run)> = {
        use rayon::prelude::*;
        let pool = rayon::ThreadPoolBuilder::new().num_threads(4).build().unwrap();
        pool.install(|| {
            bins.par_iter()
                .map(|(name, exe)| {
                    let cmds = vec![json!({"op": "break_fn", "name": "leaf"}), json!({"op": "start", "bt": true}), json!({"op": "sharedlibs"}), json!({"op": "values", "names": [], "derefs": [], "frames": 3}), json!({"op": "continue"})];
                    let run = crate::mt::session(exe, |obs| cmds.get(obs.len()).cloned(), Duration::from_secs(60), cmds.len());
                    ((name.clone(), exe.clone()), cmds, run)
                })
                .collect()
        })
    };
    for ((name, exe), cmds, run) in runs {
        let replay = json!({"engine": "mt", "exe": exe, "commands": cmds});
        part.evaluations += 1;
        part.states += run.obs.len() as u64;
        part.transitions += run.obs.len() as u64;
        part.traces_validated += 1;
        if run.hang_at.is_some() || run.crashed.is_some() || run.obs.len() < 5 {
            part.violate("C05:c-frames:session-broke", format!("[{name}] hang {:?} crash {:?}", run.hang_at, run.crashed), replay);
            continue;
        }
        let stop = &run.obs[1];
        if stop["res"]["kind"] != "breakpoint" {
            part.violate("C05:c-frames:no-stop-in-leaf", format!("[{name}] {}", stop["res"]), replay);
            continue;
        }
        let bt: Vec<(String, u64)> = stop["bt"].as_array().map(|b| b.iter().map(|f| (f["fn"].as_str().unwrap_or("?").trim_start_matches("::").to_string(), f["ip"].as_u64().unwrap_or(0))).collect()).unwrap_or_default();
        let names: Vec<&str> = bt.iter().map(|f| f.0.as_str()).collect();
        let want = ["leaf", "middle", "outer", "main"];
        part.sample(json!({"binary": name, "backtrace": names}));
        if names.len() < 4 || names[..4] != want {
            part.violate(format!("C05:c-frames:backtrace-differs:{}", if name.starts_with("debugframe") { "debug_frame-only" } else { "eh_frame" }), format!("[{name}] backtrace {names:?}, the call stack is {want:?}"), replay.clone());
            continue;
        }
        // addresses: frame 0 = pc; the others inside the named function
        let base = run.obs[2]["res"]["maps"].as_array().and_then(|m| m.iter().find(|m| m["path"].as_str().map(|p| p.ends_with(&format!("cframes-{name}"))).unwrap_or(false))).and_then(|m| m["from"].as_u64()).unwrap_or(0);
        let pie = !name.ends_with("nopie");
        let data = std::fs::read(&exe).unwrap_or_default();
        let syms: Vec<(String, u64, u64)> = object::File::parse(&*data)
            .map(|f| {
                use object::{Object, ObjectSymbol};
                f.symbols().filter(|s| s.kind() == object::SymbolKind::Text && s.size() > 0).filter_map(|s| s.name().ok().map(|n| (n.to_string(), s.address(), s.size()))).collect()
            })
            .unwrap_or_default();
        if bt[0].1 != stop["res"]["pc"].as_u64().unwrap_or(0) {
            part.violate("C05:c-frames:innermost-frame-not-at-pc", format!("[{name}] frame 0 at {:#x}, pc {:#x}", bt[0].1, stop["res"]["pc"].as_u64().unwrap_or(0)), replay.clone());
        }
        for (k, (f, ip)) in bt.iter().enumerate().take(4) {
            let Some((_, a, sz)) = syms.iter().find(|s| s.0 == *f) else {
                part.violate("MACHINERY:cframes-no-symbol", format!("[{name}] {f}"), replay.clone());
                continue;
            };
            let lo = a + if pie { base } else { 0 };
            if !(lo <= *ip && *ip <= lo + sz) {
                part.violate("C05:c-frames:frame-address-outside-its-function", format!("[{name}] frame {k} `{f}` at {ip:#x}, the function occupies {lo:#x}..{:#x}", lo + sz), replay.clone());
            }
            part.distinct_nontrivial += 1;
        }
        // the parameter `x` of every activation (gcc addresses it off DW_OP_call_frame_cfa: the
        // CFA of the SELECTED frame): leaf 114, middle 14, outer 4
        for (k, want) in [(0usize, "114"), (1, "14"), (2, "4")] {
            let args = run.obs[3]["res"]["frames"][k]["args"]["Ok"].as_array().cloned().unwrap_or_default();
            let got = args.iter().find(|a| a["name"] == "x").and_then(|a| a["v"]["v"].as_str().map(|s| s.to_string()));
            if got.as_deref() != Some(want) {
                part.violate(format!("C05:c-frames:parameter-of-selected-frame-wrong:{}", if k == 0 { "innermost" } else { "caller" }), format!("[{name}] frame {k} ({}): x shown as {got:?}, that activation was called with {want}", want_names(k)), replay.clone());
            } else {
                part.distinct_nontrivial += 1;
            }
        }
        if run.obs[4]["res"]["kind"] != "exit" {
            part.violate("C05:c-frames:program-did-not-finish", format!("[{name}] {}", run.obs[4]["res"]), replay.clone());
        }
    }
    part.bounds = json!({"binaries": 4, "frames": 4});
    part
}

const SIG_SRC: &str = r#"use std::sync::atomic::{AtomicU64, Ordering};
extern "C" {
    fn signal(signum: i32, handler: usize) -> usize;
    fn raise(signum: i32) -> i32;
}
static HITS: AtomicU64 = AtomicU64::new(0);
#[inline(never)]
fn in_handler(n: u64) -> u64 {
    HITS.fetch_add(n, Ordering::SeqCst) + 1
}
extern "C" fn on_sig(sig: i32) {
    let r = in_handler(sig as u64);
    std::hint::black_box(r);
}
#[inline(never)]
fn trigger(k: i32) -> i32 {
    unsafe { raise(k) }
}
fn main() {
    unsafe { signal(10, on_sig as usize) };
    let r = trigger(10);
    println!("{} {}", r, HITS.load(Ordering::SeqCst));
}
"#;

/// C05 inside a signal handler of a libc-linked program: the handler was called by the kernel
/// through libc's signal trampoline, whose frame is described by CFI expressions.
pub fn part_signal_frames(_tier: Tier) -> Part {
    let mut part = Part::new("c05_signal_handler_frames");
    part.rule = "std-linked program that installs a handler with signal(2) and raises the signal from trigger() called by main; at a breakpoint in a function called by the handler the backtrace must be available, begin with that function and the handler at the real pc / inside their ELF symbols, and lead on through the signal trampoline to the interrupted frames: trigger and main must follow, in this order".into();
    let dir = crate::common::build_dir().join("sigbt");
    let _ = std::fs::create_dir_all(&dir);
    let src = dir.join("sigbt.rs");
    let exe = dir.join("sigbt");
    let fresh = std::fs::read_to_string(&src).map(|t| t == SIG_SRC).unwrap_or(false) && exe.exists();
    if !fresh {
        let _ = std::fs::write(&src, SIG_SRC);
        let out = std::process::Command::new("rustc").current_dir("/").args(["+1.89", "--edition", "2021", "-g", "-C", "opt-level=0", "-A", "warnings", "-o"]).arg(&exe).arg(&src).output();
        if !out.map(|o| o.status.success()).unwrap_or(false) {
            part.violate("MACHINERY:sigbt-build", "rustc failed".to_string(), json!(null));
            return part;
        }
    }
    let exe = exe.display().to_string();
    let cmds = vec![json!({"op": "break_fn", "name": "in_handler"}), json!({"op": "start", "bt": true}), json!({"op": "continue", "bt": true}), json!({"op": "continue", "bt": true}), json!({"op": "continue"})];
    let run = crate::mt::session(
        &exe,
        |obs| {
            if obs.last().map(|o| o["res"]["kind"] == "exit").unwrap_or(false) {
                return None;
            }
            cmds.get(obs.len()).cloned()
        },
        Duration::from_secs(60),
        cmds.len(),
    );
    let replay = json!({"engine": "mt", "exe": exe, "commands": cmds});
    part.evaluations += 1;
    part.states += run.obs.len() as u64;
    part.transitions += run.obs.len() as u64;
    part.traces_validated += 1;
    if run.hang_at.is_some() || run.crashed.is_some() {
        part.violate("C05:signal-frame:session-broke", format!("hang {:?} crash {:?}", run.hang_at, run.crashed), replay);
        return part;
    }
    let Some(stop) = run.obs.iter().find(|o| o["res"]["kind"] == "breakpoint") else {
        part.violate("MACHINERY:sigbt-no-stop-in-handler", format!("{:?}", run.obs.iter().map(|o| o["res"].clone()).collect::<Vec<_>>()), replay);
        return part;
    };
    let names: Vec<String> = stop["bt"].as_array().map(|b| b.iter().map(|f| f["fn"].as_str().unwrap_or("?").to_string()).collect()).unwrap_or_default();
    part.sample(json!({"backtrace_in_handler": names, "error": stop["bt_err"]}));
    if stop["bt"].is_null() || names.is_empty() {
        part.violate("C05:signal-frame:backtrace-failed", format!("at the breakpoint inside the handler the backtrace is not available: {}", stop["bt_err"]), replay.clone());
    } else {
        if !(names.len() >= 2 && names[0].ends_with("in_handler") && names[1].ends_with("on_sig")) {
            part.violate("C05:signal-frame:handler-frames-wrong", format!("backtrace {names:?} does not begin with in_handler, on_sig"), replay.clone());
        } else {
            part.distinct_nontrivial += 1;
        }
        let t = names.iter().position(|n| n.ends_with("trigger"));
        let m = names.iter().position(|n| n.ends_with("::main"));
        if !(matches!((t, m), (Some(t), Some(m)) if 1 < t && t < m)) {
            part.violate("C05:signal-frame:interrupted-frames-missing", format!("backtrace {names:?}: the frames that were interrupted by the signal (.. trigger, main) do not follow the handler"), replay.clone());
        }
    }
    if !run.obs.iter().any(|o| o["res"]["kind"] == "exit") {
        part.violate("C05:signal-frame:program-did-not-finish", format!("{:?}", run.obs.last().map(|o| o["res"].clone())), replay);
    }
    part.bounds = json!({"programs": 1});
    part
}
