mod c01;
mod c04;
mod c04w;
mod c05c;
mod c06s;
mod c07;
mod c08;
mod c08w;
mod c12;
mod c14;
mod c14s;
mod c15;
mod c15w;
mod c15d;
mod c16;
mod c16w;
mod c17;
mod c17e;
mod c18s;
mod c19;
mod c19r;
mod common;
mod corpus;
mod dwarfref;
mod e2w;
mod dapw;
mod dapx;
mod e2x;
mod isession;
mod mt;
mod reftrace;
mod sched;
mod simk;
mod valw;

use common::*;
use serde_json::Value;

fn usage() -> ! {
    eprintln!("usage: bsmc check <ID> --tier quick|thorough | bsmc replay <file> | bsmc worker <kind>");
    std::process::exit(2)
}

fn main() {
    let args: Vec<String> = std::env::args().collect();
    if args.len() < 2 {
        usage();
    }
    match args[1].as_str() {
        "check" => {
            let id = args.get(2).cloned().unwrap_or_else(|| usage());
            let mut tier = match std::env::var("VERIF_TIER").as_deref() {
                Ok("thorough") => Tier::Thorough,
                _ => Tier::Quick,
            };
            let mut i = 3;
            while i < args.len() {
                if args[i] == "--tier" {
                    tier = match args.get(i + 1).map(|s| s.as_str()) {
                        Some("thorough") => Tier::Thorough,
                        Some("quick") => Tier::Quick,
                        _ => usage(),
                    };
                    i += 1;
                }
                i += 1;
            }
            let code = run_check(&id, tier);
            std::process::exit(code);
        }
        "replay" => {
            let path = args.get(2).cloned().unwrap_or_else(|| usage());
            std::process::exit(replay(&path));
        }
        "trace" => {
            let exe = args.get(2).cloned().unwrap_or_else(|| usage());
            match reftrace::trace_cached(&exe) {
                Ok((t, _)) => {
                    let fuzzy_r = t.steps.iter().filter(|s| s.regs == 0).count();
                    let fuzzy_m = t.steps.iter().filter(|s| s.mem == 0).count();
                    let maxd = t.stacks.iter().map(|s| s.len()).max().unwrap_or(0);
                    println!("steps={} fuzzy_regs={} fuzzy_mem={} stacks={} max_depth={} exit={} stdout={:?}", t.steps.len(), fuzzy_r, fuzzy_m, t.stacks.len(), maxd, t.exit_code, t.stdout);
                }
                Err(e) => {
                    eprintln!("trace failed: {e}");
                    std::process::exit(2);
                }
            }
        }
        "part" => {
            // run one part alone (development aid): bsmc part <name> [quick|thorough]
            let name = args.get(2).cloned().unwrap_or_default();
            let tier = if args.get(3).map(|s| s == "thorough").unwrap_or(false) { Tier::Thorough } else { Tier::Quick };
            // a single part is not a check: never let it overwrite the registered evidence files
            if std::env::var("BSMC_OUT").is_err() {
                unsafe { std::env::set_var("BSMC_OUT", "/tmp/bsmc_part") };
            }
            let (prop, part) = match name.as_str() {
                "c11_attach" => ("C11", mt::part_c11_attach(tier)),
                "c06_std" => ("C06", c06s::part_std(tier, false)),
                "c08_exec" => ("C08", c08::part_exec(tier)),
                "c08_poison" => ("C08", c08::part_poison(tier)),
                "c08_dap" => ("C08", c08::part_dap_args(tier)),
                "c16_sweep" => ("C16", c16::part_sweep(tier)),
                "c14_badaddr" => ("C14", c01::part_c14_refused_addresses(tier)),
                "c19_closures" => ("C19", c19::part_c19_closures(tier)),
                "c16_vard" => ("C16", c06s::part_vard(tier)),
                "c18_shlib" => ("C18", c18s::part_shlib(tier)),
                "c17_names" => ("C17", c17e::part_names(tier)),
                "c17_crates" => ("C17", c17e::part_crates(tier)),
                "c12_second" => ("C12", c12::part_second_lifecycle(tier)),
                "c13_overlap" => ("C13", c12::part_c13_overlap(tier)),
                "c13_data" => ("C13", c12::part_c13_data(tier)),
                "c14_scope" => ("C14", c14s::part_scope(tier)),
                "c03_inl" => ("C03", c01::part_c03_inlined(tier)),
                "c19_regs" => ("C19", c19r::part_registers(tier, "C19")),
                "c04_c" => ("C04", c04::part_c_binary(tier)),
                "c11_stepexit" => ("C11", c01::part_c11_step_into_exit(tier)),
                "c16_blocked" => ("C16", mt::part_c16_blocked_thread(tier)),
                "c05_sig" => ("C05", c05c::part_signal_frames(tier)),
                "c05_c" => ("C05", c05c::part_c_frames(tier)),
                "c05_opt" => ("C05", c19r::part_registers(tier, "C05")),
                "c17_objects" => ("C17", c18s::part_names_across_objects(tier)),
                "c15_dap" => ("C15", c15d::part_dap_data(tier)),
                "c05_threads" => ("C05", mt::part_c05_threads(tier)),
                "c07_std" => ("C07", c06s::part_std(tier, true)),
                "c09_real" => ("C09", mt::part_c09_real(tier)),
                "c14_threads" => ("C14", mt::part_c14_threads(tier)),
                "c14_sim" => ("C14", simk::part_c14_sim(tier)),
                "c11_sim" => ("C11", simk::part_c11_sim(tier)),
                "c10_sim" => ("C10", simk::part_c10_sim(tier)),
                "c10_witnesses" => ("C10", mt::part_c10_witnesses(tier)),
                "c09_sim" => ("C09", simk::part_c09(tier)),
                _ => usage(),
            };
            let mut r = Report::new(prop, tier, "model_checking");
            r.parts.push(part);
            std::process::exit(finish(r));
        }
        "corpus-mt" => {
            let w: usize = args.get(2).and_then(|s| s.parse().ok()).unwrap_or(2);
            let i: u64 = args.get(3).and_then(|s| s.parse().ok()).unwrap_or(5);
            let m: u64 = args.get(4).and_then(|s| s.parse().ok()).unwrap_or(3);
            let sp: u64 = args.get(5).and_then(|s| s.parse().ok()).unwrap_or(0);
            match corpus::build(&corpus::generate_mt(w, i, m, sp), &corpus::Config::default_cfg()) {
                Ok(b) => println!("{} {}", b.exe, b.src_path),
                Err(e) => {
                    eprintln!("{e}");
                    std::process::exit(2);
                }
            }
        }
        "corpus" => {
            let mut bodies = corpus::quick_bodies();
            bodies.push(vec![corpus::Stmt::Raise(10), corpus::Stmt::CallF, corpus::Stmt::Raise(14)]);
            bodies.push(vec![corpus::Stmt::RaiseBurst, corpus::Stmt::Assign]);
            match corpus::build_many(&bodies, &[corpus::Config::default_cfg()]) {
                Ok(bs) => {
                    for b in bs {
                        println!("{}", b.exe);
                    }
                }
                Err(e) => {
                    eprintln!("{e}");
                    std::process::exit(2);
                }
            }
        }
        "worker" => {
            let kind = args.get(2).cloned().unwrap_or_else(|| usage());
            worker(&kind);
        }
        _ => usage(),
    }
}

fn run_check(id: &str, tier: Tier) -> i32 {
    match id {
        "C01" => {
            let mut r = Report::new("C01", tier, "model_checking");
            r.parts.push(c01::part_c01(tier));
            finish(r)
        }
        "C02" => {
            let mut r = Report::new("C02", tier, "model_checking");
            r.parts.push(c01::part_c02(tier));
            finish(r)
        }
        "C03" => {
            let mut r = Report::new("C03", tier, "model_checking");
            r.parts.push(c01::part_c03(tier));
            r.parts.push(c01::part_c03_inlined(tier));
            finish(r)
        }
        "C05" => {
            let mut r = Report::new("C05", tier, "model_checking");
            r.parts.push(c01::part_c05(tier));
            r.parts.push(c12::part_c05_dap_frames(tier));
            r.parts.push(mt::part_c05_threads(tier));
            r.parts.push(c19r::part_registers(tier, "C05"));
            r.parts.push(c05c::part_c_frames(tier));
            r.parts.push(c05c::part_signal_frames(tier));
            finish(r)
        }
        "C04" => {
            let mut r = Report::new("C04", tier, "exploration");
            r.parts.push(c04::part_sweep(tier));
            r.parts.push(c04::part_c_binary(tier));
            finish(r)
        }
        "C06" => {
            let mut r = Report::new("C06", tier, "exploration");
            r.parts.push(c19::part_c06_core(tier));
            r.parts.push(c06s::part_std(tier, false));
            finish(r)
        }
        "C07" => {
            let mut r = Report::new("C07", tier, "exploration");
            r.parts.push(c07::part_parse(tier));
            r.parts.push(c19::part_c07_meaning(tier));
            r.parts.push(c06s::part_std(tier, true));
            finish(r)
        }
        "C08" => {
            let mut r = Report::new("C08", tier, "exploration");
            r.parts.push(c08::part_parsers(tier));
            r.parts.push(c08::part_exec(tier));
            r.parts.push(c08::part_poison(tier));
            r.parts.push(c08::part_dap_args(tier));
            finish(r)
        }
        "C09" => {
            let mut r = Report::new("C09", tier, "model_checking");
            r.parts.push(simk::part_c09(tier));
            r.parts.push(simk::part_c09_temp(tier));
            r.parts.push(mt::part_c09_real(tier));
            r.parts.push(mt::part_c09_witnesses(tier));
            finish(r)
        }
        "C10" => {
            let mut r = Report::new("C10", tier, "model_checking");
            r.parts.push(c01::part_c10(tier));
            r.parts.push(simk::part_c10_sim(tier));
            r.parts.push(mt::part_c10_witnesses(tier));
            finish(r)
        }
        "C11" => {
            let mut r = Report::new("C11", tier, "model_checking");
            r.parts.push(c01::part_c11(tier));
            r.parts.push(c01::part_c11_step_into_exit(tier));
            r.parts.push(mt::part_c11_attach(tier));
            r.parts.push(simk::part_c11_sim(tier));
            finish(r)
        }
        "C12" => {
            let mut r = Report::new("C12", tier, "model_checking");
            r.parts.push(sched::part_sched(tier));
            r.parts.push(c12::part_histories(tier));
            r.parts.push(c12::part_second_lifecycle(tier));
            finish(r)
        }
        "C13" => {
            let mut r = Report::new("C13", tier, "model_checking");
            // the three parts are independent: run them side by side
            let (a, b, c) = std::thread::scope(|sc| {
                let h = sc.spawn(|| c12::part_c13_overlap(tier));
                let h2 = sc.spawn(|| c12::part_c13_data(tier));
                let a = c12::part_c13(tier);
                let b = h.join().expect("overlap part");
                let c = h2.join().expect("data part");
                (a, b, c)
            });
            r.parts.push(a);
            r.parts.push(b);
            r.parts.push(c);
            finish(r)
        }
        "C14" => {
            let mut r = Report::new("C14", tier, "model_checking");
            r.parts.push(c14::part_dr7(tier));
            r.parts.push(c01::part_c14_regs(tier));
            r.parts.push(c01::part_c14_refused_addresses(tier));
            r.parts.push(mt::part_c14_threads(tier));
            r.parts.push(simk::part_c14_sim(tier));
            r.parts.push(c14s::part_scope(tier));
            finish(r)
        }
        "C15" => {
            let mut r = Report::new("C15", tier, "exploration");
            r.parts.push(c15::part_sweep(tier));
            r.parts.push(mt::part_c15_threads(tier));
            r.parts.push(c15d::part_dap_data(tier));
            finish(r)
        }
        "C16" => {
            let mut r = Report::new("C16", tier, "exploration");
            r.parts.push(c16::part_sweep(tier));
            r.parts.push(c06s::part_vard(tier));
            r.parts.push(mt::part_c16_blocked_thread(tier));
            finish(r)
        }
        "C19" => {
            let mut r = Report::new("C19", tier, "exploration");
            r.parts.push(c19::part_c19(tier));
            r.parts.push(c19::part_c19_closures(tier));
            r.parts.push(c19r::part_registers(tier, "C19"));
            finish(r)
        }
        "C18" => {
            let mut r = Report::new("C18", tier, "model_checking");
            r.parts.push(c01::part_c18(tier));
            r.parts.push(c18s::part_shlib(tier));
            finish(r)
        }
        "C17" => {
            let mut r = Report::new("C17", tier, "model_checking");
            r.parts.push(c17::part_index(tier));
            r.parts.push(c17e::part_names(tier));
            r.parts.push(c17e::part_crates(tier));
            r.parts.push(c18s::part_names_across_objects(tier));
            finish(r)
        }
        _ => {
            eprintln!("unknown check {id}");
            2
        }
    }
}

fn replay(path: &str) -> i32 {
    let s = std::fs::read_to_string(path).expect("read replay");
    let v: Value = serde_json::from_str(&s).expect("replay json");
    let rp = &v["replay"];
    match rp["engine"].as_str().unwrap_or("") {
        "pathindex" => {
            let (got, want) = c17::replay_index(rp);
            let (got2, _) = c17::replay_index(rp);
            println!("real index returned {got:?}, reference {want:?} (second run {got2:?})");
            if got != got2 {
                eprintln!("harness nondeterminism");
                return 2;
            }
            if got != want { 1 } else { 0 }
        }
        "sched" => sched::replay(rp),
        "simk" => simk::replay(rp),
        "mt" => mt::replay(rp),
        "e2e" => e2x::replay(rp),
        "dap" => dapx::replay(rp),
        "c15" => c15::replay(rp),
        "c16" => c16::replay(rp),
        "e2e-script" => c01::replay_bad_addresses(rp),
        "c13-data" => c12::replay_c13_data(rp),
        "c19" => c19::replay(rp),
        "c19-closure" => match c19::run_closure(rp["move"].as_bool().unwrap_or(true)) {
            Ok(v) => {
                let f = v["findings"].as_array().cloned().unwrap_or_default();
                for x in &f {
                    println!("violated {}: {}", x["sig"], x["detail"]);
                }
                if f.is_empty() { 0 } else { 1 }
            }
            Err(e) => {
                eprintln!("{e}");
                2
            }
        },
        "c08-parse" => c08::replay(rp),
        "c04" => c04::replay(rp),
        e => {
            eprintln!("no replay handler for engine {e:?}");
            2
        }
    }
}

fn worker(kind: &str) {
    match kind {
        "sched" => sched::worker(),
        "e2e" => e2w::worker(),
        "dap" => dapw::worker(),
        "multi" => e2w::multi_worker(),
        "reftrace" => e2x::reftrace_worker(),
        _ => {
            eprintln!("unknown worker kind {kind}");
            std::process::exit(2)
        }
    }
}
