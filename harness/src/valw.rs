//! Worker side of C06 / C19: convert the debugger's Value trees into canonical JSON.

use crate::e2w::Session;
use bugstalker::debugger::variable::dqe::{Dqe, Selector};
use bugstalker::debugger::variable::value::specialization::SpecializedValue;
use bugstalker::debugger::variable::value::{SupportedScalar, Value as V};
use serde_json::{Value, json};

pub fn vjson(v: &V) -> Value {
    match v {
        V::Scalar(s) => {
            let val = match &s.value {
                None => Value::Null,
                Some(SupportedScalar::Bool(b)) => json!(b),
                Some(SupportedScalar::Char(c)) => json!(c.to_string()),
                Some(SupportedScalar::F32(f)) => json!(format!("{f}")),
                Some(SupportedScalar::F64(f)) => json!(format!("{f}")),
                Some(SupportedScalar::Empty()) => json!("()"),
                Some(other) => json!(other.to_string()),
            };
            json!({"k": "scalar", "t": s.type_ident.name_fmt(), "v": val})
        }
        V::Struct(st) => {
            let fields: Vec<Value> = st.members.iter().map(|m| json!([m.field_name, vjson(&m.value)])).collect();
            json!({"k": "struct", "t": st.type_ident.name_fmt(), "fields": fields})
        }
        V::Array(a) => json!({"k": "array", "t": a.type_ident.name_fmt(), "items": a.items.as_ref().map(|it| it.iter().map(|i| vjson(&i.value)).collect::<Vec<_>>())}),
        V::CEnum(c) => json!({"k": "cenum", "t": c.type_ident.name_fmt(), "v": c.value}),
        V::RustEnum(e) => json!({"k": "enum", "t": e.type_ident.name_fmt(), "variant": e.value.as_ref().map(|m| m.field_name.clone()), "value": e.value.as_ref().map(|m| vjson(&m.value))}),
        V::Pointer(p) => json!({"k": "pointer", "t": p.type_ident.name_fmt(), "addr": p.value.map(|x| x as usize as u64)}),
        V::Subroutine(_) => json!({"k": "subroutine"}),
        V::Specialized { value, original } => match value {
            Some(SpecializedValue::Str(s)) => json!({"k": "str", "v": s.value}),
            Some(SpecializedValue::String(s)) => json!({"k": "string", "v": s.value}),
            Some(SpecializedValue::Cell(c)) | Some(SpecializedValue::RefCell(c)) => json!({"k": "cell", "value": vjson(c)}),
            Some(SpecializedValue::Vector(v)) | Some(SpecializedValue::VecDeque(v)) => {
                let kind = if matches!(value, Some(SpecializedValue::Vector(_))) { "vec" } else { "vecdeque" };
                let items = v.structure.members.iter().find_map(|m| match &m.value {
                    V::Array(a) => Some(a.items.as_ref().map(|it| it.iter().map(|i| vjson(&i.value)).collect::<Vec<_>>()).unwrap_or_default()),
                    _ => None,
                });
                let cap = v.structure.members.iter().find(|m| m.field_name.as_deref() == Some("cap")).map(|m| vjson(&m.value));
                json!({"k": kind, "t": v.structure.type_ident.name_fmt(), "items": items, "cap": cap})
            }
            Some(SpecializedValue::HashMap(m)) | Some(SpecializedValue::BTreeMap(m)) => {
                let kind = if matches!(value, Some(SpecializedValue::HashMap(_))) { "hashmap" } else { "btreemap" };
                json!({"k": kind, "t": m.type_ident.name_fmt(), "kv": m.kv_items.iter().map(|(k, v)| json!([vjson(k), vjson(v)])).collect::<Vec<_>>()})
            }
            Some(SpecializedValue::HashSet(h)) | Some(SpecializedValue::BTreeSet(h)) => {
                let kind = if matches!(value, Some(SpecializedValue::HashSet(_))) { "hashset" } else { "btreeset" };
                json!({"k": kind, "t": h.type_ident.name_fmt(), "items": h.items.iter().map(vjson).collect::<Vec<_>>()})
            }
            Some(SpecializedValue::Rc(p)) | Some(SpecializedValue::Arc(p)) => json!({"k": "rc", "t": p.type_ident.name_fmt(), "addr": p.value.map(|x| x as usize as u64)}),
            Some(SpecializedValue::Tls(t)) => json!({"k": "tls", "t": t.inner_type.name_fmt(), "value": t.inner_value.as_ref().map(|v| vjson(v))}),
            Some(_) => json!({"k": "specialized-other", "t": original.type_ident.name_fmt()}),
            None => json!({"k": "specialized-none", "t": original.type_ident.name_fmt()}),
        },
        V::CModifiedVariable(c) => json!({"k": "cmod", "value": c.value.as_ref().map(|v| vjson(v))}),
    }
}

fn named(results: Vec<bugstalker::debugger::variable::execute::QueryResult>) -> Vec<Value> {
    results
        .into_iter()
        .map(|q| {
            let name = q.identity().name.clone();
            json!({"name": name, "v": vjson(q.value())})
        })
        .collect()
}

/// {"op":"values","names":[..],"derefs":[..],"frames":N}
pub fn values(s: &mut Session, cmd: &Value) -> Value {
    let names: Vec<String> = serde_json::from_value(cmd["names"].clone()).unwrap_or_default();
    let derefs: Vec<String> = serde_json::from_value(cmd["derefs"].clone()).unwrap_or_default();
    let nframes = cmd["frames"].as_u64().unwrap_or(1);
    let mut frames = vec![];
    for k in 0..nframes {
        if k > 0 || nframes > 1 {
            if s.dbg.as_mut().unwrap().set_frame_into_focus(k as u32).is_err() {
                break;
            }
        }
        let d = s.dbg.as_ref().unwrap();
        let locals = d.read_local_variables().map(named).map_err(|e| format!("{e}"));
        let args = d.read_argument(Dqe::Variable(Selector::Any)).map(named).map_err(|e| format!("{e}"));
        let mut by_name = serde_json::Map::new();
        for n in &names {
            let r = d.read_variable(Dqe::Variable(Selector::by_name(n, true))).map(named).map_err(|e| format!("{e}"));
            by_name.insert(n.clone(), json!(r));
        }
        let mut deref = serde_json::Map::new();
        for n in &derefs {
            let r = d.read_variable(Dqe::Deref(Box::new(Dqe::Variable(Selector::by_name(n, true))))).map(named).map_err(|e| format!("{e}"));
            deref.insert(n.clone(), json!(r));
        }
        frames.push(json!({"frame": k, "locals": locals, "args": args, "by_name": by_name, "deref": deref}));
    }
    if nframes > 1 {
        let _ = s.dbg.as_mut().unwrap().set_frame_into_focus(0);
    }
    json!({"ok": true, "frames": frames})
}

/// {"op":"dqe","exprs":[..]}: parse each text with the real parser and evaluate it.
pub fn dqe(s: &mut Session, cmd: &Value) -> Value {
    use chumsky::Parser;
    let exprs: Vec<String> = serde_json::from_value(cmd["exprs"].clone()).unwrap_or_default();
    let args = cmd["args"] == true;
    let d = s.dbg.as_ref().unwrap();
    let mut out = serde_json::Map::new();
    for e in exprs {
        let parsed = bugstalker::ui::command::parser::expression::parser().parse(e.as_str()).into_result();
        let r = match parsed {
            Err(_) => json!({"parse_error": true}),
            Ok(q) => match if args { d.read_argument(q) } else { d.read_variable(q) } {
                Ok(res) => json!({"ok": named(res)}),
                Err(err) => json!({"error": format!("{err}")}),
            },
        };
        out.insert(e, r);
    }
    json!({"ok": true, "results": out})
}

/// {"op":"vard","exprs":[..],"args":bool}: `vard <expr>` / `argd <expr>`: the program's own Debug implementation formats the value.
pub fn vard(s: &mut Session, cmd: &Value) -> Value {
    use chumsky::Parser;
    let exprs: Vec<String> = serde_json::from_value(cmd["exprs"].clone()).unwrap_or_default();
    let tid = s.dbg.as_ref().unwrap().ecx().pid_on_focus();
    let regs0 = nix::sys::ptrace::getregs(tid).ok();
    let args = cmd["args"] == true;
    let d = s.dbg.as_ref().unwrap();
    let mut out = serde_json::Map::new();
    for e in exprs {
        let parsed = bugstalker::ui::command::parser::expression::parser().parse(e.as_str()).into_result();
        let r = match parsed {
            Err(_) => json!({"parse_error": true}),
            Ok(q) => match if args { d.read_argument(q) } else { d.read_variable(q) } {
                Ok(res) => match res.first() {
                    Some(qr) => match std::panic::catch_unwind(std::panic::AssertUnwindSafe(|| bugstalker::debugger::call::fmt::call_debug_fmt(d, qr))) {
                        Ok(Ok(text)) => json!({"ok": text}),
                        Ok(Err(err)) => json!({"error": format!("{err}")}),
                        Err(_) => json!({"panic": true}),
                    },
                    None => json!({"error": "no such variable"}),
                },
                Err(err) => json!({"error": format!("{err}")}),
            },
        };
        out.insert(e, r);
    }
    let regs1 = nix::sys::ptrace::getregs(tid).ok();
    let same = match (regs0, regs1) {
        (Some(a), Some(b)) => crate::reftrace::hash_regs(&a) == crate::reftrace::hash_regs(&b) && a.rip == b.rip && a.rsp == b.rsp,
        _ => false,
    };
    json!({"ok": true, "results": out, "registers_unchanged": same})
}
