//! E1 — the real tracer core over a simulated ptrace kernel (DESIGN.md Appendix A).
//!
//! Real: `Tracer::{resume, single_step}`, `TraceeCtl`, `Breakpoint::{enable, disable}`,
//! `RegisterMap`, `HardwareDebugState` (compiled from /repo, reached through the `verif::sys`
//! shim).  Modelled: the kernel side of the ptrace/wait calls for one process whose threads run
//! tiny straight-line programs (one byte per instruction).  Every resolution of the model's
//! nondeterminism (which thread runs next, which ready event `waitpid` returns, in which order
//! the tracer's thread snapshot is iterated, whether a thread notices a pending interrupt before
//! or after its next instruction, how siblings of an `exit_group` die, when an external signal
//! lands) is enumerated up to a deviation bound; one execution is a deterministic function of
//! its choice sequence.  The kernel rules come from ptrace(2) and were litmus-tested against the
//! kernel of this sandbox (DESIGN.md, "E1 kernel rules").

use crate::common::{Part, Tier};
use bugstalker::debugger::address::RelocatedAddress;
use bugstalker::debugger::WatchpointView;
use bugstalker::debugger::register::debug::{BreakCondition, BreakSize};
use bugstalker::debugger::verif_exports::{Breakpoint, BreakpointRegistry, StopReason, TraceContext, Tracer, WatchpointHitType, WatchpointRegistry};
use bugstalker::verif::{self, Kernel};
use nix::errno::Errno;
use nix::sys::signal::Signal;
use nix::sys::wait::{WaitPidFlag, WaitStatus};
use nix::unistd::Pid;
use serde_json::{Value, json};
use std::cell::RefCell;
use std::collections::{BTreeMap, BTreeSet};
use std::rc::Rc;
use std::sync::{Arc, Mutex};

#[derive(Clone, Copy, Debug, PartialEq)]
pub enum Insn {
    Nop,
    /// create a thread running program `p`
    Spawn(usize),
    /// write to data cell c
    Write(usize),
    /// read data cell c
    Read(usize),
    /// wait until every thread this thread spawned is gone
    Join,
    Exit(i32),
    ExitGroup(i32),
}

#[derive(Clone, Debug, PartialEq)]
enum Stop {
    Signal { sig: i32, code: i32 },
    Event { ev: i32, msg: u64 },
}

#[derive(Clone, Debug, PartialEq)]
enum TState {
    Running,
    Stopped { stop: Stop, reported: bool },
    /// after the exit event was resumed (or killed by exit_group)
    Zombie { code: i32 },
    Gone,
}

#[derive(Clone, Debug)]
struct Thread {
    tid: i32,
    prog: usize,
    rip: u64,
    state: TState,
    /// pending signals: (signal, si_code, synchronous)
    pending: Vec<(i32, i32, bool)>,
    trap_stop_pending: bool,
    slips: u8,
    tf: bool,
    dr: [u64; 8],
    executed: Vec<u32>,
    parent: Option<i32>,
    exit_code: i32,
    /// resumed with SINGLESTEP from a stop inside a system call (clone event): the step trap is
    /// reported at the return to user mode, before any further instruction (seen on the real
    /// kernel: `stepi` over the clone syscall of the mt debuggee ends right behind it)
    trap_at_syscall_exit: bool,
    /// false after PTRACE_DETACH: no more ptrace stops, signals take their default action
    traced: bool,
}

pub const PID: i32 = 1000;
const SI_KERNEL: i32 = 0x80;
const TRAP_HWBKPT: i32 = 4;
const EV_CLONE: i32 = 3;
const EV_EXIT: i32 = 6;
const EV_STOP: i32 = 128;
const SIGTRAP: i32 = 5;
const SIGINT: i32 = 2;
const QUIET: [i32; 6] = [14, 23, 17, 29, 26, 27];

pub fn prog_base(p: usize) -> u64 {
    0x1000 * (p as u64 + 1)
}
const CELL_BASE: u64 = 0x10_0000;

#[derive(Clone, Debug)]
pub struct PointRec {
    pub n: usize,
    pub chosen: usize,
    pub what: &'static str,
}

/// Life of one externally sent signal, for cause-specific verdicts.
#[derive(Clone, Debug, Default)]
pub struct SigRec {
    pub tid: i32,
    pub sig: i32,
    /// resumed from its own signal-delivery-stop without the signal (the tracer keeps it queued)
    pub suppressed: u32,
    pub delivered: u32,
    pub delivered_with_step: u32,
    /// the tracer passed it when resuming an event stop, where the kernel ignores it
    pub ignored_at_event_stop: u32,
    /// the receiving thread died (exit, exit_group) before the signal could be delivered
    pub receiver_died: bool,
}

pub struct World {
    pub progs: Vec<Vec<Insn>>,
    text: BTreeMap<u64, u8>,
    orig_text: BTreeMap<u64, u8>,
    cells: Vec<u64>,
    threads: Vec<Thread>,
    next_tid: i32,
    prefix: Vec<usize>,
    /// base schedule: 0 = lowest runnable thread first, 1 = highest first
    policy: u8,
    pub points: Vec<PointRec>,
    /// signals delivered to a thread by resuming it with a signal from a signal stop
    pub delivered: Vec<(i32, i32)>,
    pub log: Vec<String>,
    pub model_error: Option<String>,
    /// (thread, debug register) of every data breakpoint the hardware took
    pub watch_hits: Vec<(i32, usize)>,
    /// environment signals still to be sent: (signal, index into the live thread list)
    pub env_signals: Vec<(i32, usize)>,
    pub sent: Vec<(i32, i32)>,
    pub sigs: Vec<SigRec>,
    pub step_code: i32,
    /// a running thread executed an instruction (for the "stays stopped" oracle)
    pub epoch: u64,
    /// a thread called exit_group: the process is dying, stops reported from here on race with it
    pub group_exit: bool,
    /// signal number carried by PTRACE_EVENT_STOP: SIGSTOP (19) while the process still has the
    /// "stopped" flag of its initial SIGSTOP (every process launched by the debugger, litmus l1 +
    /// strace of a real session), SIGTRAP (5) for an attached process
    pub event_stop_sig: i32,
    /// ptrace(2) allows siblings killed by exit_group to vanish without PTRACE_EVENT_EXIT; the
    /// kernel of this sandbox always reports it (litmus l2, l2b, l3)
    pub silent_exit: bool,
    /// the process died of a signal's default action (only possible for untraced threads)
    pub killed_by: Option<i32>,
}

impl World {
    pub fn new(progs: Vec<Vec<Insn>>, prefix: Vec<usize>, policy: u8) -> World {
        let mut text = BTreeMap::new();
        for (p, prog) in progs.iter().enumerate() {
            for (i, _) in prog.iter().enumerate() {
                text.insert(prog_base(p) + i as u64, 0x90);
            }
            // padding so that word reads near the end stay inside the text
            for i in prog.len()..prog.len() + 8 {
                text.insert(prog_base(p) + i as u64, 0x00);
            }
        }
        let main = Thread {
            tid: PID,
            prog: 0,
            rip: prog_base(0),
            state: TState::Stopped { stop: Stop::Event { ev: EV_STOP, msg: 0 }, reported: true },
            pending: vec![],
            trap_stop_pending: false,
            slips: 0,
            tf: false,
            dr: [0; 8],
            executed: vec![0; progs[0].len()],
            parent: None,
            exit_code: 0,
            trap_at_syscall_exit: false,
            traced: true,
        };
        World {
            orig_text: text.clone(),
            text,
            cells: vec![0; 8],
            threads: vec![main],
            next_tid: PID + 1,
            progs,
            prefix,
            policy,
            points: vec![],
            delivered: vec![],
            log: vec![],
            model_error: None,
            watch_hits: vec![],
            env_signals: vec![],
            sent: vec![],
            sigs: vec![],
            step_code: 1,
            epoch: 0,
            group_exit: false,
            event_stop_sig: 19,
            silent_exit: false,
            killed_by: None,
        }
    }

    fn choose(&mut self, n: usize, what: &'static str) -> usize {
        if n <= 1 {
            return 0;
        }
        let idx = self.points.len();
        let c = if idx < self.prefix.len() { self.prefix[idx] } else { 0 };
        let c = if c >= n {
            self.model_error = Some(format!("prefix diverged at point {idx}: choice {c} of {n} ({what})"));
            0
        } else {
            c
        };
        self.points.push(PointRec { n, chosen: c, what });
        c
    }

    fn th(&mut self, tid: i32) -> Option<&mut Thread> {
        self.threads.iter_mut().find(|t| t.tid == tid && t.state != TState::Gone)
    }

    fn thr(&self, tid: i32) -> Option<&Thread> {
        self.threads.iter().find(|t| t.tid == tid && t.state != TState::Gone)
    }

    /// threads that can make a move, in base-schedule order
    fn runnable(&self) -> Vec<i32> {
        let mut v: Vec<i32> = self.threads.iter().filter(|t| t.state == TState::Running && !self.blocked(t)).map(|t| t.tid).collect();
        if self.policy == 1 {
            v.reverse();
        }
        v
    }

    fn blocked(&self, t: &Thread) -> bool {
        // a thread at a Join instruction with a live child cannot make progress (but it notices
        // interrupts and signals)
        let idx = (t.rip - prog_base(t.prog)) as usize;
        if self.progs[t.prog].get(idx) == Some(&Insn::Join) {
            let waiting = self.threads.iter().any(|c| c.parent == Some(t.tid) && !matches!(c.state, TState::Gone | TState::Zombie { .. }));
            return waiting && !t.trap_stop_pending && t.pending.is_empty();
        }
        false
    }

    pub fn live_tids(&self) -> Vec<i32> {
        self.threads.iter().filter(|t| matches!(t.state, TState::Running | TState::Stopped { .. })).map(|t| t.tid).collect()
    }

    pub fn text_is_original(&self) -> bool {
        self.text == self.orig_text
    }

    pub fn any_running(&self) -> Vec<i32> {
        self.threads.iter().filter(|t| t.state == TState::Running).map(|t| t.tid).collect()
    }

    fn stop(&mut self, tid: i32, stop: Stop) {
        if self.thr(tid).map(|t| !t.traced).unwrap_or(false) {
            // nobody traces this thread: a SIGTRAP kills the process, other signals run their
            // handlers, events are not reported
            match stop {
                Stop::Signal { sig, .. } if sig == SIGTRAP => {
                    self.killed_by = Some(SIGTRAP);
                    for t in self.threads.iter_mut() {
                        t.state = TState::Gone;
                    }
                }
                Stop::Signal { sig, .. } => {
                    self.delivered.push((tid, sig));
                    if let Some(r) = self.sigs.iter_mut().rev().find(|r| r.tid == tid && r.sig == sig) {
                        r.delivered += 1;
                    }
                }
                Stop::Event { ev, msg } if ev == EV_EXIT => {
                    if let Some(t) = self.th(tid) {
                        t.state = if tid == PID { TState::Zombie { code: msg as i32 } } else { TState::Gone };
                    }
                }
                Stop::Event { .. } => {}
            }
            return;
        }
        if let Some(t) = self.th(tid) {
            // ptrace_stop(): "any trap clears pending STOP trap"
            t.trap_stop_pending = false;
            t.state = TState::Stopped { stop, reported: false };
        }
    }

    /// One scheduling slot of thread `tid`.
    fn step_thread(&mut self, tid: i32) {
        let Some(t) = self.thr(tid) else { return };
        if t.state != TState::Running {
            return;
        }
        let (trap_pending, slips) = (t.trap_stop_pending, t.slips);
        let mut slipped = false;
        if trap_pending {
            // the thread notices the interrupt now, or (deviation) only after one more instruction
            let can_slip = slips < 1 && !self.at_blocking_join(tid) && self.thr(tid).map(|t| t.pending.is_empty()).unwrap_or(false);
            let slip = can_slip && self.choose(2, "interrupt-noticed-late") == 1;
            if !slip {
                self.stop(tid, Stop::Event { ev: EV_STOP, msg: 0 });
                return;
            }
            self.th(tid).unwrap().slips += 1;
            slipped = true;
        }
        // pending signal -> signal-delivery-stop (synchronous first, then lowest number)
        if !slipped {
            let t = self.th(tid).unwrap();
            if !t.pending.is_empty() {
                let mut best = 0;
                for (i, p) in t.pending.iter().enumerate() {
                    let b = t.pending[best];
                    if (p.2 && !b.2) || (p.2 == b.2 && p.0 < b.0) {
                        best = i;
                    }
                }
                let (sig, code, _) = t.pending.remove(best);
                self.stop(tid, Stop::Signal { sig, code });
                return;
            }
        }
        if self.thr(tid).map(|t| t.trap_at_syscall_exit).unwrap_or(false) {
            let t = self.th(tid).unwrap();
            t.trap_at_syscall_exit = false;
            t.tf = false;
            let code = self.step_code;
            self.stop(tid, Stop::Signal { sig: SIGTRAP, code });
            return;
        }
        let (rip, prog) = {
            let t = self.th(tid).unwrap();
            (t.rip, t.prog)
        };
        let byte = self.text.get(&rip).copied().unwrap_or(0);
        if byte == 0xCC {
            self.epoch += 1;
            self.th(tid).unwrap().rip = rip + 1;
            self.fault(tid, SI_KERNEL, slipped);
            return;
        }
        let idx = (rip - prog_base(prog)) as usize;
        let Some(insn) = self.progs[prog].get(idx).copied() else {
            self.model_error = Some(format!("thread {tid} ran off its program at {rip:#x}"));
            self.th(tid).unwrap().state = TState::Gone;
            return;
        };
        if insn == Insn::Join && self.at_blocking_join(tid) {
            return; // still waiting
        }
        self.epoch += 1;
        {
            let t = self.th(tid).unwrap();
            t.executed[idx] += 1;
            t.rip = rip + 1;
        }
        let mut stopped = false;
        match insn {
            Insn::Nop | Insn::Join => {}
            Insn::Write(c) | Insn::Read(c) => {
                let is_write = matches!(insn, Insn::Write(_));
                if is_write {
                    self.cells[c] += 1;
                }
                let (lo, hi) = (CELL_BASE + 8 * c as u64, CELL_BASE + 8 * c as u64 + 8);
                let t = self.th(tid).unwrap();
                let dr7 = t.dr[7];
                let mut hit = vec![];
                for n in 0..4 {
                    let enabled = dr7 >> (2 * n) & 3 != 0;
                    let rw = dr7 >> (16 + 4 * n) & 3;
                    let len = match dr7 >> (18 + 4 * n) & 3 {
                        0 => 1,
                        1 => 2,
                        3 => 4,
                        _ => 8,
                    };
                    let a = t.dr[n];
                    let overlaps = a < hi && a + len > lo;
                    if enabled && overlaps && (rw == 3 || (rw == 1 && is_write)) {
                        t.dr[6] |= 1 << n;
                        hit.push(n);
                    }
                }
                if !hit.is_empty() {
                    for n in hit {
                        self.watch_hits.push((tid, n));
                    }
                    self.fault(tid, TRAP_HWBKPT, slipped);
                    stopped = true;
                }
            }
            Insn::Spawn(p) => {
                let child = self.next_tid;
                self.next_tid += 1;
                let (dr6, dr7) = {
                    let t = self.th(tid).unwrap();
                    (t.dr[6], t.dr[7])
                };
                // litmus l3 on this kernel: DR7/DR6 read back as copies, the address registers are
                // zero and nothing is armed in the new thread
                let mut dr = [0u64; 8];
                dr[6] = dr6;
                dr[7] = dr7;
                self.threads.push(Thread {
                    tid: child,
                    prog: p,
                    rip: prog_base(p),
                    state: if self.thr(tid).map(|t| t.traced).unwrap_or(true) { TState::Stopped { stop: Stop::Event { ev: EV_STOP, msg: 0 }, reported: false } } else { TState::Running },
                    pending: vec![],
                    trap_stop_pending: false,
                    slips: 0,
                    tf: false,
                    dr,
                    executed: vec![0; self.progs[p].len()],
                    parent: Some(tid),
                    exit_code: 0,
                    trap_at_syscall_exit: false,
                    traced: self.thr(tid).map(|t| t.traced).unwrap_or(true),
                });
                self.stop(tid, Stop::Event { ev: EV_CLONE, msg: child as u64 });
                stopped = true;
            }
            Insn::Exit(code) => {
                self.th(tid).unwrap().exit_code = code;
                self.stop(tid, Stop::Event { ev: EV_EXIT, msg: code as u64 });
                stopped = true;
            }
            Insn::ExitGroup(code) => {
                self.group_exit = true;
                let others: Vec<i32> = self.threads.iter().filter(|t| t.tid != tid && matches!(t.state, TState::Running | TState::Stopped { .. })).map(|t| t.tid).collect();
                for o in others {
                    // every killed sibling reports an exit stop, also when it sat in a reported
                    // ptrace stop (litmus l2b); only in the `silent_exit` variant it may not
                    let with_event = !(self.silent_exit && self.choose(2, "exit_group-sibling-without-exit-event") == 1);
                    for r in self.sigs.iter_mut().filter(|r| r.tid == o && r.delivered == 0) {
                        r.receiver_died = true;
                    }
                    let t = self.th(o).unwrap();
                    t.exit_code = code;
                    t.pending.clear();
                    t.trap_stop_pending = false;
                    if with_event {
                        t.state = TState::Stopped { stop: Stop::Event { ev: EV_EXIT, msg: code as u64 }, reported: false };
                    } else {
                        t.state = TState::Zombie { code };
                    }
                }
                self.th(tid).unwrap().exit_code = code;
                self.stop(tid, Stop::Event { ev: EV_EXIT, msg: code as u64 });
                stopped = true;
            }
        }
        if !stopped {
            let t = self.th(tid).unwrap();
            if t.tf {
                t.tf = false;
                let code = self.step_code;
                self.stop(tid, Stop::Signal { sig: SIGTRAP, code });
            }
        }
    }

    /// A synchronous SIGTRAP. When the thread was about to notice an interrupt, get_signal() sees
    /// the trap-stop request first: the event stop is reported now and the SIGTRAP stays pending.
    fn fault(&mut self, tid: i32, code: i32, slipped: bool) {
        if slipped {
            self.th(tid).unwrap().pending.push((SIGTRAP, code, true));
            self.stop(tid, Stop::Event { ev: EV_STOP, msg: 0 });
        } else {
            self.th(tid).unwrap().tf = false;
            self.stop(tid, Stop::Signal { sig: SIGTRAP, code });
        }
    }

    fn at_blocking_join(&self, tid: i32) -> bool {
        let Some(t) = self.thr(tid) else { return false };
        let idx = (t.rip - prog_base(t.prog)) as usize;
        self.progs[t.prog].get(idx) == Some(&Insn::Join) && self.threads.iter().any(|c| c.parent == Some(t.tid) && !matches!(c.state, TState::Gone | TState::Zombie { .. }))
    }

    /// Scheduling point before a tracer request: the rest of the world may move first.
    fn sched_point(&mut self, what: &'static str) {
        loop {
            let running = self.runnable();
            let env = self.env_enabled();
            let n = 1 + running.len() + env as usize;
            let c = self.choose(n, what);
            if c == 0 {
                return;
            }
            if c <= running.len() {
                self.step_thread(running[c - 1]);
            } else {
                self.send_env_signal();
            }
            if self.points.len() > 3000 {
                self.model_error = Some("execution too long".into());
                return;
            }
        }
    }

    /// threads that can still receive a signal (not on their way out)
    fn signalable(&self) -> Vec<i32> {
        self.threads
            .iter()
            .filter(|t| match &t.state {
                TState::Running => true,
                TState::Stopped { stop: Stop::Event { ev, .. }, .. } => *ev != EV_EXIT,
                TState::Stopped { .. } => true,
                _ => false,
            })
            .map(|t| t.tid)
            .collect()
    }

    fn env_enabled(&self) -> bool {
        !self.env_signals.is_empty() && !self.group_exit && !self.signalable().is_empty()
    }

    fn send_env_signal(&mut self) {
        let (sig, target) = self.env_signals.remove(0);
        let live = self.signalable();
        let tid = live.get(target).copied().unwrap_or(live[0]);
        // a second instance of a standard signal that is already pending is merged by the kernel
        let merged = self.thr(tid).map(|t| t.pending.iter().any(|p| p.0 == sig)).unwrap_or(false);
        if merged {
            return;
        }
        self.sent.push((tid, sig));
        self.sigs.push(SigRec { tid, sig, ..Default::default() });
        if let Some(t) = self.th(tid) {
            t.pending.push((sig, 0, false));
        }
    }

    fn sigrec(&mut self, tid: i32, sig: i32) -> Option<&mut SigRec> {
        // the oldest instance that is not finished yet
        self.sigs.iter_mut().rev().find(|r| r.tid == tid && r.sig == sig)
    }

    fn resume(&mut self, tid: i32, sig: Option<Signal>, step: bool) -> nix::Result<()> {
        let Some(t) = self.th(tid) else { return Err(Errno::ESRCH) };
        let TState::Stopped { stop, .. } = t.state.clone() else { return Err(Errno::ESRCH) };
        match stop {
            Stop::Signal { sig: stop_sig, .. } => {
                if stop_sig != SIGTRAP && sig.map(|s| s as i32) != Some(stop_sig) {
                    if let Some(r) = self.sigrec(tid, stop_sig) {
                        r.suppressed += 1;
                    }
                }
                if let Some(s) = sig {
                    self.delivered.push((tid, s as i32));
                    if let Some(r) = self.sigs.iter_mut().rev().find(|r| r.tid == tid && r.sig == s as i32) {
                        r.delivered += 1;
                        r.delivered_with_step += step as u32;
                    }
                }
            }
            Stop::Event { ev, msg } => {
                // a signal passed when resuming an event stop is ignored (litmus l6)
                if let Some(s) = sig {
                    if let Some(r) = self.sigrec(tid, s as i32) {
                        r.ignored_at_event_stop += 1;
                    }
                }
                if ev == EV_EXIT {
                    let t = self.th(tid).unwrap();
                    t.state = TState::Zombie { code: msg as i32 };
                    return Ok(());
                }
            }
        }
        let from_syscall = matches!(stop, Stop::Event { ev, .. } if ev == EV_CLONE);
        let t = self.th(tid).unwrap();
        t.tf = step;
        t.trap_at_syscall_exit = step && from_syscall;
        t.slips = 0;
        t.state = TState::Running;
        Ok(())
    }

    fn status_of(&self, t: &Thread) -> Option<WaitStatus> {
        let pid = Pid::from_raw(t.tid);
        match &t.state {
            TState::Stopped { stop: Stop::Signal { sig, .. }, reported: false } => Some(WaitStatus::Stopped(pid, Signal::try_from(*sig).unwrap_or(Signal::SIGTRAP))),
            TState::Stopped { stop: Stop::Event { ev, .. }, reported: false } => {
                let sig = if *ev == EV_STOP { Signal::try_from(self.event_stop_sig).unwrap_or(Signal::SIGTRAP) } else { Signal::SIGTRAP };
                Some(WaitStatus::PtraceEvent(pid, sig, *ev))
            }
            TState::Zombie { code } => {
                // the exit status of the group leader is held back until every other thread has
                // been reaped
                if t.tid == PID && self.threads.iter().any(|o| o.tid != PID && o.state != TState::Gone) {
                    None
                } else {
                    Some(WaitStatus::Exited(pid, *code))
                }
            }
            _ => None,
        }
    }

    /// No tracer any more: let everything that can run run to the end.
    pub fn run_free(&mut self) {
        for _ in 0..2000 {
            let r = self.runnable();
            if r.is_empty() || self.killed_by.is_some() {
                break;
            }
            for tid in r {
                self.step_thread(tid);
            }
            // a zombie leader is reaped by its real parent once it is alone
            if self.threads.iter().all(|t| t.tid == PID || t.state == TState::Gone) {
                if let Some(t) = self.th(PID) {
                    if matches!(t.state, TState::Zombie { .. }) {
                        t.state = TState::Gone;
                    }
                }
            }
        }
    }

    fn stopped(&self, tid: i32) -> bool {
        matches!(self.thr(tid).map(|t| &t.state), Some(TState::Stopped { .. }))
    }
}

#[derive(Clone)]
pub struct SimKernel(pub Rc<RefCell<World>>);

impl Kernel for SimKernel {
    fn waitpid(&mut self, pid: Option<Pid>, _flags: Option<WaitPidFlag>) -> nix::Result<WaitStatus> {
        let mut w = self.0.borrow_mut();
        let filter = pid.map(|p| p.as_raw()).unwrap_or(-1);
        loop {
            if w.model_error.is_some() {
                return Err(Errno::EINTR);
            }
            let ready: Vec<i32> = w.threads.iter().filter(|t| (filter == -1 || t.tid == filter) && w.status_of(t).is_some()).map(|t| t.tid).collect();
            let running = w.runnable();
            let env = w.env_enabled();
            let matching_alive = w.threads.iter().any(|t| (filter == -1 || t.tid == filter) && t.state != TState::Gone);
            if !matching_alive {
                return Err(Errno::ECHILD);
            }
            if ready.is_empty() && running.is_empty() && !env {
                let why = match w.thr(filter).map(|t| t.state.clone()) {
                    Some(TState::Stopped { reported: true, .. }) => "thread-already-in-reported-stop",
                    Some(TState::Zombie { .. }) if filter == PID => "zombie-leader-held-back-by-sibling-in-exit-stop",
                    _ if filter == -1 => "every-thread-stopped",
                    _ => "other",
                };
                w.model_error = Some(format!("deadlock[{why}]: waitpid({filter}) can never return; threads {:?}", w.threads.iter().map(|t| (t.tid, format!("{:?}", t.state))).collect::<Vec<_>>()));
                return Err(Errno::EINTR);
            }
            // options: report one of the ready events, or let the world advance
            let n = ready.len() + running.len() + env as usize;
            let c = w.choose(n, "waitpid");
            if c < ready.len() {
                let tid = ready[c];
                let st = w.status_of(w.thr(tid).unwrap()).unwrap();
                let t = w.th(tid).unwrap();
                match &mut t.state {
                    TState::Stopped { reported, .. } => *reported = true,
                    TState::Zombie { .. } => t.state = TState::Gone,
                    _ => {}
                }
                w.log.push(format!("wait({filter}) -> {st:?}"));
                return Ok(st);
            }
            let c = c - ready.len();
            if c < running.len() {
                let tid = running[c];
                w.step_thread(tid);
            } else {
                w.send_env_signal();
            }
            if w.points.len() > 3000 {
                w.model_error = Some("execution too long".into());
                return Err(Errno::EINTR);
            }
        }
    }
    fn cont(&mut self, pid: Pid, sig: Option<Signal>) -> nix::Result<()> {
        // no scheduling point here: the tracer resumes its threads in hash-map order, which the
        // harness does not control; a thread resumed early can only do what it could also do after
        // the last `cont` of the batch (the requests in between target other, stopped threads)
        let mut w = self.0.borrow_mut();
        w.log.push(format!("cont({pid}, {sig:?})"));
        w.resume(pid.as_raw(), sig, false)
    }
    fn step(&mut self, pid: Pid, sig: Option<Signal>) -> nix::Result<()> {
        let mut w = self.0.borrow_mut();
        w.sched_point("before-step");
        w.log.push(format!("step({pid}, {sig:?})"));
        w.resume(pid.as_raw(), sig, true)
    }
    fn syscall(&mut self, pid: Pid, sig: Option<Signal>) -> nix::Result<()> {
        self.cont(pid, sig)
    }
    fn interrupt(&mut self, pid: Pid) -> nix::Result<()> {
        let mut w = self.0.borrow_mut();
        w.sched_point("before-interrupt");
        w.log.push(format!("interrupt({pid})"));
        match w.th(pid.as_raw()) {
            Some(t) if matches!(t.state, TState::Running | TState::Stopped { .. }) => {
                t.trap_stop_pending = true;
                Ok(())
            }
            _ => Err(Errno::ESRCH),
        }
    }
    fn detach(&mut self, pid: Pid, _sig: Option<Signal>) -> nix::Result<()> {
        let mut w = self.0.borrow_mut();
        w.sched_point("before-detach");
        w.log.push(format!("detach({pid})"));
        match w.th(pid.as_raw()) {
            Some(t) if matches!(t.state, TState::Stopped { .. }) && t.traced => {
                if matches!(t.state, TState::Stopped { stop: Stop::Event { ev, .. }, .. } if ev == EV_EXIT) {
                    t.state = TState::Zombie { code: t.exit_code };
                } else {
                    t.state = TState::Running;
                }
                t.traced = false;
                t.trap_stop_pending = false;
                t.tf = false;
                Ok(())
            }
            _ => Err(Errno::ESRCH),
        }
    }
    fn getevent(&mut self, pid: Pid) -> nix::Result<libc::c_long> {
        let w = self.0.borrow();
        match w.thr(pid.as_raw()).map(|t| t.state.clone()) {
            Some(TState::Stopped { stop: Stop::Event { msg, .. }, .. }) => Ok(msg as libc::c_long),
            Some(TState::Stopped { .. }) => Ok(0),
            _ => Err(Errno::ESRCH),
        }
    }
    fn getsiginfo(&mut self, pid: Pid) -> nix::Result<libc::siginfo_t> {
        let w = self.0.borrow();
        match w.thr(pid.as_raw()).map(|t| t.state.clone()) {
            Some(TState::Stopped { stop, .. }) => {
                let mut si: libc::siginfo_t = unsafe { std::mem::zeroed() };
                match stop {
                    Stop::Signal { sig, code } => {
                        si.si_signo = sig;
                        si.si_code = code;
                    }
                    Stop::Event { ev, .. } => {
                        let sig = if ev == EV_STOP { w.event_stop_sig } else { SIGTRAP };
                        si.si_signo = sig;
                        si.si_code = (ev << 8) | sig;
                    }
                }
                Ok(si)
            }
            _ => Err(Errno::ESRCH),
        }
    }
    fn getregs(&mut self, pid: Pid) -> nix::Result<libc::user_regs_struct> {
        let w = self.0.borrow();
        match w.thr(pid.as_raw()) {
            Some(t) if matches!(t.state, TState::Stopped { .. }) => {
                let mut r: libc::user_regs_struct = unsafe { std::mem::zeroed() };
                r.rip = t.rip;
                r.rsp = 0x7000_0000 + t.tid as u64 * 0x1000;
                Ok(r)
            }
            _ => Err(Errno::ESRCH),
        }
    }
    fn setregs(&mut self, pid: Pid, regs: libc::user_regs_struct) -> nix::Result<()> {
        let mut w = self.0.borrow_mut();
        match w.th(pid.as_raw()) {
            Some(t) if matches!(t.state, TState::Stopped { .. }) => {
                t.rip = regs.rip;
                Ok(())
            }
            _ => Err(Errno::ESRCH),
        }
    }
    fn read(&mut self, pid: Pid, addr: usize) -> nix::Result<libc::c_long> {
        let mut w = self.0.borrow_mut();
        w.sched_point("before-peek");
        if !w.stopped(pid.as_raw()) {
            return Err(Errno::ESRCH);
        }
        let addr = addr as u64;
        if addr >= CELL_BASE {
            let c = ((addr - CELL_BASE) / 8) as usize;
            return w.cells.get(c).map(|v| *v as libc::c_long).ok_or(Errno::EIO);
        }
        let mut v = 0u64;
        for i in 0..8 {
            let Some(b) = w.text.get(&(addr + i)) else { return Err(Errno::EIO) };
            v |= (*b as u64) << (8 * i);
        }
        Ok(v as libc::c_long)
    }
    fn write(&mut self, pid: Pid, addr: usize, data: usize) -> nix::Result<()> {
        let mut w = self.0.borrow_mut();
        w.sched_point("before-poke");
        if !w.stopped(pid.as_raw()) {
            return Err(Errno::ESRCH);
        }
        let addr = addr as u64;
        for i in 0..8 {
            if !w.text.contains_key(&(addr + i)) {
                return Err(Errno::EIO);
            }
        }
        for i in 0..8 {
            w.text.insert(addr + i, (data >> (8 * i)) as u8);
        }
        Ok(())
    }
    fn read_user(&mut self, pid: Pid, offset: usize) -> nix::Result<libc::c_long> {
        let w = self.0.borrow();
        let base = std::mem::offset_of!(libc::user, u_debugreg);
        let n = (offset.wrapping_sub(base)) / 8;
        match w.thr(pid.as_raw()) {
            Some(t) if matches!(t.state, TState::Stopped { .. }) && n < 8 => Ok(t.dr[n] as libc::c_long),
            Some(_) if n >= 8 => Err(Errno::EIO),
            _ => Err(Errno::ESRCH),
        }
    }
    fn write_user(&mut self, pid: Pid, offset: usize, data: usize) -> nix::Result<()> {
        let mut w = self.0.borrow_mut();
        let base = std::mem::offset_of!(libc::user, u_debugreg);
        let n = (offset.wrapping_sub(base)) / 8;
        let len_of = |dr7: u64, n: usize| -> u64 {
            match dr7 >> (18 + 4 * n) & 3 {
                0 => 1,
                1 => 2,
                3 => 4,
                _ => 8,
            }
        };
        match w.th(pid.as_raw()) {
            Some(t) if matches!(t.state, TState::Stopped { .. }) && n < 8 => {
                // the kernel re-validates the breakpoint of a slot whenever its address or DR7
                // changes: an enabled slot needs an address aligned to its length (litmus l3)
                if n < 4 {
                    let enabled = t.dr[7] >> (2 * n) & 3 != 0;
                    if enabled && data as u64 % len_of(t.dr[7], n) != 0 {
                        return Err(Errno::EINVAL);
                    }
                } else if n == 7 {
                    for k in 0..4 {
                        let enabled = data as u64 >> (2 * k) & 3 != 0;
                        if enabled && t.dr[k] % len_of(data as u64, k) != 0 {
                            return Err(Errno::EINVAL);
                        }
                    }
                }
                if n == 4 || n == 5 {
                    return Err(Errno::EIO);
                }
                t.dr[n] = data as u64;
                Ok(())
            }
            Some(_) if n >= 8 => Err(Errno::EIO),
            _ => Err(Errno::ESRCH),
        }
    }
}

// ------------------------------------------------------------------------------------------

#[derive(Debug, Clone, Default)]
pub struct Outcome {
    pub points: Vec<PointRec>,
    pub stops: Vec<String>,
    pub violations: Vec<(String, String)>,
    pub exit: Option<i32>,
    pub log: Vec<String>,
}

#[derive(Clone, Debug)]
pub struct Scenario {
    pub name: String,
    pub progs: Vec<Vec<Insn>>,
    /// user breakpoints: absolute addresses
    pub bps: Vec<u64>,
    /// after the first reported breakpoint stop a temporary breakpoint (as `finish`/`next` set
    /// them) is armed for the stopped thread at this address and removed when it is reported
    pub temp_bp: Option<u64>,
    pub env_signals: Vec<(i32, usize)>,
    pub step_code: i32,
    pub policy: u8,
    /// number of `stepi` commands the user issues after every reported stop before `continue`
    pub stepi_after_stop: u32,
    /// the user detaches at this reported stop (1 = the first)
    pub detach_at: Option<usize>,
    /// watchpoint commands: (index of the reported stop at which the user issues it; 0 = before the
    /// first resume, operation)
    pub watch_ops: Vec<(usize, WOp)>,
    /// true: the process was attached to, PTRACE_EVENT_STOP carries SIGTRAP
    pub attached: bool,
    pub silent_exit: bool,
}

#[derive(Clone, Debug, PartialEq, serde::Serialize, serde::Deserialize)]
pub enum WOp {
    /// watch cell c: byte offset inside the cell, size in bytes, read-write (else write only)
    Add { cell: usize, off: u64, size: u8, rw: bool },
    Remove { cell: usize, off: u64 },
}

struct Bp {
    bp: Breakpoint,
    enabled: bool,
    temporary: bool,
}

/// Run one execution of the real tracer over the simulated kernel.
pub fn run(sc: &Scenario, prefix: &[usize]) -> Outcome {
    let world = Rc::new(RefCell::new(World::new(sc.progs.clone(), prefix.to_vec(), sc.policy)));
    {
        let mut w = world.borrow_mut();
        w.env_signals = sc.env_signals.clone();
        w.step_code = sc.step_code;
        w.event_stop_sig = if sc.attached { 5 } else { 19 };
        w.silent_exit = sc.silent_exit;
    }
    verif::install_kernel(Some(Box::new(SimKernel(world.clone()))));
    // the iteration order of the tracer's thread snapshot is a choice of the explorer as well
    let w2 = world.clone();
    verif::order::install(Some(Box::new(move |len: usize| {
        let mut idx: Vec<usize> = (0..len).collect();
        if len >= 2 {
            // a try_borrow failure means the tracer took a snapshot inside a kernel call: never
            if let Ok(mut w) = w2.try_borrow_mut() {
                if w.any_running().is_empty() {
                    return idx; // nothing can race with the iteration
                }
                let c = w.choose(len, "snapshot-order");
                idx.rotate_left(c);
            }
        }
        idx
    })));
    let mut out = Outcome::default();
    let r = std::panic::catch_unwind(std::panic::AssertUnwindSafe(|| drive(sc, &world, &mut out)));
    verif::install_kernel(None);
    verif::order::install(None);
    let w = world.borrow();
    out.points = w.points.clone();
    out.log = w.log.clone();
    if let Err(p) = r {
        let msg = p.downcast_ref::<String>().cloned().or_else(|| p.downcast_ref::<&str>().map(|s| s.to_string())).unwrap_or_default();
        out.violations.push(("C09:sim:tracer-panic".into(), format!("the tracer panicked: {msg}")));
    }
    if let Some(e) = &w.model_error {
        let kind = if e.starts_with("deadlock") {
            let why = e.split('[').nth(1).and_then(|x| x.split(']').next()).unwrap_or("other");
            format!("C09:sim:tracer-waits-forever:{why}")
        } else if e.starts_with("prefix diverged") {
            "MACHINERY:prefix-diverged".to_string()
        } else {
            "MACHINERY:model".to_string()
        };
        if !out.violations.iter().any(|v| v.0 == kind) {
            out.violations.push((kind, e.clone()));
        }
    }
    out
}

fn drive(sc: &Scenario, world: &Rc<RefCell<World>>, out: &mut Outcome) {
    let pid = Pid::from_raw(PID);
    let mut tracer = Tracer::new(pid);
    let mut wps = WatchpointRegistry::default();
    let mut bp_registry = BreakpointRegistry::default();
    let mut reported_w: Vec<(i32, usize)> = vec![];
    let mut stops_seen = 0usize;
    apply_watch_ops(sc, 0, &mut wps, &mut bp_registry, &tracer, world, out);
    let mut bps: Vec<Bp> = sc.bps.iter().map(|a| Bp { bp: Breakpoint::new("/sim", RelocatedAddress::from(*a), pid, None), enabled: false, temporary: false }).collect();
    for b in bps.iter_mut() {
        if let Err(e) = b.bp.enable() {
            out.violations.push(("MACHINERY:enable".into(), format!("{e}")));
            return;
        }
        b.enabled = true;
    }
    let mut focus = pid;
    let mut reported: Vec<(i32, u64)> = vec![];
    let mut reported_signals: Vec<(i32, i32)> = vec![];
    let mut temp_armed = false;
    let mut temp_done = sc.temp_bp.is_none();
    let mut stepi_left = 0u32;
    let mut detached = false;
    let mut guard = 0;
    let mut err: Option<String> = None;
    'outer: loop {
        guard += 1;
        if guard > 200 {
            err = Some("driver loop does not terminate".into());
            break;
        }
        // scenarios named "...signals-at-a-stop": somebody sends all the signals while the program
        // sits at its first reported stop (every thread stopped); they are all pending at the resume
        if sc.name.contains("signals-at-a-stop") && out.stops.len() == 1 {
            let mut w = world.borrow_mut();
            while w.env_enabled() {
                w.send_env_signal();
            }
        }
        // ---- the user's command: `stepi` (Debugger::single_step_instruction) while some are
        // owed after the last stop, else `continue` (Debugger::continue_execution) ----
        let do_stepi = stepi_left > 0 && {
            // a user would not step into the exit of the thread (C03 territory)
            let w = world.borrow();
            w.thr(focus.as_raw()).map(|t| matches!(t.state, TState::Stopped { .. }) && !matches!(w.progs[t.prog].get((t.rip - prog_base(t.prog)) as usize), Some(Insn::Exit(_)) | Some(Insn::ExitGroup(_)) | Some(Insn::Join) | None)).unwrap_or(false)
        };
        if !do_stepi {
            stepi_left = 0;
        }
        // step_over_breakpoint(): the thread in focus sits on an enabled breakpoint
        let at = {
            let w = world.borrow();
            w.thr(focus.as_raw()).map(|t| (t.rip, matches!(t.state, TState::Stopped { .. })))
        };
        let mut early: Option<StopReason> = None;
        if let Some((rip, true)) = at {
            if let Some(i) = bps.iter().position(|b| b.bp.addr.as_u64() == rip && b.enabled) {
                if let Err(e) = bps[i].bp.disable() {
                    err = Some(format!("disable: {e}"));
                    break;
                }
                bps[i].enabled = false;
                let refs: Vec<&Breakpoint> = bps.iter().map(|b| &b.bp).collect();
                let r = tracer.single_step(TraceContext::new(&refs, &wps), focus);
                drop(refs);
                match r {
                    Ok(x) => early = x,
                    Err(bugstalker::debugger::Error::ProcessExit(c)) => {
                        out.exit = Some(c);
                        break 'outer;
                    }
                    Err(e) => {
                        err = Some(format!("single_step: {e}"));
                        break;
                    }
                }
                if let Err(e) = bps[i].bp.enable() {
                    err = Some(format!("enable: {e}"));
                    break;
                }
                bps[i].enabled = true;
            }
        }
        if do_stepi {
            stepi_left -= 1;
            let stepped_over_bp = matches!(at, Some((rip, true)) if bps.iter().any(|b| b.bp.addr.as_u64() == rip));
            if !stepped_over_bp {
                let refs: Vec<&Breakpoint> = bps.iter().map(|b| &b.bp).collect();
                match tracer.single_step(TraceContext::new(&refs, &wps), focus) {
                    Ok(x) => early = x,
                    Err(bugstalker::debugger::Error::ProcessExit(c)) => {
                        out.exit = Some(c);
                        break 'outer;
                    }
                    Err(e) => {
                        err = Some(format!("single_step: {e}"));
                        break;
                    }
                }
            }
            if early.is_none() {
                // the step is done: the user sees the new location (a breakpoint address counts as
                // a reported arrival there)
                let w = world.borrow();
                if let Some(t) = w.thr(focus.as_raw()) {
                    if sc.bps.contains(&t.rip) && !reported.contains(&(t.tid, t.rip)) {
                        reported.push((t.tid, t.rip));
                    }
                }
                out.stops.push(format!("stepi {focus}"));
                continue;
            }
        }
        let stop = match early {
            Some(s) => s,
            None => {
                let refs: Vec<&Breakpoint> = bps.iter().map(|b| &b.bp).collect();
                match tracer.resume(TraceContext::new(&refs, &wps)) {
                    Ok(s) => s,
                    Err(e) => {
                        err = Some(format!("resume: {e}"));
                        break;
                    }
                }
            }
        };
        let epoch_at_report = world.borrow().epoch;
        match stop {
            StopReason::Breakpoint(t, a) => {
                out.stops.push(format!("breakpoint {t} {:#x}", a.as_u64()));
                focus = t;
                // the arrival is real and new
                if !world.borrow().group_exit {
                    let w = world.borrow();
                    match w.thr(t.as_raw()) {
                        Some(th) if matches!(th.state, TState::Stopped { .. }) && th.rip == a.as_u64() => {
                            let idx = (a.as_u64() - prog_base(th.prog)) as usize;
                            if th.executed.get(idx).copied().unwrap_or(0) != 0 {
                                out.violations.push(("C09:sim:stop-reported-after-instruction-ran".into(), format!("thread {t} reported at {:#x} but already executed that instruction", a.as_u64())));
                            }
                        }
                        other => out.violations.push(("C09:sim:reported-thread-not-at-breakpoint".into(), format!("thread {t} reported at {:#x}; kernel state {:?}", a.as_u64(), other.map(|t| (t.rip, t.state.clone()))))),
                    }
                }
                let is_temp = bps.iter().any(|b| b.temporary && b.bp.addr == a);
                if !is_temp {
                    if reported.contains(&(t.as_raw(), a.as_u64())) {
                        out.violations.push(("C09:sim:arrival-reported-twice".into(), format!("thread {t} at {:#x}", a.as_u64())));
                    }
                    reported.push((t.as_raw(), a.as_u64()));
                }
                check_all_stop(world, &tracer, out, &bps, "breakpoint");
                if is_temp {
                    // Debugger::step_out_frame removes the temporary breakpoint afterwards
                    if let Some(i) = bps.iter().position(|b| b.temporary) {
                        if bps[i].enabled {
                            if let Err(e) = bps[i].bp.disable() {
                                err = Some(format!("disable temp: {e}"));
                                break;
                            }
                        }
                        bps.remove(i);
                    }
                    temp_armed = false;
                } else if !temp_done && !temp_armed {
                    // arm the temporary breakpoint for the thread in focus
                    let a = sc.temp_bp.unwrap();
                    let in_prog = world.borrow().thr(t.as_raw()).map(|th| a >= prog_base(th.prog) && a < prog_base(th.prog) + 0x100 && a > th.rip).unwrap_or(false);
                    if in_prog && !bps.iter().any(|b| b.bp.addr.as_u64() == a) {
                        let b = Breakpoint::new_temporary("/sim", RelocatedAddress::from(a), t);
                        if let Err(e) = b.enable() {
                            err = Some(format!("enable temp: {e}"));
                            break;
                        }
                        bps.push(Bp { bp: b, enabled: true, temporary: true });
                        temp_armed = true;
                        temp_done = true;
                    }
                }
            }
            StopReason::SignalStop(t, s) => {
                reported_signals.push((t.as_raw(), s as i32));
                out.stops.push(format!("signal {t} {s:?}"));
                focus = t;
                check_all_stop(world, &tracer, out, &bps, "signal");
            }
            StopReason::DebugeeExit(c) => {
                out.exit = Some(c);
                break;
            }
            StopReason::NoSuchProcess(_) => {
                err = Some("tracer reported NoSuchProcess".into());
                break;
            }
            StopReason::Watchpoint(t, _, ty) => {
                focus = t;
                match ty {
                    WatchpointHitType::DebugRegister(r) => {
                        out.stops.push(format!("watchpoint {t} dr{}", r as usize));
                        reported_w.push((t.as_raw(), r as usize));
                    }
                    WatchpointHitType::EndOfScope(_) => out.stops.push(format!("watchpoint-scope-end {t}")),
                }
                check_all_stop(world, &tracer, out, &bps, "watchpoint");
            }
            StopReason::DebugeeStart => out.stops.push("start".into()),
        }
        stops_seen += 1;
        if sc.detach_at == Some(stops_seen) && !world.borrow().group_exit {
            // ---- Debugger::detach ----
            for b in bps.iter_mut().filter(|b| b.enabled) {
                let _ = b.bp.disable(); // disable_all_breakpoints ignores errors
                b.enabled = false;
            }
            wps.clear_all(tracer.verif_tracee_ctl(), &mut bp_registry);
            // (the debugger walks a hash map; both extreme orders are scenarios)
            let mut tids: Vec<Pid> = tracer.verif_tracee_ctl().tracee_iter().map(|t| t.pid).collect();
            tids.sort();
            if sc.policy == 1 {
                tids.reverse();
            }
            for t in tids {
                if let Err(e) = verif::sys::ptrace::detach(t, None) {
                    if world.borrow().killed_by.is_none() {
                        err = Some(format!("detach({t}): {e}"));
                    }
                }
            }
            detached = true;
            break;
        }
        if !sc.watch_ops.is_empty() {
            apply_watch_ops(sc, stops_seen, &mut wps, &mut bp_registry, &tracer, world, out);
            check_dregs(world, &wps, out, "stop");
        }
        if !do_stepi {
            stepi_left = sc.stepi_after_stop;
        }
        // "stays stopped until the user resumes": nothing moved since the report
        if world.borrow().epoch != epoch_at_report {
            out.violations.push(("MACHINERY:world-moved-outside-kernel-call".into(), String::new()));
        }
    }
    if detached && world.borrow().model_error.is_none() {
        world.borrow_mut().run_free();
        let w = world.borrow();
        if let Some(e) = err {
            out.violations.push(("C11:sim:detach-failed".into(), e));
        }
        if let Some(sig) = w.killed_by {
            out.violations.push(("C11:sim:process-killed-by-pending-trap-after-detach".into(), format!("signal {sig}: a breakpoint trap that the tracer had not consumed was delivered to the released process; log tail {:?}", w.log.iter().rev().take(8).collect::<Vec<_>>())));
            return;
        }
        let traced: Vec<_> = w.threads.iter().filter(|t| t.traced && !matches!(t.state, TState::Gone | TState::Zombie { .. })).map(|t| (t.tid, format!("{:?}", t.state))).collect();
        if !traced.is_empty() {
            out.violations.push(("C11:sim:thread-still-traced-after-detach".into(), format!("{traced:?}")));
        }
        if !w.text_is_original() {
            out.violations.push(("C11:sim:code-patched-after-detach".into(), String::new()));
        }
        if let Some(t) = w.threads.iter().find(|t| !matches!(t.state, TState::Gone | TState::Zombie { .. }) && t.dr[7] & 0xff != 0) {
            out.violations.push(("C11:sim:hardware-breakpoint-left-after-detach".into(), format!("thread {} dr7 {:#x}", t.tid, t.dr[7])));
        }
        let unfinished: Vec<_> = w.threads.iter().filter(|t| !matches!(t.state, TState::Gone | TState::Zombie { .. })).map(|t| (t.tid, format!("{:?}", t.state))).collect();
        if traced.is_empty() && !unfinished.is_empty() {
            out.violations.push(("C11:sim:released-process-does-not-finish".into(), format!("{unfinished:?}")));
        }
        for (tid, ex) in w.threads.iter().map(|t| (t.tid, &t.executed)) {
            if ex.iter().any(|n| *n > 1) {
                out.violations.push(("C11:sim:instruction-executed-twice-around-detach".into(), format!("thread {tid}: {ex:?}")));
            }
            if ex.last().copied().unwrap_or(0) > 0 && ex.iter().any(|n| *n == 0) {
                out.violations.push(("C11:sim:instruction-skipped-around-detach".into(), format!("thread {tid}: {ex:?}")));
            }
        }
        return;
    }
    let w = world.borrow();
    if w.model_error.is_some() {
        return; // classified by the caller
    }
    if let Some(e) = err {
        if w.group_exit {
            return; // the process was killed under the debugger's hands: an error is a fair answer
        }
        out.violations.push(("C09:sim:tracer-error".into(), format!("{e}; log tail {:?}", w.log.iter().rev().take(6).collect::<Vec<_>>())));
        return;
    }
    // every thread still known to the kernel at exit
    let left: Vec<_> = w.threads.iter().filter(|t| matches!(t.state, TState::Running | TState::Stopped { .. })).map(|t| t.tid).collect();
    if !left.is_empty() {
        out.violations.push(("C09:sim:exit-reported-with-live-threads".into(), format!("threads {left:?} still alive when DebugeeExit was reported")));
    }
    // exactly-once reporting: every executed breakpoint instruction had its report
    for t in &w.threads {
        for (i, n) in t.executed.iter().enumerate() {
            let addr = prog_base(t.prog) + i as u64;
            let insn = w.progs[t.prog][i];
            if *n > 1 {
                out.violations.push(("C09:sim:instruction-executed-twice".into(), format!("thread {} instruction #{i} ({insn:?}) executed {n} times", t.tid)));
            }
            let last_ran = t.executed.last().copied().unwrap_or(0) > 0;
            if *n == 0 && last_ran {
                out.violations.push(("C09:sim:instruction-skipped".into(), format!("thread {} finished but instruction #{i} ({insn:?}) never ran", t.tid)));
            }
            if *n >= 1 && sc.bps.contains(&addr) && !reported.contains(&(t.tid, addr)) {
                let sig = if sc.temp_bp.is_some() { "C09:sim:arrival-not-reported-while-temporary-breakpoint" } else { "C09:sim:arrival-not-reported" };
                out.violations.push((sig.into(), format!("thread {} ran through the breakpoint at {addr:#x} without a report", t.tid)));
            }
        }
    }
    // data breakpoints (C14): every hit the hardware took is reported once
    if !sc.watch_ops.is_empty() && !w.group_exit {
        let mut hw = w.watch_hits.clone();
        hw.sort();
        let mut rep = reported_w.clone();
        rep.sort();
        if hw != rep {
            let missing: Vec<_> = hw.iter().filter(|h| hw.iter().filter(|x| x == h).count() > rep.iter().filter(|x| x == h).count()).collect();
            let kind = if !missing.is_empty() { "C14:sim:watchpoint-hit-not-reported" } else { "C14:sim:watchpoint-reported-without-hit" };
            out.violations.push((kind.into(), format!("hardware hits (thread, register) {hw:?}, reported {rep:?}; stops {:?}", out.stops)));
        }
    }
    // signals (C10): every signal sent is delivered exactly once (SIGINT: never) and, unless quiet,
    // reported once with the receiving thread
    if !sc.env_signals.is_empty() && !w.group_exit {
        // per (thread, signal): how many were sent, delivered, reported
        let mut agg: BTreeMap<(i32, i32), (u32, SigRec)> = BTreeMap::new();
        for r in &w.sigs {
            if r.receiver_died {
                continue;
            }
            let e = agg.entry((r.tid, r.sig)).or_insert((0, SigRec { tid: r.tid, sig: r.sig, ..Default::default() }));
            e.0 += 1;
            e.1.suppressed += r.suppressed;
            e.1.delivered += r.delivered;
            e.1.delivered_with_step += r.delivered_with_step;
            e.1.ignored_at_event_stop += r.ignored_at_event_stop;
        }
        for ((tid, sig), (sent, r)) in &agg {
            let reports = reported_signals.iter().filter(|x| **x == (*tid, *sig)).count() as u32;
            let what = format!("signal {sig} sent {sent} time(s) to thread {tid}: delivered {} time(s) ({} with a single-step), suppressed {} time(s), passed at an event stop {} time(s), reported {} time(s); stops {:?}", r.delivered, r.delivered_with_step, r.suppressed, r.ignored_at_event_stop, reports, out.stops);
            if *sig == SIGINT {
                if r.delivered > 0 {
                    out.violations.push(("C10:sim:sigint-delivered".into(), what.clone()));
                }
            } else if r.delivered < *sent {
                let cause = if r.ignored_at_event_stop > 0 {
                    "injected-at-event-stop"
                } else if r.suppressed > 0 {
                    "suppressed-by-step-and-never-reinjected"
                } else {
                    "other"
                };
                out.violations.push((format!("C10:sim:signal-lost:{cause}"), what.clone()));
            } else if r.delivered > *sent {
                let cause = if r.delivered_with_step > 0 && QUIET.contains(sig) { "quiet-signal-passed-with-step-and-again-from-queue" } else { "other" };
                out.violations.push((format!("C10:sim:signal-duplicated:{cause}"), what.clone()));
            }
            let want = if QUIET.contains(sig) { 0 } else { *sent };
            if reports < want {
                let cause = if r.delivered >= *sent { "delivered-silently" } else { "and-not-delivered" };
                out.violations.push((format!("C10:sim:signal-not-reported:{cause}"), what.clone()));
            } else if reports > want {
                let cause = if want == 0 { "quiet-signal-reported" } else { "same-signal-reported-again" };
                out.violations.push((format!("C10:sim:signal-report-extra:{cause}"), what.clone()));
            }
        }
        for (t, sg) in &reported_signals {
            if !w.sigs.iter().any(|r| r.tid == *t && r.sig == *sg) {
                let other = w.sigs.iter().find(|r| r.sig == *sg).map(|r| r.tid);
                out.violations.push(("C10:sim:signal-reported-for-wrong-thread".into(), format!("signal {sg} reported for thread {t}, sent to {other:?}")));
            }
        }
        if !tracer.verif_inject_queue().is_empty() {
            out.violations.push(("C10:sim:inject-queue-not-empty-at-exit".into(), format!("{:?}", tracer.verif_inject_queue())));
        }
    }
}

fn apply_watch_ops(sc: &Scenario, at: usize, wps: &mut WatchpointRegistry, bpr: &mut BreakpointRegistry, tracer: &Tracer, world: &Rc<RefCell<World>>, out: &mut Outcome) {
    for (k, op) in &sc.watch_ops {
        if *k != at {
            continue;
        }
        if world.borrow().group_exit || world.borrow().live_tids().is_empty() {
            return;
        }
        let before: Vec<(i32, [u64; 8])> = world.borrow().threads.iter().filter(|t| matches!(t.state, TState::Stopped { .. })).map(|t| (t.tid, t.dr)).collect();
        match op {
            WOp::Add { cell, off, size, rw } => {
                let addr = RelocatedAddress::from(CELL_BASE + 8 * *cell as u64 + off);
                let sz = match size {
                    1 => BreakSize::Bytes1,
                    2 => BreakSize::Bytes2,
                    4 => BreakSize::Bytes4,
                    _ => BreakSize::Bytes8,
                };
                let cond = if *rw { BreakCondition::DataReadsWrites } else { BreakCondition::DataWrites };
                let n_before = wps.all().len();
                let dup = wps.all().iter().any(|w| WatchpointView::from(w).address == addr);
                match wps.verif_add_raw(tracer.verif_tracee_ctl(), addr, sz, cond) {
                    Ok(_) => {
                        if n_before >= 4 || dup {
                            out.violations.push(("C14:sim:fifth-or-duplicate-watchpoint-accepted".into(), format!("{op:?} accepted with {n_before} watchpoints set (duplicate: {dup})")));
                        }
                    }
                    Err(e) => {
                        let after: Vec<(i32, [u64; 8])> = world.borrow().threads.iter().filter(|t| matches!(t.state, TState::Stopped { .. })).map(|t| (t.tid, t.dr)).collect();
                        if n_before < 4 && !dup {
                            out.violations.push(("C14:sim:watchpoint-refused".into(), format!("{op:?}: {e}")));
                        } else if after != before || wps.all().len() != n_before {
                            out.violations.push(("C14:sim:refused-watchpoint-had-side-effects".into(), format!("{op:?}: {e}; registers before {before:x?} after {after:x?}")));
                        }
                    }
                }
            }
            WOp::Remove { cell, off } => {
                let addr = RelocatedAddress::from(CELL_BASE + 8 * *cell as u64 + off);
                let had = wps.all().iter().any(|w| WatchpointView::from(w).address == addr);
                match wps.verif_remove_by_addr(tracer.verif_tracee_ctl(), bpr, addr) {
                    Ok(r) if r == had => {}
                    Ok(r) => out.violations.push(("C14:sim:remove-answer-wrong".into(), format!("{op:?}: removed={r}, was set={had}"))),
                    Err(e) => out.violations.push(("C14:sim:remove-failed".into(), format!("{op:?}: {e}"))),
                }
            }
        }
    }
}

/// Every stopped thread's debug registers encode exactly the registry's watchpoints.
fn check_dregs(world: &Rc<RefCell<World>>, wps: &WatchpointRegistry, out: &mut Outcome, at: &str) {
    let w = world.borrow();
    if w.group_exit {
        return;
    }
    let mut want: [Option<(u64, u64, u64)>; 4] = [None; 4];
    for wp in wps.all() {
        let v = WatchpointView::from(wp);
        let Some(r) = wp.register() else {
            out.violations.push((format!("C14:sim:watchpoint-without-register-at-{at}"), format!("#{}", v.number)));
            continue;
        };
        let len = match v.size {
            BreakSize::Bytes1 => 0,
            BreakSize::Bytes2 => 1,
            BreakSize::Bytes8 => 2,
            BreakSize::Bytes4 => 3,
        };
        let rw = match v.condition {
            BreakCondition::DataWrites => 1,
            BreakCondition::DataReadsWrites => 3,
        };
        if want[r as usize].is_some() {
            out.violations.push((format!("C14:sim:two-watchpoints-share-a-register-at-{at}"), format!("dr{}", r as usize)));
        }
        want[r as usize] = Some((v.address.as_u64(), len, rw));
    }
    for t in w.threads.iter().filter(|t| matches!(t.state, TState::Stopped { .. } | TState::Running)) {
        if matches!(t.state, TState::Stopped { stop: Stop::Event { ev, .. }, .. } if ev == EV_EXIT) {
            continue;
        }
        for n in 0..4 {
            let enabled = t.dr[7] >> (2 * n) & 3 != 0;
            let ok = match want[n] {
                None => !enabled,
                Some((a, len, rw)) => enabled && t.dr[n] == a && (t.dr[7] >> (18 + 4 * n) & 3) == len && (t.dr[7] >> (16 + 4 * n) & 3) == rw,
            };
            if !ok {
                out.violations.push((format!("C14:sim:debug-registers-differ-at-{at}"), format!("thread {} slot {n}: dr{n}={:#x} dr7={:#x}, registry wants {:x?} (addr, len code, rw code)", t.tid, t.dr[n], t.dr[7], want[n])));
                return;
            }
        }
    }
}

fn check_all_stop(world: &Rc<RefCell<World>>, tracer: &Tracer, out: &mut Outcome, bps: &[Bp], at: &str) {
    let w = world.borrow();
    if w.group_exit {
        // exit_group of a sibling kills stopped threads too; no tracer can keep them
        return;
    }
    let running = w.any_running();
    if !running.is_empty() {
        out.violations.push((format!("C09:sim:not-all-stopped-at-{at}"), format!("threads {running:?} are still running when the stop is reported")));
    }
    let mut known: Vec<i32> = tracer.verif_tracee_ctl().tracee_iter().map(|t| t.pid.as_raw()).collect();
    known.sort();
    let mut live = w.live_tids();
    live.sort();
    if known != live {
        let unknown: Vec<_> = live.iter().filter(|t| !known.contains(t)).collect();
        let kind = if !unknown.is_empty() { "misses-live-thread" } else { "has-dead-thread" };
        out.violations.push((format!("C09:sim:thread-list-{kind}-at-{at}"), format!("tracer knows {known:?}, kernel has {live:?}")));
    }
    // the tracer's own view: everything stopped
    let not_stopped: Vec<_> = tracer.verif_tracee_ctl().tracee_iter().filter(|t| !t.is_stopped()).map(|t| t.pid.as_raw()).collect();
    if !not_stopped.is_empty() {
        out.violations.push((format!("C09:sim:tracer-view-running-at-{at}"), format!("{not_stopped:?}")));
    }
    // text: INT3 exactly at enabled breakpoints
    for (a, b) in &w.text {
        let want = if bps.iter().any(|x| x.enabled && x.bp.addr.as_u64() == *a) { 0xCC } else { *w.orig_text.get(a).unwrap() };
        if *b != want {
            out.violations.push((format!("C09:sim:text-differs-at-{at}"), format!("byte at {a:#x} is {b:#x}, expected {want:#x}")));
            break;
        }
    }
}

// ------------------------------------------------------------------------------------------

#[derive(Default)]
pub struct Explored {
    pub executions: u64,
    pub points: u64,
    pub max_points: usize,
    pub outcomes: BTreeSet<String>,
    pub violations: Vec<(String, String, Vec<usize>)>,
    pub capped: bool,
}

/// Deviation-bounded exploration: every choice other than 0 costs one deviation.  Work items are
/// choice prefixes; they are independent, so a pool of threads drains one shared stack.
pub fn explore(sc: &Scenario, bound: usize, max_exec: u64, threads: usize) -> Explored {
    let stack: Arc<Mutex<(Vec<Vec<usize>>, usize)>> = Arc::new(Mutex::new((vec![vec![]], 0)));
    let result = Arc::new(Mutex::new(Explored::default()));
    let count = Arc::new(std::sync::atomic::AtomicU64::new(0));
    std::thread::scope(|s| {
        for _ in 0..threads.max(1) {
            let stack = stack.clone();
            let result = result.clone();
            let count = count.clone();
            s.spawn(move || {
                let mut local = Explored::default();
                loop {
                    let item = {
                        let mut g = stack.lock().unwrap();
                        match g.0.pop() {
                            Some(p) => {
                                g.1 += 1;
                                Some(p)
                            }
                            None if g.1 == 0 => None,
                            None => {
                                drop(g);
                                std::thread::yield_now();
                                continue;
                            }
                        }
                    };
                    let Some(prefix) = item else { break };
                    if count.fetch_add(1, std::sync::atomic::Ordering::Relaxed) >= max_exec {
                        local.capped = true;
                        let mut g = stack.lock().unwrap();
                        g.0.clear();
                        g.1 -= 1;
                        continue;
                    }
                    let o = run(sc, &prefix);
                    local.executions += 1;
                    local.points += o.points.len() as u64;
                    local.max_points = local.max_points.max(o.points.len());
                    local.outcomes.insert(o.stops.join("|"));
                    let choices: Vec<usize> = o.points.iter().map(|p| p.chosen).collect();
                    let base_schedule = choices.iter().all(|c| *c == 0);
                    for (sg, d) in &o.violations {
                        // a signal verdict that needs no deviation at all is a different finding from
                        // one that needs a particular race: the recorded ones all need deviations
                        let sg = if base_schedule && sg.starts_with("C10:sim:signal-") { format!("{sg}:in-the-base-schedule") } else { sg.clone() };
                        // with three or more receivers the same symptom may need few deviations (one
                        // finding) or many (another one): the class is part of the signature
                        let receivers: BTreeSet<usize> = sc.env_signals.iter().map(|x| x.1).collect();
                        let devs = choices.iter().filter(|c| **c != 0).count();
                        let sg = if receivers.len() >= 3 && devs > 3 && sg.starts_with("C10:sim:signal-") { format!("{sg}:beyond-3-deviations") } else { sg };
                        if local.violations.iter().filter(|v| v.0 == sg).count() < 2 {
                            local.violations.push((sg, d.clone(), choices.clone()));
                        }
                    }
                    let used: usize = choices.iter().filter(|c| **c != 0).count();
                    let mut children = vec![];
                    if used < bound {
                        for i in prefix.len()..o.points.len() {
                            for alt in 1..o.points[i].n {
                                let mut np = choices[..i].to_vec();
                                np.push(alt);
                                children.push(np);
                            }
                        }
                    }
                    let mut g = stack.lock().unwrap();
                    g.0.extend(children);
                    g.1 -= 1;
                }
                let mut r = result.lock().unwrap();
                r.executions += local.executions;
                r.points += local.points;
                r.max_points = r.max_points.max(local.max_points);
                r.outcomes.extend(local.outcomes);
                r.capped |= local.capped;
                for v in local.violations {
                    if r.violations.iter().filter(|x| x.0 == v.0).count() < 2 {
                        r.violations.push(v);
                    }
                }
            });
        }
    });
    Arc::try_unwrap(result).ok().unwrap().into_inner().unwrap()
}

pub fn scenario_to_json(sc: &Scenario) -> Value {
    let progs: Vec<Vec<String>> = sc.progs.iter().map(|p| p.iter().map(|i| format!("{i:?}")).collect()).collect();
    json!({"name": sc.name, "progs": progs, "bps": sc.bps, "temp_bp": sc.temp_bp, "env_signals": sc.env_signals, "step_code": sc.step_code, "policy": sc.policy, "attached": sc.attached, "silent_exit": sc.silent_exit, "stepi_after_stop": sc.stepi_after_stop, "watch_ops": sc.watch_ops, "detach_at": sc.detach_at})
}

pub fn scenario_from_json(v: &Value) -> Scenario {
    let parse = |s: &str| -> Insn {
        let num = |s: &str| s.trim_end_matches(')').split('(').nth(1).and_then(|x| x.parse::<i64>().ok()).unwrap_or(0);
        if s.starts_with("Spawn") {
            Insn::Spawn(num(s) as usize)
        } else if s.starts_with("Write") {
            Insn::Write(num(s) as usize)
        } else if s.starts_with("Read") {
            Insn::Read(num(s) as usize)
        } else if s.starts_with("ExitGroup") {
            Insn::ExitGroup(num(s) as i32)
        } else if s.starts_with("Exit") {
            Insn::Exit(num(s) as i32)
        } else if s == "Join" {
            Insn::Join
        } else {
            Insn::Nop
        }
    };
    Scenario {
        name: v["name"].as_str().unwrap_or("").to_string(),
        progs: v["progs"].as_array().map(|a| a.iter().map(|p| p.as_array().map(|x| x.iter().map(|i| parse(i.as_str().unwrap_or("Nop"))).collect()).unwrap_or_default()).collect()).unwrap_or_default(),
        bps: serde_json::from_value(v["bps"].clone()).unwrap_or_default(),
        temp_bp: v["temp_bp"].as_u64(),
        env_signals: serde_json::from_value(v["env_signals"].clone()).unwrap_or_default(),
        step_code: v["step_code"].as_i64().unwrap_or(1) as i32,
        policy: v["policy"].as_u64().unwrap_or(0) as u8,
        stepi_after_stop: v["stepi_after_stop"].as_u64().unwrap_or(0) as u32,
        watch_ops: serde_json::from_value(v["watch_ops"].clone()).unwrap_or_default(),
        detach_at: v["detach_at"].as_u64().map(|x| x as usize),
        attached: v["attached"].as_bool().unwrap_or(false),
        silent_exit: v["silent_exit"].as_bool().unwrap_or(false),
    }
}

pub fn replay(rp: &Value) -> i32 {
    let sc = scenario_from_json(&rp["scenario"]);
    let choices: Vec<usize> = serde_json::from_value(rp["choices"].clone()).unwrap_or_default();
    let a = run(&sc, &choices);
    let b = run(&sc, &choices);
    for l in &a.log {
        println!("  kernel: {l}");
    }
    println!("reported stops: {:?}; exit {:?}", a.stops, a.exit);
    if a.stops != b.stops || a.violations != b.violations {
        eprintln!("harness nondeterminism");
        return 2;
    }
    for (s, d) in &a.violations {
        println!("violated {s}: {d}");
    }
    if a.violations.is_empty() { 0 } else { 1 }
}

use Insn::*;

pub fn scenarios_c09(tier: Tier) -> Vec<Scenario> {
    let w = |n: usize| prog_base(1) + n as u64;
    let m = |n: usize| prog_base(0) + n as u64;
    let mut v = vec![];
    let mk = |name: &str, progs: Vec<Vec<Insn>>, bps: Vec<u64>, temp: Option<u64>| Scenario { name: name.into(), progs, bps, temp_bp: temp, env_signals: vec![], step_code: 1, policy: 0, stepi_after_stop: 0, watch_ops: vec![], detach_at: None, attached: false, silent_exit: false };
    // two workers race to one breakpoint while main waits
    v.push(mk("two-workers-one-bp", vec![vec![Spawn(1), Spawn(1), Join, Exit(0)], vec![Nop, Nop, Nop, Exit(0)]], vec![w(1)], None));
    // main and a worker hit different breakpoints; creation races with the stop
    v.push(mk("main-and-worker-bps", vec![vec![Spawn(1), Nop, Spawn(1), Join, Exit(0)], vec![Nop, Nop, Exit(0)]], vec![m(1), w(1)], None));
    // short-lived threads exit while another thread reports a breakpoint
    v.push(mk("exit-storm", vec![vec![Spawn(2), Spawn(1), Spawn(2), Join, Exit(0)], vec![Nop, Nop, Exit(0)], vec![Exit(0)]], vec![w(1)], None));
    // breakpoint on the first instruction of a new thread and on the instruction after a clone
    v.push(mk("bp-at-thread-entry", vec![vec![Spawn(1), Nop, Join, Exit(0)], vec![Nop, Exit(0)]], vec![w(0), m(1)], None));
    // exit_group from a worker while main sits on / runs to a breakpoint
    v.push(mk("exit-group", vec![vec![Spawn(1), Spawn(2), Nop, Nop, Join, Exit(0)], vec![Nop, Nop, Exit(0)], vec![Nop, ExitGroup(3)]], vec![m(2), w(1)], None));
    // two adjacent breakpoints in shared code
    v.push(mk("adjacent-bps", vec![vec![Spawn(1), Spawn(1), Join, Exit(0)], vec![Nop, Nop, Nop, Exit(0)]], vec![w(1), w(2)], None));
    if tier == Tier::Thorough {
        v.push(mk("three-workers-one-bp", vec![vec![Spawn(1), Spawn(1), Spawn(1), Join, Exit(0)], vec![Nop, Nop, Exit(0)]], vec![w(1)], None));
        v.push(mk("nested-spawn", vec![vec![Spawn(1), Nop, Join, Exit(0)], vec![Spawn(2), Nop, Join, Exit(0)], vec![Nop, Nop, Exit(0)]], vec![prog_base(2) + 1, w(1), m(1)], None));
    }
    // the same with the other base schedule and with TRAP_TRACE as single-step code
    let base = v.clone();
    for s in &base {
        let mut t = s.clone();
        t.policy = 1;
        t.name = format!("{}/highest-first", s.name);
        v.push(t);
    }
    for s in &base {
        let mut t = s.clone();
        t.attached = true;
        t.name = format!("{}/attached", s.name);
        v.push(t);
    }
    for s in &base {
        let mut t = s.clone();
        t.stepi_after_stop = 1;
        t.name = format!("{}/stepi", s.name);
        v.push(t);
    }
    if tier == Tier::Thorough {
        for s in &base {
            let mut t = s.clone();
            t.step_code = 2;
            t.name = format!("{}/trap-trace", s.name);
            v.push(t);
        }
    }
    if std::env::var("BSMC_SIM_SILENT_EXIT").is_ok() {
        for s in &base {
            let mut t = s.clone();
            t.silent_exit = true;
            t.name = format!("{}/silent-exit", s.name);
            v.push(t);
        }
    }
    v
}

pub fn scenarios_temp(_tier: Tier) -> Vec<Scenario> {
    let w = |n: usize| prog_base(1) + n as u64;
    let m = |n: usize| prog_base(0) + n as u64;
    let base = vec![
        // main stops at m1, then "finish"es to m3 while a worker arrives at its user breakpoint
        Scenario { name: "temp-bp-vs-worker-bp".into(), progs: vec![vec![Spawn(1), Nop, Nop, Nop, Join, Exit(0)], vec![Nop, Nop, Nop, Exit(0)]], bps: vec![m(1), w(1)], temp_bp: Some(m(3)), env_signals: vec![], step_code: 1, policy: 0, stepi_after_stop: 0, watch_ops: vec![], detach_at: None, attached: false, silent_exit: false },
        // the temporary breakpoint sits in code that the other thread runs too
        Scenario { name: "temp-bp-in-shared-code".into(), progs: vec![vec![Spawn(1), Spawn(1), Join, Exit(0)], vec![Nop, Nop, Nop, Nop, Exit(0)]], bps: vec![w(1)], temp_bp: Some(w(3)), env_signals: vec![], step_code: 1, policy: 0, stepi_after_stop: 0, watch_ops: vec![], detach_at: None, attached: false, silent_exit: false },
    ];
    let mut v = base.clone();
    for s in &base {
        let mut t = s.clone();
        t.attached = true;
        t.name = format!("{}/attached", s.name);
        v.push(t);
    }
    v
}

pub fn scenarios_c10(tier: Tier) -> Vec<Scenario> {
    let w = |n: usize| prog_base(1) + n as u64;
    let m = |n: usize| prog_base(0) + n as u64;
    let mut v = vec![];
    let progs2 = vec![vec![Spawn(1), Nop, Nop, Join, Exit(0)], vec![Nop, Nop, Nop, Exit(0)]];
    let single = vec![vec![Nop, Nop, Nop, Nop, Exit(0)]];
    let mk = |name: &str, progs: &Vec<Vec<Insn>>, bps: Vec<u64>, sigs: Vec<(i32, usize)>| Scenario { name: name.into(), progs: progs.clone(), bps, temp_bp: None, env_signals: sigs, step_code: 1, policy: 0, stepi_after_stop: 0, watch_ops: vec![], detach_at: None, attached: false, silent_exit: false };
    // SIGUSR1 = 10, SIGUSR2 = 12, SIGALRM = 14 (quiet), SIGINT = 2 (transparent)
    v.push(mk("one-thread-usr1-at-bp", &single, vec![m(1)], vec![(10, 0)]));
    v.push(mk("one-thread-burst", &single, vec![m(2)], vec![(10, 0), (12, 0)]));
    v.push(mk("one-thread-quiet-and-loud", &single, vec![m(1)], vec![(14, 0), (10, 0)]));
    v.push(mk("one-thread-sigint", &single, vec![m(1)], vec![(2, 0), (10, 0)]));
    v.push(mk("two-threads-usr1-each", &progs2, vec![w(1)], vec![(10, 0), (12, 1)]));
    v.push(mk("two-threads-same-signal", &progs2, vec![m(1)], vec![(10, 0), (10, 1)]));
    // three threads in a signal stop at once: the injection queue holds three entries
    let progs4 = vec![vec![Spawn(1), Spawn(2), Spawn(3), Nop, Join, Join, Join, Exit(0)], vec![Nop, Nop, Nop, Exit(0)], vec![Nop, Nop, Nop, Exit(0)], vec![Nop, Nop, Nop, Exit(0)]];
    v.push(mk("three-workers-one-signal-each", &progs4, vec![m(3)], vec![(10, 1), (12, 2), (1, 3)]));
    v.push(mk("three-workers-signals-at-a-stop", &progs4, vec![m(3)], vec![(10, 1), (12, 2), (1, 3)]));
    v.push(mk("two-threads-signals-at-a-stop", &progs2, vec![m(1)], vec![(10, 0), (12, 1)]));
    let base = v.clone();
    for s in &base {
        if s.name.starts_with("three-workers") || s.name.contains("signals-at-a-stop") {
            continue;
        }
        let mut t = s.clone();
        t.stepi_after_stop = 1;
        t.name = format!("{}/stepi", s.name);
        v.push(t);
    }
    if tier == Tier::Thorough {
        v.push(mk("two-threads-burst-3", &progs2, vec![w(1), m(1)], vec![(10, 0), (12, 1), (14, 1)]));
        v.push(mk("two-threads-quiet-storm", &progs2, vec![w(1)], vec![(14, 0), (14, 1), (17, 0)]));
    }
    v
}

fn run_part(name: &str, rule: &str, scenarios: Vec<Scenario>, bound: usize, cap: u64, keep: &dyn Fn(&str) -> bool) -> Part {
    // liveness / crash verdicts of the tracer belong to the property whose check runs
    let prop = match name {
        "c10_sim" => "C10",
        "c14_sim" => "C14",
        "c11_sim" => "C11",
        _ => "C09",
    };
    let mut part = Part::new(name);
    part.rule = rule.to_string();
    let bound = std::env::var("BSMC_SIM_BOUND").ok().and_then(|s| s.parse().ok()).unwrap_or(bound);
    let threads = std::env::var("BSMC_SIM_THREADS").ok().and_then(|s| s.parse().ok()).unwrap_or(14);
    let mut per = vec![];
    let mut outcomes = 0u64;
    for sc in &scenarios {
        let t0 = std::time::Instant::now();
        let ex = explore(sc, bound, cap, threads);
        part.states += ex.executions;
        part.transitions += ex.points;
        part.evaluations += ex.executions;
        part.traces_validated += ex.executions; // every execution runs the real tracer
        outcomes += ex.outcomes.len() as u64;
        if ex.outcomes.len() > 1 {
            part.distinct_nontrivial += ex.outcomes.len() as u64;
        }
        if ex.capped {
            part.exhaustive = false;
            part.caps_hit.push(format!("{}: stopped after {} executions", sc.name, cap));
        }
        per.push(json!({"scenario": sc.name, "executions": ex.executions, "choice_points": ex.points, "longest": ex.max_points, "distinct_stop_sequences": ex.outcomes.len(), "capped": ex.capped, "ms": t0.elapsed().as_millis() as u64}));
        if part.samples.len() < 3 {
            part.sample(json!({"scenario": sc.name, "one_stop_sequence": ex.outcomes.iter().next_back()}));
        }
        for (sig, detail, choices) in ex.violations {
            if !keep(&sig) {
                continue;
            }
            let sig = if sig.starts_with("C09:sim:tracer-") && prop != "C09" { format!("{prop}{}", &sig[3..]) } else { sig };
            // signal verdicts with three or more receiving threads are findings of their own: the
            // recorded ones were made with one or two receivers and must not cover them
            let receivers: BTreeSet<usize> = sc.env_signals.iter().map(|x| x.1).collect();
            let sig = if receivers.len() >= 3 && sig.starts_with("C10:sim:signal-") { format!("{sig}:{}-receivers", receivers.len()) } else { sig };
            part.violate(sig.clone(), format!("[{}] {detail}", sc.name), json!({"engine": "simk", "scenario": scenario_to_json(sc), "choices": choices, "signature": sig}));
        }
    }
    part.distinct_outcomes = outcomes;
    part.bounds = json!({"deviations": bound, "max_executions_per_scenario": cap, "scenarios": scenarios.len(), "threads_per_scenario": "2-4", "explorer_threads": threads});
    part.extra.insert("scenarios".into(), json!(per));
    part
}

pub fn part_c09(tier: Tier) -> Part {
    let (bound, cap) = match tier {
        Tier::Quick => (4, 2_000_000),
        Tier::Thorough => (6, 40_000_000),
    };
    let rule = "real Tracer::resume/single_step over the simulated ptrace kernel: every execution with at most N deviations from the base schedule (thread choice at every kernel call, order of ready wait events, snapshot order, late interrupt notice, exit_group sibling behaviour); at every reported stop: no thread running, tracer thread list == kernel live threads, text has INT3 exactly at enabled breakpoints, reported thread sits on the breakpoint before executing it; at exit: every executed breakpoint instruction was reported once, no instruction executed twice or skipped, tracer never hangs/errs/panics";
    run_part("c09_sim", rule, scenarios_c09(tier), bound, cap, &|s| s.starts_with("C09") || s.starts_with("MACHINERY"))
}

pub fn part_c09_temp(tier: Tier) -> Part {
    let (bound, cap) = match tier {
        Tier::Quick => (4, 2_000_000),
        Tier::Thorough => (6, 40_000_000),
    };
    let rule = "as c09_sim, with a temporary breakpoint (finish/next) armed for the focus thread while other threads arrive at user breakpoints";
    run_part("c09_sim_temp", rule, scenarios_temp(tier), bound, cap, &|s| s.starts_with("C09") || s.starts_with("MACHINERY"))
}

pub fn part_c10_sim(tier: Tier) -> Part {
    let (bound, cap) = match tier {
        Tier::Quick => (3, 2_000_000),
        Tier::Thorough => (5, 40_000_000),
    };
    let rule = "real Tracer over the simulated kernel with external signals landing at any kernel call: each sent signal delivered to its thread exactly once (SIGINT never), reported unless quiet, inject queue empty at exit";
    run_part("c10_sim", rule, scenarios_c10(tier), bound, cap, &|s| s.starts_with("C10") || s.starts_with("MACHINERY") || s.contains("tracer-panic") || s.contains("tracer-error") || s.contains("waits-forever"))
}

pub fn scenarios_c14(tier: Tier) -> Vec<Scenario> {
    let w = |n: usize| prog_base(1) + n as u64;
    let m = |n: usize| prog_base(0) + n as u64;
    let add = |cell: usize, size: u8, rw: bool| WOp::Add { cell, off: 0, size, rw };
    let mk = |name: &str, progs: Vec<Vec<Insn>>, bps: Vec<u64>, ops: Vec<(usize, WOp)>| Scenario { name: name.into(), progs, bps, temp_bp: None, env_signals: vec![], step_code: 1, policy: 0, stepi_after_stop: 0, watch_ops: ops, detach_at: None, attached: false, silent_exit: false };
    let mut v = vec![];
    // watch set before the threads exist; both workers write the cell
    v.push(mk("watch-then-two-writers", vec![vec![Spawn(1), Spawn(1), Join, Exit(0)], vec![Nop, Write(0), Nop, Exit(0)]], vec![], vec![(0, add(0, 8, false))]));
    // main and a worker write different watched cells; a third cell is only read (write watch: no hit; rw watch: hit)
    v.push(mk("two-cells-read-and-write", vec![vec![Spawn(1), Write(1), Read(2), Join, Exit(0)], vec![Write(0), Read(1), Write(2), Exit(0)]], vec![], vec![(0, add(0, 8, false)), (0, add(1, 4, true)), (0, add(2, 2, false))]));
    // watch set at a breakpoint stop while a worker already runs, removed at the next stop
    v.push(mk("watch-at-stop-remove-later", vec![vec![Spawn(1), Nop, Write(0), Nop, Write(0), Join, Exit(0)], vec![Nop, Write(0), Nop, Write(1), Exit(0)]], vec![m(1)], vec![(1, add(0, 8, false)), (1, add(1, 8, false)), (2, WOp::Remove { cell: 0, off: 0 })]));
    // slot reuse with a smaller, differently aligned watchpoint; fifth and duplicate refused
    v.push(mk(
        "slot-reuse-and-limits",
        vec![vec![Nop, Nop, Write(0), Spawn(1), Write(3), Join, Exit(0)], vec![Write(1), Write(0), Exit(0)]],
        vec![m(1)],
        vec![(0, add(0, 8, false)), (0, add(1, 8, true)), (0, add(2, 4, false)), (0, add(3, 1, false)), (0, add(4, 8, false)), (0, add(1, 2, false)), (1, WOp::Remove { cell: 0, off: 0 }), (1, WOp::Add { cell: 0, off: 4, size: 4, rw: false })],
    ));
    // a thread is created while watchpoints change at stops
    v.push(mk("threads-created-between-changes", vec![vec![Spawn(1), Nop, Spawn(1), Write(0), Join, Exit(0)], vec![Nop, Write(0), Write(1), Exit(0)]], vec![m(1), w(0)], vec![(1, add(0, 8, false)), (2, add(1, 8, true)), (3, WOp::Remove { cell: 0, off: 0 })]));
    if tier == Tier::Thorough {
        v.push(mk("three-writers", vec![vec![Spawn(1), Spawn(1), Spawn(1), Join, Exit(0)], vec![Write(0), Write(0), Exit(0)]], vec![], vec![(0, add(0, 8, false))]));
        v.push(mk("watch-and-breakpoint-adjacent", vec![vec![Spawn(1), Write(0), Nop, Join, Exit(0)], vec![Write(0), Nop, Nop, Exit(0)]], vec![m(2), w(1)], vec![(0, add(0, 8, false))]));
    }
    let base = v.clone();
    for s in &base {
        let mut t = s.clone();
        t.policy = 1;
        t.name = format!("{}/highest-first", s.name);
        v.push(t);
    }
    v
}

pub fn part_c14_sim(tier: Tier) -> Part {
    let (bound, cap) = match tier {
        Tier::Quick => (3, 2_000_000),
        Tier::Thorough => (5, 40_000_000),
    };
    let rule = "real Tracer + WatchpointRegistry over the simulated kernel whose threads take data breakpoints (the hardware this VM lacks): watchpoints added / removed before the first resume and at reported stops, threads created before and after; every execution with at most N deviations: at every stop each thread's DR0-3/DR7 encode exactly the registry (new threads included), a fifth / duplicate watchpoint is refused without touching any register, every hit the hardware took (per thread and register) is reported exactly once as a watchpoint stop, all-stop holds";
    run_part("c14_sim", rule, scenarios_c14(tier), bound, cap, &|s| s.starts_with("C14") || s.starts_with("MACHINERY") || s.contains("tracer-panic") || s.contains("tracer-error") || s.contains("waits-forever"))
}


pub fn scenarios_c11(tier: Tier) -> Vec<Scenario> {
    let w = |n: usize| prog_base(1) + n as u64;
    let m = |n: usize| prog_base(0) + n as u64;
    let mk = |name: &str, progs: Vec<Vec<Insn>>, bps: Vec<u64>, at: usize, ops: Vec<(usize, WOp)>| Scenario { name: name.into(), progs, bps, temp_bp: None, env_signals: vec![], step_code: 1, policy: 0, stepi_after_stop: 0, watch_ops: ops, detach_at: Some(at), attached: true, silent_exit: false };
    let mut v = vec![];
    // detach at the first / second stop with two workers racing to a shared breakpoint
    for at in 1..=2 {
        v.push(mk(&format!("two-workers-shared-bp-detach-at-{at}"), vec![vec![Spawn(1), Spawn(1), Join, Exit(0)], vec![Nop, Nop, Nop, Exit(0)]], vec![w(1)], at, vec![]));
    }
    // a thread is created around the detach
    v.push(mk("spawn-around-detach", vec![vec![Spawn(1), Nop, Spawn(1), Join, Exit(0)], vec![Nop, Nop, Exit(0)]], vec![m(1), w(1)], 1, vec![]));
    v.push(mk("spawn-around-detach-at-2", vec![vec![Spawn(1), Nop, Spawn(1), Join, Exit(0)], vec![Nop, Nop, Exit(0)]], vec![m(1), w(1)], 2, vec![]));
    // a watchpoint is set: no debug register may stay enabled
    v.push(mk("watch-then-detach", vec![vec![Spawn(1), Nop, Write(0), Join, Exit(0)], vec![Nop, Write(0), Exit(0)]], vec![m(1)], 1, vec![(0, WOp::Add { cell: 0, off: 0, size: 8, rw: false })]));
    if tier == Tier::Thorough {
        v.push(mk("adjacent-bps-detach-at-3", vec![vec![Spawn(1), Spawn(1), Join, Exit(0)], vec![Nop, Nop, Nop, Exit(0)]], vec![w(1), w(2)], 3, vec![]));
        v.push(mk("exit-storm-detach", vec![vec![Spawn(2), Spawn(1), Spawn(2), Join, Exit(0)], vec![Nop, Nop, Exit(0)], vec![Exit(0)]], vec![w(1)], 1, vec![]));
    }
    let base = v.clone();
    for s in &base {
        let mut t = s.clone();
        t.policy = 1;
        t.name = format!("{}/highest-first", s.name);
        v.push(t);
        let mut t = s.clone();
        t.attached = false;
        t.name = format!("{}/launched", s.name);
        v.push(t);
    }
    v
}

pub fn part_c11_sim(tier: Tier) -> Part {
    let (bound, cap) = match tier {
        Tier::Quick => (3, 2_000_000),
        Tier::Thorough => (5, 40_000_000),
    };
    let rule = "real Tracer over the simulated kernel; at a chosen reported stop the user detaches (Debugger::detach restated: disable breakpoints, clear watchpoints, PTRACE_DETACH every known thread) and the released process runs on without a tracer: it must not be killed by a trap the tracer left behind, no thread may stay traced or stopped, the text is original, no debug register stays enabled, every thread finishes and executed each instruction exactly once; every execution with at most N deviations";
    run_part("c11_sim", rule, scenarios_c11(tier), bound, cap, &|s| s.starts_with("C11") || s.starts_with("MACHINERY") || s.contains("tracer-panic") || s.contains("tracer-error") || s.contains("waits-forever"))
}
