//! C14 / C02, watchpoints on local variables: the debugger arms a hardware watchpoint on the
//! variable's stack slot and a companion breakpoint at the end of the variable's scope.  When the
//! frame that owns the variable reaches that point the watchpoint must be gone: debug registers of
//! every thread cleared, nothing in the watchpoint list, no companion patch left in the text.
//! Deeper activations of a recursive function pass the same address first: they must not end it.
//! (This VM's hardware never reports data breakpoints, so the end of the scope is the only stop.)

use crate::common::{Part, Tier};
use serde_json::{Value, json};
use std::time::Duration;

const PROGRAM: &str = r#"use std::hint::black_box;

#[inline(never)]
fn work(n: u64) -> u64 {
    let mut acc = n + 100;
    {
        let mut inner = n * 2;
        inner += black_box(1);
        acc += inner;
    }
    acc += black_box(7);
    if n > 0 {
        acc += work(n - 1);
    }
    acc += black_box(1);
    acc
}

fn main() {
    let r = work(black_box(2));
    let s = work(black_box(1));
    println!("{r} {s}");
}
"#;

fn build() -> Result<(String, String), String> {
    let dir = crate::common::build_dir().join("wscope");
    std::fs::create_dir_all(&dir).map_err(|e| e.to_string())?;
    let src = dir.join("wscope.rs");
    let exe = dir.join("wscope");
    let fresh = std::fs::read_to_string(&src).map(|t| t == PROGRAM).unwrap_or(false) && exe.exists();
    if !fresh {
        std::fs::write(&src, PROGRAM).map_err(|e| e.to_string())?;
        let out = std::process::Command::new("rustc").current_dir("/").args(["+1.89", "--edition", "2021", "-g", "-C", "opt-level=0", "-o"]).arg(&exe).arg(&src).output().map_err(|e| e.to_string())?;
        if !out.status.success() {
            return Err(String::from_utf8_lossy(&out.stderr).to_string());
        }
    }
    Ok((exe.display().to_string(), "wscope.rs".to_string()))
}

fn line_of(needle: &str) -> u64 {
    PROGRAM.lines().position(|l| l.contains(needle)).map(|i| i as u64 + 1).unwrap_or(0)
}

fn armed(o: &Value) -> Vec<(i64, Vec<u64>, u64)> {
    o["dregs"].as_array().cloned().unwrap_or_default().iter().map(|t| (t["tid"].as_i64().unwrap_or(0), (0..4).map(|i| t["dr"][i].as_u64().unwrap_or(0)).collect(), t["dr7"].as_u64().unwrap_or(0))).collect()
}

pub fn part_scope(tier: Tier) -> Part {
    let mut part = Part::new("c14_local_watchpoint_scope");
    part.rule = "recursive function work(n) with a function-level local `acc` and a block-level local `inner`; for each of {inner, acc} x {write, read-write} x {first activation (n = 2), a deeper activation (n = 1 reached by recursion)}: stop in that activation, `watch <variable>`, then continue repeatedly. After the watch command exactly one debug-register slot of every thread holds the variable's stack address with the requested RW/LEN bits (read independently with PTRACE_PEEKUSER). The next stop must be the end of the variable's scope IN THE ACTIVATION THAT OWNS IT (its argument n is read back): deeper activations that pass the companion address first must not end the watchpoint. At that stop and ever after: no watchpoint listed, DR7 of every thread without enabled slots, the text equal to the file (no companion patch left), and the program finishes with its native output. A second variant removes the watchpoint by expression before the scope ends: same clean state, and no stop at the end of the scope".into();
    let (exe, file) = match build() {
        Ok(x) => x,
        Err(e) => {
            part.violate("MACHINERY:wscope-build", e, json!(null));
            return part;
        }
    };
    let native = std::process::Command::new(&exe).output().map(|o| String::from_utf8_lossy(&o.stdout).to_string()).unwrap_or_default();
    let stop_line = line_of("inner += black_box(1)");
    // the sessions are independent: run them side by side, judge them afterwards
    let mut cases: Vec<(String, Vec<Value>, usize, u64, bool, bool)> = vec![];
    for var in ["inner", "acc"] {
        for rw in [false, true] {
            for depth in [0u64, 1] {
                for remove_early in [false, true] {
                    if tier == Tier::Quick && rw && remove_early {
                        continue;
                    }
                    let owner_n = 2 - depth;
                    let name = format!("{var} {} activation n={owner_n}{}", if rw { "rw" } else { "w" }, if remove_early { " removed-by-expression" } else { "" });
                    let mut script = vec![json!({"op": "break_line", "file": file, "line": stop_line}), json!({"op": "start"})];
                    for _ in 0..depth {
                        script.push(json!({"op": "continue"}));
                    }
                    script.push(json!({"op": "remove_line", "file": file, "line": stop_line}));
                    script.push(json!({"op": "watch_expr", "expr": var, "rw": rw}));
                    let watch_idx = script.len() - 1;
                    if remove_early {
                        script.push(json!({"op": "unwatch_expr", "expr": var}));
                    }
                    for _ in 0..6 {
                        script.push(json!({"op": "continue"}));
                        script.push(json!({"op": "values", "names": [], "derefs": []}));
                    }
                    cases.push((name, script, watch_idx, owner_n, remove_early, rw));
                }
            }
        }
    }
    let runs: Vec<crate::mt::Run> = {
        use rayon::prelude::*;
        let pool = rayon::ThreadPoolBuilder::new().num_threads(8).build().unwrap();
        pool.install(|| {
            cases
                .par_iter()
                .map(|(_, script, _, _, _, _)| {
                    crate::mt::session(
                        &exe,
                        |obs| {
                            if obs.last().map(|o| o["res"]["kind"] == "exit").unwrap_or(false) {
                                return None;
                            }
                            script.get(obs.len()).cloned()
                        },
                        Duration::from_secs(60),
                        script.len(),
                    )
                })
                .collect()
        })
    };
    {
        {
            {
                for ((name, script, watch_idx, owner_n, remove_early, rw), run) in cases.iter().cloned().zip(runs.into_iter()) {
                    let replay = json!({"engine": "mt", "exe": exe, "commands": script});
                    part.evaluations += 1;
                    part.states += run.obs.len() as u64;
                    part.transitions += run.obs.len() as u64;
                    part.traces_validated += 1;
                    if run.hang_at.is_some() || run.crashed.is_some() || run.obs.len() <= watch_idx {
                        part.violate("C14:scope:session-broke", format!("[{name}] hang {:?} crash {:?}", run.hang_at, run.crashed), replay);
                        continue;
                    }
                    let w = &run.obs[watch_idx];
                    if w["res"]["ok"] != true {
                        part.violate("C14:scope:watch-refused", format!("[{name}] {}", w["res"]), replay.clone());
                        continue;
                    }
                    let addr = w["res"]["addr"].as_u64().unwrap_or(0);
                    // armed: exactly one enabled slot with the address in every thread
                    for (tid, dr, dr7) in armed(w) {
                        let slots: Vec<usize> = (0..4).filter(|i| dr7 >> (2 * i) & 3 != 0).collect();
                        let ok = slots.len() == 1 && dr[slots[0]] == addr && {
                            let f = dr7 >> (16 + 4 * slots[0]) & 0xf;
                            let want_rw = if rw { 3 } else { 1 };
                            f & 3 == want_rw && f >> 2 == 2 // 8 bytes = LEN 10b
                        };
                        if !ok {
                            part.violate("C14:scope:registers-do-not-encode-the-local-watchpoint", format!("[{name}] thread {tid}: dr {dr:x?} dr7 {dr7:#x}, watchpoint at {addr:#x}"), replay.clone());
                        }
                    }
                    if w["wps"].as_array().map(|a| a.len()).unwrap_or(0) != 1 {
                        part.violate("C14:scope:watchpoint-not-listed", format!("[{name}] {}", w["wps"]), replay.clone());
                    }
                    // patches present before the watch command (the debugger's own internal breakpoints)
                    let text_before = run.obs[watch_idx - 1]["text_diff"].clone();
                    // the stops after the watch command
                    let mut scope_end_seen = false;
                    let mut clean_from: Option<usize> = if remove_early { Some(watch_idx + 1) } else { None };
                    for (i, o) in run.obs.iter().enumerate().skip(watch_idx + 1) {
                        if o["cmd"]["op"] == "continue" {
                            match o["res"]["kind"].as_str() {
                                Some("watchpoint") => {
                                    let hit = o["res"]["hit"].as_str().unwrap_or("");
                                    if !hit.contains("EndOfScope") {
                                        // a data hit would be legitimate on real hardware; this VM never delivers one
                                        continue;
                                    }
                                    if remove_early {
                                        part.violate("C14:scope:end-of-scope-reported-for-a-removed-watchpoint", format!("[{name}] {}", o["res"]), replay.clone());
                                    }
                                    if scope_end_seen {
                                        part.violate("C14:scope:end-of-scope-reported-twice", format!("[{name}] {}", o["res"]), replay.clone());
                                    }
                                    scope_end_seen = true;
                                    clean_from = Some(i);
                                    // whose activation is it?
                                    let n_here = run.obs.get(i + 1).and_then(|v| v["res"]["frames"][0]["args"]["Ok"].as_array().cloned()).unwrap_or_default().iter().find(|a| a["name"] == "n").and_then(|a| a["v"]["v"].as_str().and_then(|s| s.parse::<u64>().ok()));
                                    if n_here != Some(owner_n) {
                                        part.violate("C14:scope:watchpoint-ended-by-another-activation", format!("[{name}] the end of the scope was reported in the activation with n = {n_here:?}, the watched variable belongs to n = {owner_n}"), replay.clone());
                                    }
                                    part.distinct_nontrivial += 1;
                                }
                                Some("exit") => {}
                                Some(k) => part.violate("C14:scope:unexpected-stop", format!("[{name}] {k}: {}", o["res"]), replay.clone()),
                                None => part.violate("C14:scope:continue-failed", format!("[{name}] {}", o["res"]), replay.clone()),
                            }
                        }
                        if let Some(from) = clean_from {
                            if i >= from && o["alive"] == true && o["res"]["kind"] != "exit" {
                                if o["wps"].as_array().map(|a| !a.is_empty()).unwrap_or(false) {
                                    part.violate("C14:scope:watchpoint-still-listed-after-its-scope", format!("[{name}] {}", o["wps"]), replay.clone());
                                }
                                for (tid, dr, dr7) in armed(o) {
                                    if dr7 & 0xff != 0 {
                                        part.violate("C14:scope:registers-still-armed-after-the-scope", format!("[{name}] thread {tid}: dr {dr:x?} dr7 {dr7:#x}"), replay.clone());
                                    }
                                }
                                if o["text_diff"] != text_before {
                                    part.violate("C14:scope:companion-patch-left-in-the-text", format!("[{name}] patches in the text {} ; before the watch command {}", o["text_diff"], text_before), replay.clone());
                                }
                            }
                        } else if o["alive"] == true && o["cmd"]["op"] == "continue" && o["res"]["kind"] != "exit" && o["res"]["kind"] != "watchpoint" {
                            // still armed while the scope is alive
                        }
                    }
                    if !remove_early && !scope_end_seen {
                        part.violate("C14:scope:end-of-scope-never-reported", format!("[{name}] stops: {:?}", run.obs.iter().filter(|o| o["cmd"]["op"] == "continue").map(|o| o["res"]["kind"].clone()).collect::<Vec<_>>()), replay.clone());
                    }
                    let stdout = run.result.as_ref().and_then(|r| r["stdout"].as_str()).unwrap_or("").to_string();
                    if !run.obs.iter().any(|o| o["res"]["kind"] == "exit") || stdout != native {
                        part.violate("C14:scope:program-did-not-finish-natively", format!("[{name}] stdout {stdout:?} native {native:?}"), replay.clone());
                    }
                    if part.samples.len() < 3 {
                        part.sample(json!({"case": name, "address": format!("{addr:#x}"), "stops": run.obs.iter().filter(|o| o["cmd"]["op"] == "continue").map(|o| json!([o["res"]["kind"], o["res"]["hit"]])).collect::<Vec<_>>()}));
                    }
                }
            }
        }
    }
    // a fifth watchpoint, on a local, is refused: without side effects (no companion breakpoint left)
    {
        let head = vec![json!({"op": "break_line", "file": file, "line": stop_line}), json!({"op": "start"}), json!({"op": "remove_line", "file": file, "line": stop_line}), json!({"op": "watch_expr", "expr": "inner", "rw": false}), json!({"op": "unwatch_expr", "expr": "inner"})];
        let mut script_log: Vec<Value> = vec![];
        let run = crate::mt::session(
            &exe,
            |obs| {
                let next = if obs.len() < head.len() {
                    Some(head[obs.len()].clone())
                } else {
                    let a = obs[3]["res"]["addr"].as_u64().unwrap_or(0);
                    match obs.len() - head.len() {
                        k @ 0..=3 => Some(json!({"op": "watch_addr", "addr": a + 64 * (k as u64 + 1), "size": 8, "rw": false})),
                        4 => Some(json!({"op": "watch_expr", "expr": "inner", "rw": false})),
                        5 | 6 | 7 => {
                            if obs.last().map(|o| o["res"]["kind"] == "exit").unwrap_or(false) {
                                None
                            } else {
                                Some(json!({"op": "continue"}))
                            }
                        }
                        _ => None,
                    }
                };
                if let Some(n) = &next {
                    script_log.push(n.clone());
                }
                next
            },
            Duration::from_secs(60),
            14,
        );
        let replay = json!({"engine": "mt", "exe": exe, "commands": script_log});
        part.evaluations += 1;
        part.states += run.obs.len() as u64;
        part.traces_validated += 1;
        if run.hang_at.is_some() || run.crashed.is_some() || run.obs.len() < 10 {
            part.violate("C14:scope:session-broke", format!("[fifth-local-refused] hang {:?} crash {:?}", run.hang_at, run.crashed), replay);
        } else {
            let before = &run.obs[8]; // four address watchpoints active
            let refused = &run.obs[9];
            if (5..9).any(|i| run.obs[i]["res"]["ok"] != true) {
                part.violate("MACHINERY:c14-four-watchpoints", format!("{:?}", (5..9).map(|i| run.obs[i]["res"].clone()).collect::<Vec<_>>()), replay.clone());
            } else if refused["res"]["ok"] == true {
                part.violate("C14:scope:fifth-watchpoint-accepted", format!("{}", refused["res"]), replay.clone());
            } else {
                if refused["text_diff"] != before["text_diff"] || refused["bps"] != before["bps"] {
                    part.violate("C14:scope:refused-watchpoint-left-a-companion-breakpoint", format!("[fifth-local-refused] patches in the text before the refused command {} after it {}; breakpoints listed {}", before["text_diff"], refused["text_diff"], refused["bps"]), replay.clone());
                }
                if refused["wps"] != before["wps"] || armed(refused) != armed(before) {
                    part.violate("C14:scope:refused-watchpoint-changed-registers-or-list", format!("[fifth-local-refused] watchpoints {} -> {}", before["wps"], refused["wps"]), replay.clone());
                }
                if run.obs.iter().skip(10).any(|o| o["res"]["kind"] == "watchpoint") {
                    part.violate("C14:scope:end-of-scope-reported-for-a-refused-watchpoint", format!("[fifth-local-refused] {:?}", run.obs.iter().skip(10).map(|o| o["res"].clone()).collect::<Vec<_>>()), replay.clone());
                }
                part.distinct_nontrivial += 1;
            }
            let stdout = run.result.as_ref().and_then(|r| r["stdout"].as_str()).unwrap_or("").to_string();
            if !run.obs.iter().any(|o| o["res"]["kind"] == "exit") || stdout != native {
                part.violate("C14:scope:program-did-not-finish-natively", format!("[fifth-local-refused] stdout {stdout:?} native {native:?}"), replay.clone());
            }
        }
    }
    part.bounds = json!({"variables": 2, "conditions": 2, "activations": 2, "variants": 2, "refused_fifth": 1});
    part
}
