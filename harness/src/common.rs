//! Plumbing shared by every check: report/evidence writer, known-findings matching, replay files,
//! worker pool (one subprocess per session).

use serde_json::{Map, Value, json};
use std::collections::BTreeMap;
use std::io::{Read, Write};
use std::path::{Path, PathBuf};
use std::process::{Command, Stdio};
use std::time::{Duration, Instant};

pub const VERIF: &str = "/verif";

#[derive(Clone, Copy, PartialEq, Eq, Debug)]
pub enum Tier {
    Quick,
    Thorough,
}

impl Tier {
    pub fn as_str(self) -> &'static str {
        match self {
            Tier::Quick => "quick",
            Tier::Thorough => "thorough",
        }
    }
}

#[derive(Clone, Debug)]
pub struct Violation {
    /// Classifier signature: what fails, specific enough to tell causes apart.
    pub sig: String,
    /// Human-readable description.
    pub detail: String,
    /// Everything needed to re-execute this case without the explorer.
    pub replay: Value,
}

/// One sub-check's contribution (a property may be decided by several engines).
#[derive(Default, Debug)]
pub struct Part {
    pub name: String,
    pub states: u64,
    pub transitions: u64,
    pub traces_validated: u64,
    pub evaluations: u64,
    pub distinct_nontrivial: u64,
    pub distinct_outcomes: u64,
    pub rule: String,
    pub samples: Vec<Value>,
    pub exhaustive: bool,
    pub caps_hit: Vec<String>,
    pub bounds: Value,
    pub extra: Map<String, Value>,
    pub violations: Vec<Violation>,
}

impl Part {
    pub fn new(name: &str) -> Self {
        Part {
            name: name.to_string(),
            exhaustive: true,
            bounds: json!({}),
            ..Default::default()
        }
    }
    pub fn violate(&mut self, sig: impl Into<String>, detail: impl Into<String>, replay: Value) {
        // keep at most a handful of witnesses per signature
        let sig = sig.into();
        let n = self.violations.iter().filter(|v| v.sig == sig).count();
        if n < 3 {
            self.violations.push(Violation {
                sig,
                detail: detail.into(),
                replay,
            });
        }
    }
    pub fn sample(&mut self, v: Value) {
        if self.samples.len() < 6 {
            self.samples.push(v);
        }
    }
}

pub struct Report {
    pub property: String,
    pub tier: Tier,
    pub level: &'static str,
    pub parts: Vec<Part>,
    pub assumptions: Vec<String>,
    pub started: Instant,
}

impl Report {
    pub fn new(property: &str, tier: Tier, level: &'static str) -> Self {
        Report {
            property: property.to_string(),
            tier,
            level,
            parts: vec![],
            assumptions: vec![],
            started: Instant::now(),
        }
    }
    pub fn assume(&mut self, s: &str) {
        self.assumptions.push(s.to_string());
    }
}

#[derive(Debug, Clone)]
pub struct KnownFinding {
    pub kind: String, // "finding" | "fixed"
    pub property: String,
    pub signature: String,
    pub what: String,
}

pub fn load_known_findings() -> Vec<KnownFinding> {
    let p = Path::new(VERIF).join("known_findings.jsonl");
    let Ok(s) = std::fs::read_to_string(p) else {
        return vec![];
    };
    s.lines()
        .filter(|l| !l.trim().is_empty() && !l.starts_with('#'))
        .filter_map(|l| serde_json::from_str::<Value>(l).ok())
        .map(|v| KnownFinding {
            kind: v["kind"].as_str().unwrap_or("finding").to_string(),
            property: v["property"].as_str().unwrap_or("").to_string(),
            signature: v["signature"].as_str().unwrap_or("").to_string(),
            what: v["what"].as_str().unwrap_or("").to_string(),
        })
        .collect()
}

pub fn seed() -> i64 {
    std::env::var("VERIF_SEED")
        .ok()
        .and_then(|s| s.parse().ok())
        .unwrap_or(0)
}

/// Write evidence, replays, print VIOLATION / KNOWN-FINDING lines, return the exit code.
pub fn finish(report: Report) -> i32 {
    let known = load_known_findings();
    let mut new_violations: Vec<(String, &Violation)> = vec![];
    let mut known_hits: BTreeMap<String, (String, usize)> = BTreeMap::new();
    for part in &report.parts {
        for v in &part.violations {
            let k = known.iter().find(|k| {
                k.kind == "finding" && k.property == report.property && k.signature == v.sig
            });
            match k {
                Some(k) => {
                    let e = known_hits
                        .entry(k.signature.clone())
                        .or_insert((k.what.clone(), 0));
                    e.1 += 1;
                }
                None => new_violations.push((part.name.clone(), v)),
            }
        }
    }

    // BSMC_OUT redirects evidence and replays (exploratory background runs must not overwrite
    // the evidence of the registered commands)
    let out_root = std::env::var("BSMC_OUT").unwrap_or_else(|_| VERIF.to_string());
    let replay_dir = Path::new(&out_root).join("replays").join(&report.property);
    let _ = std::fs::create_dir_all(&replay_dir);
    let mut lines = vec![];
    for (i, (part, v)) in new_violations.iter().enumerate() {
        let path = replay_dir.join(format!("{}-{}.json", sanitize(&v.sig), i));
        let body = json!({
            "property": report.property,
            "part": part,
            "signature": v.sig,
            "detail": v.detail,
            "replay": v.replay,
        });
        let _ = std::fs::write(&path, serde_json::to_string_pretty(&body).unwrap());
        lines.push(format!(
            "VIOLATION property={} replay={} sig={} :: {}",
            report.property,
            path.display(),
            v.sig,
            v.detail.replace('\n', " ")
        ));
    }
    for (sig, (what, n)) in &known_hits {
        println!(
            "KNOWN-FINDING: property={} {} [signature={} witnesses={}]",
            report.property, what, sig, n
        );
    }
    for l in &lines {
        println!("{l}");
    }

    // evidence
    let mut states = 0u64;
    let mut transitions = 0u64;
    let mut traces = 0u64;
    let mut evals = 0u64;
    let mut distinct = 0u64;
    let mut exhaustive = true;
    let mut samples = vec![];
    let mut rules = vec![];
    let mut parts_json = vec![];
    for p in &report.parts {
        states += p.states;
        transitions += p.transitions;
        traces += p.traces_validated;
        evals += p.evaluations;
        distinct += p.distinct_nontrivial;
        exhaustive &= p.exhaustive;
        for s in p.samples.iter().take(3) {
            samples.push(json!({"part": p.name, "case": s}));
        }
        rules.push(format!("[{}] {}", p.name, p.rule));
        let mut pj = Map::new();
        pj.insert("name".into(), json!(p.name));
        pj.insert("states".into(), json!(p.states));
        pj.insert("transitions".into(), json!(p.transitions));
        pj.insert("traces_validated_against_impl".into(), json!(p.traces_validated));
        pj.insert("evaluations".into(), json!(p.evaluations));
        pj.insert("distinct_nontrivial".into(), json!(p.distinct_nontrivial));
        pj.insert("distinct_outcomes".into(), json!(p.distinct_outcomes));
        pj.insert("exhaustive".into(), json!(p.exhaustive));
        pj.insert("caps_hit".into(), json!(p.caps_hit));
        pj.insert("bounds".into(), p.bounds.clone());
        pj.insert("violations".into(), json!(p.violations.len()));
        for (k, v) in &p.extra {
            pj.insert(k.clone(), v.clone());
        }
        parts_json.push(Value::Object(pj));
    }
    let mut coverage = Map::new();
    if report.level == "model_checking" {
        coverage.insert("states".into(), json!(states.max(1)));
        coverage.insert("transitions".into(), json!(transitions.max(1)));
        coverage.insert("traces_validated_against_impl".into(), json!(traces));
    }
    coverage.insert("evaluations".into(), json!(evals.max(1)));
    coverage.insert("distinct_nontrivial".into(), json!(distinct));
    coverage.insert("rule".into(), json!(rules.join(" || ")));
    if samples.is_empty() {
        samples.push(json!("no case executed"));
    }
    coverage.insert("samples".into(), json!(samples));
    coverage.insert("exhaustive".into(), json!(exhaustive));
    coverage.insert("parts".into(), json!(parts_json));
    coverage.insert(
        "known_findings_reproduced".into(),
        json!(
            known_hits
                .iter()
                .map(|(s, (w, n))| json!({"signature": s, "what": w, "witnesses": n}))
                .collect::<Vec<_>>()
        ),
    );
    let ev = json!({
        "property_id": report.property,
        "tier": report.tier.as_str(),
        "seed": seed(),
        "level": report.level,
        "coverage": coverage,
        "assumptions": report.assumptions,
        "wall_s": report.started.elapsed().as_secs_f64(),
        "violations": new_violations.len(),
    });
    let evdir = Path::new(&out_root).join("evidence");
    let _ = std::fs::create_dir_all(&evdir);
    let tmp = evdir.join(format!("{}.json.tmp", report.property));
    std::fs::write(&tmp, serde_json::to_string_pretty(&ev).unwrap()).expect("write evidence");
    std::fs::rename(&tmp, evdir.join(format!("{}.json", report.property))).expect("mv evidence");

    println!(
        "{} {}: level={} states={} transitions={} evaluations={} distinct={} exhaustive={} known={} violations={} wall={:.1}s",
        report.property,
        report.tier.as_str(),
        report.level,
        states,
        transitions,
        evals,
        distinct,
        exhaustive,
        known_hits.len(),
        new_violations.len(),
        report.started.elapsed().as_secs_f64()
    );
    if new_violations.is_empty() { 0 } else { 1 }
}

pub fn sanitize(s: &str) -> String {
    s.chars()
        .map(|c| if c.is_ascii_alphanumeric() || c == '-' || c == '_' { c } else { '_' })
        .take(80)
        .collect()
}

// ------------------------------------------------------------------------------------------
// Worker pool: each job runs `bsmc worker <kind>` with the job JSON on stdin, result JSON on
// stdout (last line starting with "RESULT "). Crash isolation + wall-clock watchdog.

#[derive(Debug, Clone)]
pub enum WorkerOutcome {
    Ok(Value),
    /// exit status != 0 or killed by a signal, with captured stderr tail
    Crashed { status: String, stderr: String, stdout: String },
    Timeout { stderr: String, stdout: String },
}

pub fn run_worker(kind: &str, job: &Value, timeout: Duration) -> WorkerOutcome {
    let exe = std::env::current_exe().expect("current_exe");
    let mut child = Command::new(exe)
        .arg("worker")
        .arg(kind)
        // fixed clean environment: the debuggee's initial stack (and so every stack address)
        // must be identical between the reference tracer and the debugger sessions
        .env_clear()
        .envs(worker_env())
        .stdin(Stdio::piped())
        .stdout(Stdio::piped())
        .stderr(Stdio::piped())
        .spawn()
        .expect("spawn worker");
    {
        let mut stdin = child.stdin.take().unwrap();
        let _ = stdin.write_all(serde_json::to_string(job).unwrap().as_bytes());
    }
    let mut out = child.stdout.take().unwrap();
    let mut err = child.stderr.take().unwrap();
    let t_out = std::thread::spawn(move || {
        let mut s = String::new();
        let _ = out.read_to_string(&mut s);
        s
    });
    let t_err = std::thread::spawn(move || {
        let mut s = Vec::new();
        let _ = err.read_to_end(&mut s);
        String::from_utf8_lossy(&s).to_string()
    });
    let start = Instant::now();
    let status = loop {
        match child.try_wait() {
            Ok(Some(st)) => break Some(st),
            Ok(None) => {
                if start.elapsed() > timeout {
                    kill_tree(child.id() as i32);
                    let _ = child.kill();
                    let _ = child.wait();
                    break None;
                }
                std::thread::sleep(Duration::from_millis(2));
            }
            Err(_) => break None,
        }
    };
    let stdout = t_out.join().unwrap_or_default();
    let stderr = t_err.join().unwrap_or_default();
    let tail = |s: &str| -> String {
        let n = s.len();
        let mut start = n.saturating_sub(3000);
        while !s.is_char_boundary(start) {
            start += 1;
        }
        s[start..].to_string()
    };
    match status {
        None => WorkerOutcome::Timeout { stderr: tail(&stderr), stdout: tail(&stdout) },
        Some(st) => {
            let result = stdout
                .lines()
                .rev()
                .find_map(|l| l.strip_prefix("RESULT "))
                .and_then(|l| serde_json::from_str::<Value>(l).ok());
            match (st.success(), result) {
                (true, Some(v)) => WorkerOutcome::Ok(v),
                _ => WorkerOutcome::Crashed {
                    status: format!("{st:?}"),
                    stderr: tail(&stderr),
                    stdout: tail(&stdout),
                },
            }
        }
    }
}

/// Kill every descendant of `pid` (debuggees forked by a worker).
pub fn kill_tree(pid: i32) {
    let mut stack = vec![pid];
    let mut all = vec![];
    while let Some(p) = stack.pop() {
        all.push(p);
        if let Ok(rd) = std::fs::read_dir(format!("/proc/{p}/task")) {
            for t in rd.flatten() {
                let path = t.path().join("children");
                if let Ok(s) = std::fs::read_to_string(path) {
                    for c in s.split_whitespace() {
                        if let Ok(c) = c.parse::<i32>() {
                            stack.push(c);
                        }
                    }
                }
            }
        }
    }
    for p in all.into_iter().rev() {
        unsafe {
            libc::kill(p, libc::SIGKILL);
        }
    }
}

pub fn emit_result(v: &Value) {
    println!("RESULT {}", serde_json::to_string(v).unwrap());
}

pub fn read_job() -> Value {
    let mut s = String::new();
    std::io::stdin().read_to_string(&mut s).expect("read job");
    serde_json::from_str(&s).expect("job json")
}

pub fn build_dir() -> PathBuf {
    let p = Path::new(VERIF).join("build");
    let _ = std::fs::create_dir_all(&p);
    p
}

pub fn wall_cap(tier: Tier, quick_s: u64, thorough_s: u64) -> Duration {
    // development aid: a lower cap for a look at a thorough part (never raises a cap)
    if let Some(s) = std::env::var("BSMC_WALL_S").ok().and_then(|s| s.parse::<u64>().ok()) {
        return Duration::from_secs(s.min(match tier {
            Tier::Quick => quick_s,
            Tier::Thorough => thorough_s,
        }));
    }
    match tier {
        Tier::Quick => Duration::from_secs(quick_s),
        Tier::Thorough => Duration::from_secs(thorough_s),
    }
}

/// The one environment every worker (and therefore every debuggee and the reference tracer) runs
/// in. PATH deliberately contains neither `ldd` nor `rustup`: BugStalker treats both as optional
/// (dependencies are then discovered at the dynamic linker's rendezvous point) and a session costs
/// two to three fewer process launches. RAYON_NUM_THREADS keeps the DWARF parser's pool small.
pub fn worker_env() -> Vec<(&'static str, &'static str)> {
    vec![("PATH", "/nonexistent"), ("HOME", "/root"), ("RAYON_NUM_THREADS", "2")]
}
