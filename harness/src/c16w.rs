//! C16 worker sweep: injected calls run once with exactly the given arguments and leave no trace.

use crate::e2w::Session;
use bugstalker::debugger::variable::dqe::Literal;
use serde_json::{Value, json};
use std::os::unix::fs::FileExt;

fn rd_u64(pid: i32, addr: u64) -> Option<u64> {
    let f = std::fs::File::open(format!("/proc/{pid}/mem")).ok()?;
    let mut b = [0u8; 8];
    f.read_exact_at(&mut b, addr).ok()?;
    Some(u64::from_le_bytes(b))
}

fn expected_sum(s: u64, id: u64, v: [i64; 6]) -> u64 {
    let mut s = s.wrapping_mul(31).wrapping_add(id.wrapping_mul(1000003));
    for (i, x) in v.iter().enumerate() {
        s = s.wrapping_add((*x as u64).wrapping_mul(i as u64 + 7));
    }
    s
}

fn regs_json(r: &libc::user_regs_struct) -> Vec<u64> {
    vec![
        r.rax, r.rbx, r.rcx, r.rdx, r.rsi, r.rdi, r.rbp, r.rsp, r.r8, r.r9, r.r10, r.r11, r.r12, r.r13, r.r14, r.r15, r.rip,
        r.eflags & !0x10100, r.fs_base, r.gs_base,
    ]
}

pub fn sweep(s: &mut Session, full: bool) -> Value {
    let pid = s.pid();
    let tid = s.dbg.as_ref().unwrap().ecx().pid_on_focus();
    let find = |n: &str| s.elf.data_symbols.iter().find(|(name, _, _)| name.contains(n)).map(|x| x.1);
    let (Some(logn), Some(logsum)) = (find("LOGN"), find("LOGSUM")) else {
        return json!({"error": "LOGN/LOGSUM symbols not found"});
    };
    let mut findings: Vec<Value> = vec![];
    let mut evals = 0u64;
    let mut samples = vec![];
    // ---- the call specs
    let ints: Vec<i64> = if full { vec![0, 1, -1, 255, 256, i64::MAX] } else { vec![0, -1, 256, i64::MAX] };
    let mut specs: Vec<(&str, u64, Vec<Literal>, [i64; 6], bool)> = vec![];
    specs.push(("c0", 0, vec![], [0; 6], true));
    for a in &ints {
        specs.push(("c1", 1, vec![Literal::Int(*a)], [*a, 0, 0, 0, 0, 0], true));
    }
    for a in &ints {
        for b in [true, false] {
            specs.push(("c2", 2, vec![Literal::Int(*a), Literal::Bool(b)], [*a, b as i64, 0, 0, 0, 0], true));
        }
    }
    for a in [0i64, 1, 255] {
        for b in &ints {
            for c in [0i64, 1, 4294967295] {
                specs.push(("c3", 3, vec![Literal::Int(a), Literal::Int(*b), Literal::Int(c)], [a, *b, c, 0, 0, 0], true));
            }
        }
    }
    for bits in 0..64u32 {
        let v: Vec<i64> = (0..6).map(|i| if bits >> i & 1 == 1 { -1 } else { 0 }).collect();
        if !full && bits % 5 != 0 {
            continue;
        }
        specs.push(("c6", 6, v.iter().map(|x| Literal::Int(*x)).collect(), [v[0], v[1], v[2], v[3], v[4], v[5]], true));
    }
    // pointer parameters: the address literal must arrive as it is (the function logs what it
    // reads through it); ACC and LOGN are statics of the program, their values read from /proc
    if let Some(acc) = find("ACC") {
        let accv = rd_u64(pid, acc).unwrap_or(0) as i64;
        for k in &ints {
            specs.push(("cp", 7, vec![Literal::Address(acc as usize), Literal::Int(*k)], [accv, *k, 0, 0, 0, 0], true));
            // LOGN changes with every call: its value is filled in right before the call (marker)
            specs.push(("cq", 8, vec![Literal::Int(*k), Literal::Address(acc as usize), Literal::Address(logn as usize)], [*k, accv, i64::MIN, 0, 0, 0], true));
        }
        specs.push(("cp", 7, vec![Literal::Int(5), Literal::Int(1)], [0; 6], false));
        specs.push(("c1", 1, vec![Literal::Address(acc as usize)], [0; 6], false));
        specs.push(("cq", 8, vec![Literal::Address(acc as usize), Literal::Address(acc as usize), Literal::Address(acc as usize)], [0; 6], false));
    }
    // calls that cannot be made
    specs.push(("nosuchfn", 9, vec![], [0; 6], false));
    specs.push(("c1", 1, vec![], [0; 6], false));
    specs.push(("c1", 1, vec![Literal::Int(1), Literal::Int(2)], [0; 6], false));
    specs.push(("c1", 1, vec![Literal::String("x".into())], [0; 6], false));
    specs.push(("c2", 2, vec![Literal::Bool(true), Literal::Int(1)], [0; 6], false));

    let maps_of = |pid: i32| std::fs::read_to_string(format!("/proc/{pid}/maps")).unwrap_or_default();
    let mut ok_calls = 0u64;
    for (name, id, args, mut vals, valid) in specs {
        evals += 1;
        if vals[2] == i64::MIN {
            vals[2] = rd_u64(pid, logn).unwrap_or(0) as i64;
        }
        let regs0 = nix::sys::ptrace::getregs(tid).ok();
        let text0 = s.text_diff(pid);
        let maps0 = maps_of(pid);
        let n0 = rd_u64(pid, logn).unwrap_or(0);
        let s0 = rd_u64(pid, logsum).unwrap_or(0);
        let r = s.dbg.as_mut().unwrap().call(name, &args);
        let regs1 = nix::sys::ptrace::getregs(tid).ok();
        let text1 = s.text_diff(pid);
        let maps1 = maps_of(pid);
        let n1 = rd_u64(pid, logn).unwrap_or(0);
        let s1 = rd_u64(pid, logsum).unwrap_or(0);
        let desc = format!("call {name} {}", args.iter().map(|a| a.to_string()).collect::<Vec<_>>().join(" "));
        if let (Some(a), Some(b)) = (&regs0, &regs1) {
            let (ra, rb) = (regs_json(a), regs_json(b));
            if ra != rb {
                let names = ["rax", "rbx", "rcx", "rdx", "rsi", "rdi", "rbp", "rsp", "r8", "r9", "r10", "r11", "r12", "r13", "r14", "r15", "rip", "eflags", "fs_base", "gs_base"];
                let diff: Vec<String> = names.iter().enumerate().filter(|(i, _)| ra[*i] != rb[*i]).map(|(i, n)| format!("{n}: {:#x} -> {:#x}", ra[i], rb[i])).collect();
                findings.push(json!({"sig": format!("C16:registers-not-restored:{}", if r.is_ok() { "after-call" } else { "after-failed-call" }), "detail": format!("`{desc}`: {}", diff.join(", "))}));
            }
        }
        if text0 != text1 {
            findings.push(json!({"sig": "C16:code-not-restored", "detail": format!("`{desc}`: text diff before {text0:x?}, after {text1:x?}")}));
        }
        if maps0 != maps1 {
            findings.push(json!({"sig": "C16:mapping-left-behind", "detail": format!("`{desc}`: /proc/pid/maps changed")}));
        }
        match (&r, valid) {
            (Ok(()), true) => {
                ok_calls += 1;
                if n1 != n0 + 1 {
                    findings.push(json!({"sig": format!("C16:ran-{}-times", n1.wrapping_sub(n0)), "detail": format!("`{desc}`: the function's own counter went from {n0} to {n1}")}));
                } else if s1 != expected_sum(s0, id, vals) {
                    findings.push(json!({"sig": format!("C16:wrong-arguments:{name}"), "detail": format!("`{desc}`: argument checksum {s1:#x}, expected {:#x} for arguments {vals:?}", expected_sum(s0, id, vals))}));
                }
            }
            (Ok(()), false) => findings.push(json!({"sig": "C16:impossible-call-accepted", "detail": format!("`{desc}` succeeded (counter {n0} -> {n1})")})),
            (Err(e), true) => findings.push(json!({"sig": format!("C16:valid-call-refused:{name}"), "detail": format!("`{desc}`: {e}")})),
            (Err(_), false) => {
                if n1 != n0 || s1 != s0 {
                    findings.push(json!({"sig": "C16:failed-call-had-side-effects", "detail": format!("`{desc}`: counter {n0} -> {n1}")}));
                }
            }
        }
        if samples.len() < 4 && evals % 17 == 1 {
            samples.push(json!(desc));
        }
    }
    json!({"findings": findings, "evaluations": evals, "nontrivial": ok_calls, "logn": rd_u64(pid, logn), "logsum": rd_u64(pid, logsum), "samples": samples})
}
