//! Reference tracer: an independent ptrace single-stepper (no BugStalker code) that records the
//! true execution of a deterministic debuggee from `main` to exit: (pc, sp, register hash, memory
//! hash) per instruction, a shadow call stack from call/ret tracking, stdout and exit status.

use capstone::prelude::*;
use object::{Object, ObjectSection, ObjectSymbol};
use serde::{Deserialize, Serialize};
use std::collections::hash_map::DefaultHasher;
use std::ffi::CString;
use std::hash::{Hash, Hasher};
use std::io::Read;
use std::os::unix::fs::FileExt;

pub const PIE_BASE: u64 = 0x5555_5555_4000;

#[derive(Clone, Debug, Serialize, Deserialize)]
pub struct Step {
    pub pc: u64,
    pub sp: u64,
    pub regs: u64,
    pub mem: u64,
    /// index into `RefTrace::stacks`
    pub stack: u32,
    /// first general purpose argument registers (for per-activation argument truth)
    pub rdi: u64,
}

#[derive(Clone, Debug, Serialize, Deserialize, PartialEq, Eq, Hash)]
pub struct Frame {
    /// return address of the call that created this frame
    pub ret: u64,
    /// stack pointer just before the call instruction pushed the return address (= callee CFA)
    pub cfa: u64,
    /// entry pc of the callee
    pub entry: u64,
}

#[derive(Clone, Debug, Serialize, Deserialize)]
pub struct RefTrace {
    pub exe: String,
    pub base: u64,
    pub main: u64,
    pub main_entry_sp: u64,
    pub steps: Vec<Step>,
    /// distinct shadow stacks (outermost first; frame 0 is main's activation; empty after main returned)
    pub stacks: Vec<Vec<Frame>>,
    pub stdout: String,
    pub exit_code: i32,
    pub regions: Vec<(u64, u64)>,
    /// (index of the first step executed after delivery, signal number)
    #[serde(default)]
    pub signals: Vec<(usize, i32)>,
}

pub struct ElfInfo {
    pub pie: bool,
    pub base: u64,
    pub main: u64,
    pub entry: u64,
    /// writable data regions (relocated) hashed into the state: .data, .bss
    pub regions: Vec<(u64, u64)>,
    /// executable sections (relocated addr, file offset, size)
    pub text: Vec<(u64, u64, u64)>,
    pub symbols: Vec<(String, u64, u64)>,
    /// data objects (name, relocated address, size)
    pub data_symbols: Vec<(String, u64, u64)>,
}

/// File address of the first text symbol whose (mangled) name satisfies `pred`; works for shared
/// objects too (no `main` needed).
pub fn text_symbol(file: &str, pred: impl Fn(&str) -> bool) -> Option<u64> {
    let data = std::fs::read(file).ok()?;
    let f = object::File::parse(&*data).ok()?;
    f.symbols().find(|s| s.kind() == object::SymbolKind::Text && s.size() > 0 && s.name().map(|n| pred(n)).unwrap_or(false)).map(|s| s.address())
}

pub fn elf_info(exe: &str) -> Result<ElfInfo, String> {
    let data = std::fs::read(exe).map_err(|e| format!("{exe}: {e}"))?;
    let f = object::File::parse(&*data).map_err(|e| e.to_string())?;
    let pie = f.kind() == object::ObjectKind::Dynamic;
    let base = if pie { PIE_BASE } else { 0 };
    let mut main = 0;
    let mut symbols = vec![];
    let mut data_symbols = vec![];
    for s in f.symbols() {
        if let Ok(n) = s.name() {
            if n == "main" {
                main = s.address() + base;
            }
            if s.kind() == object::SymbolKind::Text && s.size() > 0 {
                symbols.push((n.to_string(), s.address() + base, s.size()));
            }
            if s.kind() == object::SymbolKind::Data && s.size() > 0 {
                data_symbols.push((n.to_string(), s.address() + base, s.size()));
            }
        }
    }
    if main == 0 {
        return Err("no main symbol".into());
    }
    let mut regions = vec![];
    let mut text = vec![];
    for s in f.sections() {
        let name = s.name().unwrap_or("");
        if name == ".data" || name == ".bss" {
            if s.size() > 0 {
                regions.push((s.address() + base, s.size()));
            }
        }
        if let object::SectionKind::Text = s.kind() {
            if let Some((off, size)) = s.file_range() {
                text.push((s.address() + base, off, size));
            }
        }
    }
    Ok(ElfInfo { pie, base, main, entry: f.entry() + base, regions, text, symbols, data_symbols })
}

pub fn hash_regs(r: &libc::user_regs_struct) -> u64 {
    let mut h = DefaultHasher::new();
    // everything the program can observe, minus pc/sp (kept separately), segment bases and
    // the trap/resume flags the tracer manipulates
    let fl = r.eflags & !(0x100 | 0x10000);
    // r11 receives rflags at every `syscall`; under the reference tracer's single-stepping that
    // copy has TF set, under a free-running debugger it has not: ignore that one bit
    let r11 = r.r11 & !0x100;
    [
        r.rax, r.rbx, r.rcx, r.rdx, r.rsi, r.rdi, r.rbp, r.r8, r.r9, r.r10, r11, r.r12, r.r13,
        r.r14, r.r15, fl,
    ]
    .hash(&mut h);
    h.finish()
}

pub fn hash_mem(pid: i32, sp: u64, top: u64, regions: &[(u64, u64)]) -> u64 {
    let mut h = DefaultHasher::new();
    let Ok(f) = std::fs::File::open(format!("/proc/{pid}/mem")) else {
        return 0;
    };
    let mut rd = |addr: u64, len: u64| {
        let mut buf = vec![0u8; len as usize];
        if f.read_exact_at(&mut buf, addr).is_ok() {
            buf.hash(&mut h);
        } else {
            0xdeadu64.hash(&mut h);
        }
    };
    if sp < top && top - sp < (1 << 20) {
        rd(sp, top - sp);
    }
    for (a, l) in regions {
        rd(*a, *l);
    }
    h.finish()
}

fn wait(pid: i32) -> Result<i32, String> {
    let mut st = 0;
    let r = unsafe { libc::waitpid(pid, &mut st, libc::__WALL) };
    if r < 0 {
        return Err(format!("waitpid: {}", std::io::Error::last_os_error()));
    }
    Ok(st)
}

fn getregs(pid: i32) -> Result<libc::user_regs_struct, String> {
    let mut regs: libc::user_regs_struct = unsafe { std::mem::zeroed() };
    let r = unsafe { libc::ptrace(libc::PTRACE_GETREGS, pid, 0, &mut regs as *mut _) };
    if r < 0 {
        return Err(format!("GETREGS: {}", std::io::Error::last_os_error()));
    }
    Ok(regs)
}

fn peek(pid: i32, addr: u64) -> Result<u64, String> {
    unsafe { *libc::__errno_location() = 0 };
    let r = unsafe { libc::ptrace(libc::PTRACE_PEEKTEXT, pid, addr, 0) };
    if r == -1 && unsafe { *libc::__errno_location() } != 0 {
        return Err(format!("PEEK {addr:#x}: {}", std::io::Error::last_os_error()));
    }
    Ok(r as u64)
}

fn poke(pid: i32, addr: u64, val: u64) -> Result<(), String> {
    let r = unsafe { libc::ptrace(libc::PTRACE_POKETEXT, pid, addr, val) };
    if r < 0 {
        return Err(format!("POKE: {}", std::io::Error::last_os_error()));
    }
    Ok(())
}

/// Spawn `exe` stopped at its exec trap under PTRACE_TRACEME, stdout/stderr into a pipe.
fn spawn_traced(exe: &str, args: &[String]) -> Result<(i32, std::fs::File), String> {
    let mut fds = [0i32; 2];
    if unsafe { libc::pipe(fds.as_mut_ptr()) } != 0 {
        return Err("pipe".into());
    }
    let cexe = CString::new(exe).unwrap();
    let mut cargs: Vec<CString> = vec![cexe.clone()];
    cargs.extend(args.iter().map(|a| CString::new(a.as_str()).unwrap()));
    let mut argv: Vec<*const libc::c_char> = cargs.iter().map(|c| c.as_ptr()).collect();
    argv.push(std::ptr::null());
    let pid = unsafe { libc::fork() };
    if pid < 0 {
        return Err("fork".into());
    }
    if pid == 0 {
        unsafe {
            libc::personality(libc::ADDR_NO_RANDOMIZE as libc::c_ulong);
            libc::dup2(fds[1], 1);
            libc::dup2(fds[1], 2);
            libc::close(fds[0]);
            libc::close(fds[1]);
            libc::ptrace(libc::PTRACE_TRACEME, 0, 0, 0);
            // same environment as the calling process (workers run with a fixed clean one)
            libc::execv(cexe.as_ptr(), argv.as_ptr());
            libc::_exit(127);
        }
    }
    unsafe { libc::close(fds[1]) };
    use std::os::fd::FromRawFd;
    let out = unsafe { std::fs::File::from_raw_fd(fds[0]) };
    let st = wait(pid)?;
    if !libc::WIFSTOPPED(st) {
        return Err(format!("child did not stop at exec: status {st:#x}"));
    }
    unsafe {
        libc::ptrace(libc::PTRACE_SETOPTIONS, pid, 0, libc::PTRACE_O_EXITKILL);
    }
    Ok((pid, out))
}

pub fn native_run(exe: &str, args: &[String]) -> Result<(String, i32), String> {
    let out = std::process::Command::new(exe)
        .args(args)
        .output()
        .map_err(|e| e.to_string())?;
    let code = match out.status.code() {
        Some(c) => c,
        None => {
            use std::os::unix::process::ExitStatusExt;
            -(out.status.signal().unwrap_or(0))
        }
    };
    let mut s = String::from_utf8_lossy(&out.stdout).to_string();
    s.push_str(&String::from_utf8_lossy(&out.stderr));
    Ok((s, code))
}

pub fn trace(exe: &str, max_steps: usize) -> Result<RefTrace, String> {
    let info = elf_info(exe)?;
    let (pid, mut out) = spawn_traced(exe, &[])?;
    // run to main
    let word = peek(pid, info.main)?;
    poke(pid, info.main, (word & !0xff) | 0xcc)?;
    unsafe { libc::ptrace(libc::PTRACE_CONT, pid, 0, 0) };
    let st = wait(pid)?;
    if !(libc::WIFSTOPPED(st) && libc::WSTOPSIG(st) == libc::SIGTRAP) {
        return Err(format!("did not reach main: status {st:#x}"));
    }
    poke(pid, info.main, word)?;
    let mut regs = getregs(pid)?;
    if regs.rip != info.main + 1 {
        return Err(format!("trap at {:#x}, expected main+1 {:#x}", regs.rip, info.main + 1));
    }
    regs.rip = info.main;
    unsafe { libc::ptrace(libc::PTRACE_SETREGS, pid, 0, &regs as *const _) };

    let cs = Capstone::new()
        .x86()
        .mode(arch::x86::ArchMode::Mode64)
        .detail(true)
        .build()
        .map_err(|e| e.to_string())?;
    let memf = std::fs::File::open(format!("/proc/{pid}/mem")).map_err(|e| e.to_string())?;
    let main_entry_sp = regs.rsp;
    let top = main_entry_sp + 8;
    let mut steps = vec![];
    // frame 0 is main's own activation (return address = the word at the entry stack pointer)
    let main_ret = peek(pid, main_entry_sp)?;
    let mut shadow: Vec<Frame> = vec![Frame { ret: main_ret, cfa: main_entry_sp + 8, entry: info.main }];
    let mut stacks: Vec<Vec<Frame>> = vec![];
    let mut stack_idx: std::collections::HashMap<Vec<Frame>, u32> = Default::default();
    let exit_code;
    let mut signals: Vec<(usize, i32)> = vec![];
    let mut in_handler: Vec<usize> = vec![];
    loop {
        let r = getregs(pid)?;
        let sidx = match stack_idx.get(&shadow) {
            Some(i) => *i,
            None => {
                stacks.push(shadow.clone());
                let i = (stacks.len() - 1) as u32;
                stack_idx.insert(shadow.clone(), i);
                i
            }
        };
        steps.push(Step {
            pc: r.rip,
            sp: r.rsp,
            regs: hash_regs(&r),
            mem: hash_mem(pid, r.rsp, top, &info.regions),
            stack: sidx,
            rdi: r.rdi,
        });
        if steps.len() > max_steps {
            unsafe { libc::kill(pid, libc::SIGKILL) };
            let _ = wait(pid);
            return Err(format!("trace longer than {max_steps} steps"));
        }
        // classify the instruction about to execute
        let mut code = [0u8; 16];
        let _ = memf.read_at(&mut code, r.rip);
        let (is_call, is_ret, len) = {
            let insns = cs.disasm_count(&code, r.rip, 1).map_err(|e| e.to_string())?;
            match insns.iter().next() {
                Some(i) => {
                    let d = cs.insn_detail(i).map_err(|e| e.to_string())?;
                    let groups: Vec<u8> = d.groups().iter().map(|g| g.0).collect();
                    (
                        groups.contains(&(capstone::InsnGroupType::CS_GRP_CALL as u8)),
                        groups.contains(&(capstone::InsnGroupType::CS_GRP_RET as u8)),
                        i.bytes().len() as u64,
                    )
                }
                None => (false, false, 1),
            }
        };
        unsafe { libc::ptrace(libc::PTRACE_SINGLESTEP, pid, 0, 0) };
        let st = wait(pid)?;
        if libc::WIFEXITED(st) {
            exit_code = libc::WEXITSTATUS(st);
            break;
        }
        if libc::WIFSIGNALED(st) {
            exit_code = -libc::WTERMSIG(st);
            break;
        }
        if !libc::WIFSTOPPED(st) {
            return Err(format!("unexpected stop status {st:#x} at step {}", steps.len()));
        }
        if libc::WSTOPSIG(st) != libc::SIGTRAP {
            // signal-delivery-stop: deliver the signal and single-step into its handler; the
            // kernel-built handler frame is recorded as a pseudo call frame until rt_sigreturn
            let sig = libc::WSTOPSIG(st);
            let at = getregs(pid)?;
            unsafe { libc::ptrace(libc::PTRACE_SINGLESTEP, pid, 0, sig as libc::c_long) };
            let st2 = wait(pid)?;
            if libc::WIFEXITED(st2) {
                exit_code = libc::WEXITSTATUS(st2);
                break;
            }
            if libc::WIFSIGNALED(st2) {
                exit_code = -libc::WTERMSIG(st2);
                break;
            }
            let n2 = getregs(pid)?;
            signals.push((steps.len(), sig));
            if n2.rsp < at.rsp {
                shadow.push(Frame { ret: at.rip, cfa: n2.rsp + 8, entry: n2.rip });
                in_handler.push(shadow.len());
            }
            continue;
        }
        let n = getregs(pid)?;
        if !in_handler.is_empty() && code[0] == 0x0f && code[1] == 0x05 && r.rax == 15 {
            // rt_sigreturn: the handler frame is gone
            let depth = in_handler.pop().unwrap();
            shadow.truncate(depth.saturating_sub(1));
            continue;
        }
        if is_call && n.rsp == r.rsp - 8 {
            shadow.push(Frame { ret: r.rip + len, cfa: r.rsp, entry: n.rip });
        } else if is_ret && !shadow.is_empty() && n.rsp >= r.rsp + 8 {
            shadow.pop();
        }
    }
    let mut so = String::new();
    let _ = out.read_to_string(&mut so);
    Ok(RefTrace {
        exe: exe.to_string(),
        base: info.base,
        main: info.main,
        main_entry_sp,
        steps,
        stacks,
        stdout: so,
        exit_code,
        regions: info.regions,
        signals,
    })
}

/// Cached trace next to the executable.
pub fn trace_cached(exe: &str) -> Result<(RefTrace, String), String> {
    // the initial stack (hence every stack address) depends on the environment block
    let mut envh = DefaultHasher::new();
    let mut env: Vec<(String, String)> = std::env::vars().collect();
    env.sort();
    env.hash(&mut envh);
    let cache = format!("{exe}.reftrace.v4.{:016x}.json", envh.finish());
    let exe_m = std::fs::metadata(exe).and_then(|m| m.modified()).ok();
    if let (Ok(m), Some(em)) = (std::fs::metadata(&cache).and_then(|m| m.modified()), exe_m) {
        if m >= em {
            if let Ok(s) = std::fs::read_to_string(&cache) {
                if let Ok(t) = serde_json::from_str::<RefTrace>(&s) {
                    return Ok((t, cache));
                }
            }
        }
    }
    let mut t = trace(exe, 400_000)?;
    // Further runs must give the same (pc, sp) sequence (the debuggee is deterministic). Register
    // and memory hashes that differ between runs (values derived from AT_RANDOM: stack canary,
    // pointer guard) are cleared to 0 = "unknown" and never used for matching.
    for _ in 0..2 {
        let t2 = trace(exe, 400_000)?;
        if t.steps.len() != t2.steps.len()
            || t.steps.iter().zip(&t2.steps).any(|(a, b)| a.pc != b.pc || a.sp != b.sp)
        {
            return Err(format!("reference trace of {exe} is not reproducible"));
        }
        for (a, b) in t.steps.iter_mut().zip(&t2.steps) {
            if a.regs != b.regs {
                a.regs = 0;
            }
            if a.mem != b.mem {
                a.mem = 0;
            }
            if a.rdi != b.rdi {
                a.rdi = 0;
            }
        }
    }
    let (nout, ncode) = native_run(exe, &[])?;
    if nout != t.stdout || ncode != t.exit_code {
        return Err(format!(
            "traced run differs from native run: {:?}/{} vs {:?}/{}",
            t.stdout, t.exit_code, nout, ncode
        ));
    }
    let _ = std::fs::write(&cache, serde_json::to_string(&t).unwrap());
    Ok((t, cache))
}
