//! E5 explorer: explicit-state exploration of DAP request histories against the real adapter.
//! Serves C12 (protocol monitor, Appendix B of DESIGN.md) and C13 (breakpoint replace/option
//! semantics against the reference trace).

use crate::common::*;
use crate::e2x::Prog;
use crate::isession::{ISession, SessErr};
use serde::{Deserialize, Serialize};
use serde_json::{Value, json};
use std::collections::{BTreeMap, BTreeSet, HashMap, HashSet, VecDeque};
use std::sync::{Condvar, Mutex};
use std::time::{Duration, Instant};

#[derive(Clone, Debug, PartialEq, Eq, Hash, Serialize, Deserialize)]
pub enum Sym {
    Initialize,
    Launch,
    LaunchMissingProgram,
    LaunchIllTyped,
    AttachMissingPid,
    /// setBreakpoints for the program's source with the listed (line index, option) pairs
    SetBps(Vec<(u8, BpOpt)>),
    SetBpsMissingSource,
    SetBpsIllTyped,
    SetFnBps(Vec<u8>),
    SetFnBpsIllTyped,
    SetInsnBps(Vec<u8>),
    /// one instruction breakpoint (candidate 0) with an option
    SetInsnBpOpt(BpOpt),
    ConfigurationDone,
    Threads,
    StackTrace,
    StackTraceMissing,
    StackTraceIllTyped,
    Scopes,
    ScopesBad,
    Variables,
    VariablesBad,
    Evaluate,
    EvaluateMissing,
    Continue,
    ContinueIllTyped,
    Next,
    StepIn,
    StepOut,
    Pause,
    Restart,
    Terminate,
    Disconnect(bool),
    CancelFuture,
    CancelNone,
    Unknown,
    /// `completions` at the end of an ASCII text / at a column past the end of a non-ASCII text
    Completions,
    CompletionsPastEnd,
}

#[derive(Clone, Copy, Debug, PartialEq, Eq, Hash, Serialize, Deserialize, PartialOrd, Ord)]
pub enum BpOpt {
    Plain,
    CondTrue,
    CondFalse,
    CondI2,
    Hit2,
    HitGe2,
    Log,
    /// logMessage + hitCondition "2": logs on the second hit only, never stops
    LogHit2,
    /// logMessage + condition "false": never logs, never stops
    LogCondFalse,
}

impl Sym {
    pub fn command(&self) -> &'static str {
        match self {
            Sym::Initialize => "initialize",
            Sym::Launch | Sym::LaunchMissingProgram | Sym::LaunchIllTyped => "launch",
            Sym::AttachMissingPid => "attach",
            Sym::SetBps(_) | Sym::SetBpsMissingSource | Sym::SetBpsIllTyped => "setBreakpoints",
            Sym::SetFnBps(_) | Sym::SetFnBpsIllTyped => "setFunctionBreakpoints",
            Sym::SetInsnBps(_) | Sym::SetInsnBpOpt(_) => "setInstructionBreakpoints",
            Sym::ConfigurationDone => "configurationDone",
            Sym::Threads => "threads",
            Sym::StackTrace | Sym::StackTraceMissing | Sym::StackTraceIllTyped => "stackTrace",
            Sym::Scopes | Sym::ScopesBad => "scopes",
            Sym::Variables | Sym::VariablesBad => "variables",
            Sym::Evaluate | Sym::EvaluateMissing => "evaluate",
            Sym::Continue | Sym::ContinueIllTyped => "continue",
            Sym::Next => "next",
            Sym::StepIn => "stepIn",
            Sym::StepOut => "stepOut",
            Sym::Pause => "pause",
            Sym::Restart => "restart",
            Sym::Terminate => "terminate",
            Sym::Disconnect(_) => "disconnect",
            Sym::CancelFuture | Sym::CancelNone => "cancel",
            Sym::Unknown => "noSuchCommand",
            Sym::Completions | Sym::CompletionsPastEnd => "completions",
        }
    }
    pub fn label(&self) -> String {
        match self {
            Sym::SetBps(v) => format!("setBreakpoints{:?}", v),
            Sym::SetFnBps(v) => format!("setFunctionBreakpoints{:?}", v),
            Sym::SetInsnBps(v) => format!("setInstructionBreakpoints{:?}", v),
            Sym::SetInsnBpOpt(o) => format!("setInstructionBreakpoints[0 {o:?}]"),
            Sym::Disconnect(t) => format!("disconnect(terminate={t})"),
            o => format!("{o:?}"),
        }
    }
    pub fn resumes(&self) -> bool {
        matches!(self, Sym::Continue | Sym::Next | Sym::StepIn | Sym::StepOut | Sym::ConfigurationDone | Sym::Restart)
    }
}

/// Static facts about the program the requests refer to.
pub struct DapCtx<'a> {
    pub p: &'a Prog,
    /// candidate source lines (index -> line)
    pub lines: Vec<u32>,
    /// candidate function names
    pub fns: Vec<String>,
    /// candidate instruction addresses
    pub insns: Vec<u64>,
    /// where a breakpoint on fns[0] stops according to the reference reader, used when no patch
    /// inside the function can be observed (empty: trust the observed patches only)
    pub fn_fallback: Vec<u64>,
}

fn opt_json(o: BpOpt) -> Value {
    match o {
        BpOpt::Plain => json!({}),
        BpOpt::CondTrue => json!({"condition": "true"}),
        BpOpt::CondFalse => json!({"condition": "false"}),
        // conditions are literals or data queries judged by truthiness: `i` holds when i != 0
        BpOpt::CondI2 => json!({"condition": "(i)"}),
        BpOpt::Hit2 => json!({"hitCondition": "2"}),
        BpOpt::HitGe2 => json!({"hitCondition": ">= 2"}),
        BpOpt::Log => json!({"logMessage": "log {i}"}),
        BpOpt::LogHit2 => json!({"logMessage": "log {i}", "hitCondition": "2"}),
        BpOpt::LogCondFalse => json!({"logMessage": "log {i}", "condition": "false"}),
    }
}

pub fn request(cx: &DapCtx, s: &Sym, seq: i64, thread_id: i64) -> Value {
    let src = json!({"path": cx.p.built.src_path, "name": cx.p.built.program.src_file});
    let args = match s {
        Sym::Initialize => json!({"adapterID": "bsmc", "linesStartAt1": true}),
        Sym::Launch => json!({"program": cx.p.built.exe, "args": []}),
        Sym::LaunchMissingProgram => json!({}),
        Sym::LaunchIllTyped => json!({"program": 5, "args": "x"}),
        Sym::AttachMissingPid => json!({}),
        Sym::SetBps(v) => {
            let bps: Vec<Value> = v
                .iter()
                .map(|(k, o)| {
                    let mut b = opt_json(*o);
                    b["line"] = json!(cx.lines[*k as usize]);
                    b
                })
                .collect();
            json!({"source": src, "breakpoints": bps})
        }
        Sym::SetBpsMissingSource => json!({"breakpoints": [{"line": 1}]}),
        Sym::SetBpsIllTyped => json!({"source": src, "breakpoints": [{"line": "x"}, 7], "lines": "no"}),
        Sym::SetFnBps(v) => json!({"breakpoints": v.iter().map(|k| json!({"name": cx.fns[*k as usize]})).collect::<Vec<_>>()}),
        Sym::SetFnBpsIllTyped => json!({"breakpoints": {"name": 3}}),
        Sym::SetInsnBps(v) => json!({"breakpoints": v.iter().map(|k| json!({"instructionReference": format!("0x{:x}", cx.insns[*k as usize])})).collect::<Vec<_>>()}),
        Sym::SetInsnBpOpt(o) => {
            let mut b = opt_json(*o);
            b["instructionReference"] = json!(format!("0x{:x}", cx.insns[0]));
            json!({"breakpoints": [b]})
        }
        Sym::ConfigurationDone => json!({}),
        Sym::Threads => json!({}),
        Sym::StackTrace => json!({"threadId": thread_id}),
        Sym::StackTraceMissing => json!({}),
        Sym::StackTraceIllTyped => json!({"threadId": "one", "levels": -1}),
        Sym::Scopes => json!({"frameId": thread_id << 16}),
        Sym::ScopesBad => json!({"frameId": -1}),
        Sym::Variables => json!({"variablesReference": 1}),
        Sym::VariablesBad => json!({"variablesReference": 9223372036854775807i64}),
        Sym::Evaluate => json!({"expression": "a", "context": "watch"}),
        Sym::EvaluateMissing => json!({}),
        Sym::Completions => json!({"text": "co", "column": 3}),
        Sym::CompletionsPastEnd => json!({"text": "h\u{e9}llo \u{2713}", "column": 9}),
        Sym::Continue => json!({"threadId": thread_id}),
        Sym::ContinueIllTyped => json!({"threadId": "x"}),
        Sym::Next | Sym::StepIn | Sym::StepOut | Sym::Pause => json!({"threadId": thread_id}),
        Sym::Restart => json!({}),
        Sym::Terminate => json!({}),
        Sym::Disconnect(t) => json!({"terminateDebuggee": t}),
        Sym::CancelFuture => json!({"requestId": seq + 1}),
        Sym::CancelNone => json!({}),
        Sym::Unknown => json!({"x": 1}),
    };
    json!({"seq": seq, "type": "request", "command": s.command(), "arguments": args})
}

/// What the explorer knows about the session, derived from the wire only.
#[derive(Clone, Debug, Default)]
pub struct DModel {
    pub initialized: bool,
    pub launched: bool,
    pub configured: bool,
    pub stopped_pc: Option<u64>,
    pub idx: Option<usize>,
    pub exited: bool,
    pub terminated: bool,
    pub ended: bool,
    pub thread_id: i64,
    pub line_bps: BTreeMap<u8, BpOpt>,
    pub fn_bps: BTreeSet<u8>,
    pub insn_bps: BTreeSet<u8>,
    pub insn_opt: Option<BpOpt>,
    /// were the current sets sent before the process existed / before configurationDone?
    pub bps_set_phase: u8,
    /// lifecycle phase (0 before launch, 1 before configurationDone, 2 running) in which the
    /// current / the replaced set of each kind was sent
    pub line_phase: u8,
    pub prev_line_phase: u8,
    pub fn_phase: u8,
    pub insn_phase: u8,
    pub hits: BTreeMap<u64, u32>,
    pub cancelled_next: bool,
    /// hit counters of the adapter are in a state the property does not define (after restart)
    pub hits_unknown: bool,
    /// kinds (0 line, 1 function, 2 instruction) in the order of their latest set-request, with
    /// whether that set was non-empty; kept only by explorations whose records share an
    /// instruction, where the order in which records were made is part of the state
    pub set_order: Vec<(u8, bool)>,
}

#[derive(Default)]
pub struct Monitor {
    pub next_seq: i64,
    pub sent: Vec<(i64, String)>,
    pub responses: HashMap<i64, u32>,
    pub terminated: bool,
    pub exited: bool,
    pub threads_started: HashSet<i64>,
    pub threads_exited: HashSet<i64>,
}

pub struct Finding {
    pub sig: String,
    pub detail: String,
}

/// Protocol monitor (Appendix B) over the messages written while one request was handled.
pub fn monitor(mon: &mut Monitor, sym: &Sym, req: &Value, obs: &Value, hist: &str, f: &mut Vec<Finding>, prop: &str) {
    let rseq = req["seq"].as_i64().unwrap();
    mon.sent.push((rseq, sym.command().to_string()));
    // a new `launch` on the same connection begins a new debuggee lifecycle
    if matches!(sym, Sym::Launch) {
        mon.terminated = false;
        mon.exited = false;
        mon.threads_started.clear();
        mon.threads_exited.clear();
    }
    let terminated_before = mon.terminated;
    let wire = obs["wire"].as_array().cloned().unwrap_or_default();
    let cmd = sym.command();
    let mut my_responses = vec![];
    for m in &wire {
        // M1
        mon.next_seq += 1;
        if m["seq"].as_i64() != Some(mon.next_seq) {
            f.push(Finding { sig: format!("{prop}:M1:seq-not-contiguous"), detail: format!("{hist}: message {} carries seq {}, expected {}", m["type"], m["seq"], mon.next_seq) });
            mon.next_seq = m["seq"].as_i64().unwrap_or(mon.next_seq);
        }
        match m["type"].as_str() {
            Some("response") => {
                let rs = m["request_seq"].as_i64().unwrap_or(-1);
                *mon.responses.entry(rs).or_insert(0) += 1;
                if rs == rseq {
                    my_responses.push(m.clone());
                } else if !mon.sent.iter().any(|(s, _)| *s == rs) {
                    f.push(Finding { sig: format!("{prop}:M3:response-to-unsent-request"), detail: format!("{hist}: {m}") });
                }
            }
            Some("event") => {
                let ev = m["event"].as_str().unwrap_or("");
                if mon.terminated {
                    f.push(Finding { sig: format!("{prop}:M9:event-after-terminated:{ev}"), detail: format!("{hist}: event `{ev}` written after `terminated`") });
                }
                match ev {
                    "terminated" => mon.terminated = true,
                    "exited" => {
                        if mon.exited {
                            f.push(Finding { sig: format!("{prop}:M8:exited-twice"), detail: hist.to_string() });
                        }
                        mon.exited = true;
                    }
                    "thread" => {
                        let id = m["body"]["threadId"].as_i64().unwrap_or(0);
                        match m["body"]["reason"].as_str() {
                            Some("started") => {
                                mon.threads_started.insert(id);
                            }
                            Some("exited") => {
                                if !mon.threads_exited.insert(id) {
                                    f.push(Finding { sig: format!("{prop}:M7:thread-exited-twice"), detail: format!("{hist}: thread {id}") });
                                }
                                if !mon.threads_started.contains(&id) {
                                    f.push(Finding { sig: format!("{prop}:M7:thread-exited-before-started"), detail: format!("{hist}: thread {id}") });
                                }
                            }
                            _ => {}
                        }
                    }
                    _ => {}
                }
            }
            _ => {}
        }
    }
    // M2: exactly one response, matching command
    if obs["timed_out"].as_bool().unwrap_or(false) {
        f.push(Finding { sig: format!("{prop}:M2:no-answer-within-60s:{cmd}"), detail: hist.to_string() });
        return;
    }
    if my_responses.len() != 1 {
        let kinds: Vec<String> = my_responses.iter().map(|m| format!("success={}", m["success"])).collect();
        f.push(Finding {
            sig: format!("{prop}:M2:{}-responses:{cmd}", my_responses.len()),
            detail: format!("{hist}: request `{cmd}` (seq {rseq}) got {} responses {kinds:?}{}", my_responses.len(), if obs["session_ended"].as_bool().unwrap_or(false) { format!("; session ended: {}", obs["end"]) } else { String::new() }),
        });
    } else if my_responses[0]["command"].as_str() != Some(cmd) {
        f.push(Finding { sig: format!("{prop}:M2:command-mismatch"), detail: format!("{hist}: response command {}", my_responses[0]["command"]) });
    }
    // M11: connection stays up unless the request ends the session by definition
    let ends = matches!(sym, Sym::Disconnect(_) | Sym::Terminate);
    if obs["session_ended"].as_bool().unwrap_or(false) && !ends {
        f.push(Finding { sig: format!("{prop}:M11:connection-dropped-after:{cmd}"), detail: format!("{hist}: the adapter's run loop ended: {}", obs["end"]) });
    }
    // M5: a successful resume is followed by exactly one outcome
    let success = my_responses.len() == 1 && my_responses[0]["success"].as_bool().unwrap_or(false);
    if success && sym.resumes() && !terminated_before {
        let stopped = wire.iter().filter(|m| m["event"] == "stopped").count();
        let exited = wire.iter().filter(|m| m["event"] == "exited").count();
        let term = wire.iter().filter(|m| m["event"] == "terminated").count();
        let ok = (stopped == 1 && exited == 0 && term == 0) || (stopped == 0 && exited == 1 && term == 1);
        if !ok {
            f.push(Finding { sig: format!("{prop}:M5:resume-outcome:{cmd}:stopped{stopped}-exited{exited}-terminated{term}"), detail: format!("{hist}: after a successful `{cmd}` the adapter announced stopped x{stopped}, exited x{exited}, terminated x{term}") });
        }
        // M6
        let pos_c = wire.iter().position(|m| m["event"] == "continued");
        let pos_s = wire.iter().position(|m| m["event"] == "stopped");
        if let (Some(c), Some(s)) = (pos_c, pos_s) {
            if c > s {
                f.push(Finding { sig: format!("{prop}:M6:continued-after-stopped"), detail: hist.to_string() });
            }
        }
    }
    // M8 ordering
    let pos_e = wire.iter().position(|m| m["event"] == "exited");
    let pos_t = wire.iter().position(|m| m["event"] == "terminated");
    if let (Some(e), Some(t)) = (pos_e, pos_t) {
        if t < e {
            f.push(Finding { sig: format!("{prop}:M8:terminated-before-exited"), detail: hist.to_string() });
        }
    }
}

/// Update the model from the wire of one handled request.
pub fn update_model(cx: &DapCtx, m: &mut DModel, sym: &Sym, obs: &Value) {
    let wire = obs["wire"].as_array().cloned().unwrap_or_default();
    let resp = wire.iter().find(|x| x["type"] == "response");
    let success = resp.map(|r| r["success"].as_bool().unwrap_or(false)).unwrap_or(false);
    if obs["session_ended"].as_bool().unwrap_or(false) {
        m.ended = true;
    }
    for e in &wire {
        match e["event"].as_str() {
            Some("stopped") => {
                if let Some(t) = e["body"]["threadId"].as_i64() {
                    m.thread_id = t;
                }
            }
            Some("exited") => m.exited = true,
            Some("terminated") => m.terminated = true,
            Some("thread") if e["body"]["reason"] == "started" && m.thread_id == 0 => {
                m.thread_id = e["body"]["threadId"].as_i64().unwrap_or(0);
            }
            _ => {}
        }
    }
    m.cancelled_next = matches!(sym, Sym::CancelFuture) && success;
    if success && !cx.fn_fallback.is_empty() {
        let k = match sym {
            Sym::SetBps(v) => Some((0u8, !v.is_empty())),
            Sym::SetFnBps(v) => Some((1u8, !v.is_empty())),
            Sym::SetInsnBps(v) => Some((2u8, !v.is_empty())),
            _ => None,
        };
        if let Some((k, ne)) = k {
            m.set_order.retain(|e| e.0 != k);
            m.set_order.push((k, ne));
        }
    }
    let phase = if !m.launched { 0 } else if !m.configured { 1 } else { 2 };
    match sym {
        Sym::Initialize if success => m.initialized = true,
        Sym::Launch if success => {
            m.launched = true;
            m.configured = false;
            m.exited = false;
            m.terminated = false;
        }
        Sym::ConfigurationDone if success => m.configured = true,
        Sym::SetBps(v) if success => {
            m.line_bps = v.iter().cloned().collect();
            // counters that became unknown at a restart stay unknown for the kind that was not re-set
            m.hits_unknown = m.hits_unknown && matches!(m.insn_opt, Some(BpOpt::Hit2 | BpOpt::HitGe2 | BpOpt::LogHit2)) && !m.insn_bps.is_empty();
            m.prev_line_phase = m.line_phase;
            m.line_phase = phase;
            m.bps_set_phase = phase;
            // the records of this kind are new: their counters start again; the instruction
            // breakpoint keeps its own
            m.hits.retain(|pc, _| cx.insns.contains(pc));
        }
        Sym::SetBpsIllTyped if success => {
            // whatever could be decoded (nothing) replaced the set of this source
            m.line_bps.clear();
            m.prev_line_phase = m.line_phase;
            m.line_phase = phase;
            m.bps_set_phase = phase;
            m.hits.retain(|pc, _| cx.insns.contains(pc));
        }
        Sym::SetFnBpsIllTyped if success => {
            m.fn_bps.clear();
            m.bps_set_phase = phase;
        }
        Sym::SetFnBps(v) if success => {
            m.fn_bps = v.iter().cloned().collect();
            m.fn_phase = phase;
            m.bps_set_phase = phase;
        }
        Sym::SetInsnBpOpt(o) if success => {
            m.insn_bps = [0u8].into_iter().collect();
            m.insn_opt = Some(*o);
            m.insn_phase = phase;
            m.bps_set_phase = phase;
            m.hits.retain(|pc, _| !cx.insns.contains(pc));
            m.hits_unknown = m.hits_unknown && m.line_bps.values().any(|o| matches!(o, BpOpt::Hit2 | BpOpt::HitGe2 | BpOpt::LogHit2));
        }
        Sym::SetInsnBps(v) if success => {
            m.insn_opt = None;
            m.insn_bps = v.iter().cloned().collect();
            m.insn_phase = phase;
            m.bps_set_phase = phase;
        }
        Sym::Restart if success => {
            m.exited = wire.iter().any(|e| e["event"] == "exited");
            m.hits.clear();
        }
        _ => {}
    }
    // independent position: pc of the stopped debuggee from /proc
    if m.exited || m.terminated || m.ended {
        m.stopped_pc = None;
        m.idx = None;
    } else if sym.resumes() || matches!(sym, Sym::Pause) {
        let pc = obs["proc"]["pc"].as_u64();
        let sp = obs["proc"]["sp"].as_u64();
        m.stopped_pc = pc;
        if let (Some(pc), Some(sp)) = (pc, sp) {
            let from = if matches!(sym, Sym::Restart | Sym::ConfigurationDone) { 0 } else { m.idx.map(|i| i + 1).unwrap_or(0) };
            let mem = obs["proc"]["mem"].as_u64().unwrap_or(0);
            m.idx = (from..cx.p.trace.steps.len()).find(|&j| {
                let st = &cx.p.trace.steps[j];
                st.pc == pc && st.sp == sp && (st.mem == 0 || mem == 0 || st.mem == mem)
            });
        } else {
            m.idx = None;
        }
    }
}

pub fn canon(m: &DModel) -> String {
    format!(
        "{}{}{}{}|{:?}|{}{}{}|{:?}|{:?}|{:?}|{:?}|{:?}|{:?}",
        m.initialized as u8, m.launched as u8, m.configured as u8, m.cancelled_next as u8, m.idx.map(|i| i as i64).or(m.stopped_pc.map(|p| -(p as i64))), m.exited as u8, m.terminated as u8, m.ended as u8, m.line_bps, m.fn_bps, (&m.insn_bps, m.insn_opt), (m.line_phase, m.prev_line_phase, m.fn_phase, m.insn_phase, m.hits_unknown), m.hits, m.set_order
    )
}

pub struct DapCfg {
    pub prop: &'static str,
    pub depth: usize,
    pub alphabet: Vec<Sym>,
    pub wall: Duration,
    pub c13: bool,
}

struct StateInfo {
    path: Vec<Sym>,
}

#[derive(Default)]
struct Shared {
    known: HashMap<String, StateInfo>,
    explored: HashSet<(String, Sym)>,
    pending: VecDeque<(String, Sym)>,
    in_flight: usize,
    findings: Vec<(Finding, Value)>,
    transitions: u64,
    replayed: u64,
    sessions: u64,
    outcomes: HashSet<String>,
    samples: Vec<Value>,
    errors: Vec<String>,
    unreproducible: Vec<String>,
}

fn enabled_syms(m: &DModel, cfg: &DapCfg) -> Vec<Sym> {
    if m.ended {
        return vec![];
    }
    if cfg.c13 {
        // C13 is about breakpoint requests in well-formed sessions: one initialize, one launch,
        // nothing after the session terminated (ill-formed lifecycles are C12's subject)
        if m.terminated {
            return vec![];
        }
        return cfg
            .alphabet
            .iter()
            .filter(|s| match s {
                Sym::Initialize => !m.initialized,
                Sym::Launch => m.initialized && !m.launched,
                Sym::ConfigurationDone => m.launched && !m.configured,
                Sym::Continue | Sym::Restart => m.configured,
                _ => m.initialized,
            })
            .cloned()
            .collect();
    }
    cfg.alphabet.clone()
}

pub fn explore(cx: &DapCtx, cfg: &DapCfg, part: &mut Part, deadline: Instant, extra_oracle: &(dyn Fn(&DapCtx, &DModel, &mut DModel, &Sym, &Value, &str, &mut Vec<Finding>) + Sync)) {
    let shared = Mutex::new(Shared::default());
    let cv = Condvar::new();
    {
        let mut g = shared.lock().unwrap();
        let root = canon(&DModel::default());
        for a in enabled_syms(&DModel::default(), cfg) {
            g.pending.push_back((root.clone(), a));
        }
        g.known.insert(root, StateInfo { path: vec![] });
    }
    let capped = std::sync::atomic::AtomicBool::new(false);
    let nthreads = std::env::var("BSMC_THREADS").ok().and_then(|s| s.parse().ok()).unwrap_or(8usize);
    std::thread::scope(|sc| {
        for _ in 0..nthreads {
            sc.spawn(|| loop {
                let (start_key, first, prefix) = {
                    let mut g = shared.lock().unwrap();
                    loop {
                        if Instant::now() > deadline {
                            capped.store(true, std::sync::atomic::Ordering::Relaxed);
                            cv.notify_all();
                            return;
                        }
                        let mut found = None;
                        while let Some((k, a)) = g.pending.pop_front() {
                            if g.explored.contains(&(k.clone(), a.clone())) {
                                continue;
                            }
                            g.explored.insert((k.clone(), a.clone()));
                            found = Some((k, a));
                            break;
                        }
                        if let Some((k, a)) = found {
                            let prefix = g.known[&k].path.clone();
                            g.in_flight += 1;
                            break (k, a, prefix);
                        }
                        if g.in_flight == 0 {
                            cv.notify_all();
                            return;
                        }
                        g = cv.wait_timeout(g, Duration::from_millis(100)).unwrap().0;
                    }
                };
                walk(cx, cfg, &shared, start_key, first, prefix, extra_oracle);
                let mut g = shared.lock().unwrap();
                g.in_flight -= 1;
                cv.notify_all();
            });
        }
    });
    let mut g = shared.into_inner().unwrap();
    // a finding is reported only if a fresh session reproduces it (known findings are matched by
    // `finish` and need no second look; the same history is driven at most three more times)
    {
        let known: BTreeSet<String> = crate::common::load_known_findings().into_iter().filter(|k| k.kind == "finding").map(|k| k.signature).collect();
        let mut verdict: BTreeMap<String, bool> = BTreeMap::new();
        let mut witnesses_tried: BTreeMap<String, u32> = BTreeMap::new();
        let all = std::mem::take(&mut g.findings);
        for (f, rp) in &all {
            if known.contains(&f.sig) || verdict.get(&f.sig) == Some(&true) {
                continue;
            }
            let n = witnesses_tried.entry(f.sig.clone()).or_insert(0);
            if *n >= 2 {
                continue; // two witnesses of this signature have been tried
            }
            *n += 1;
            let path: Vec<Sym> = serde_json::from_value(rp["path"].clone()).unwrap_or_default();
            let slow = f.sig.contains(":no-answer-within-") || f.sig.contains(":adapter-hung:");
            let mut ok = false;
            for _ in 0..if slow { 1 } else { 3 } {
                let d = drive(cx, cfg, &path, extra_oracle);
                g.replayed += path.len() as u64;
                let again = d.findings.iter().any(|x| x.sig == f.sig) || ((f.sig.contains(":adapter-crashed:") || f.sig.contains(":adapter-hung:")) && d.error.is_some());
                if again {
                    ok = true;
                    break;
                }
            }
            let e = verdict.entry(f.sig.clone()).or_insert(false);
            *e = *e || ok;
        }
        for (f, rp) in all {
            if known.contains(&f.sig) || verdict.get(&f.sig) == Some(&true) {
                g.findings.push((f, rp));
            } else {
                g.unreproducible.push(format!("[{}] finding {} seen once and not reproduced by fresh sessions: {}", cx.p.name(), f.sig, f.detail.chars().take(300).collect::<String>()));
            }
        }
    }
    part.states += g.known.len() as u64;
    part.transitions += g.transitions;
    part.evaluations += g.transitions + g.replayed;
    part.distinct_nontrivial += g.known.len().saturating_sub(1) as u64;
    part.distinct_outcomes += g.outcomes.len() as u64;
    for (f, rp) in g.findings {
        part.violate(f.sig, f.detail, rp);
    }
    for s in g.samples {
        part.sample(s);
    }
    for e in g.errors {
        part.violate(format!("{}:machinery", cfg.prop), e, json!({}));
        part.exhaustive = false;
    }
    if !g.unreproducible.is_empty() {
        // not explored further, not a verdict: said in the evidence
        part.exhaustive = false;
        part.caps_hit.push(format!("{} state(s) observed once could not be reached again and were not expanded", g.unreproducible.len()));
        let e = part.extra.entry("unreproducible_observations".to_string()).or_insert(json!([]));
        if let Some(a) = e.as_array_mut() {
            a.extend(g.unreproducible.iter().take(5).map(|s| json!(s)));
        }
    }
    let e = part.extra.entry("sessions".to_string()).or_insert(json!(0));
    *e = json!(e.as_u64().unwrap_or(0) + g.sessions);
    if capped.load(std::sync::atomic::Ordering::Relaxed) {
        part.exhaustive = false;
        part.caps_hit.push(format!("wall cap hit while exploring {}", cx.p.name()));
    }
}

pub struct Driven {
    pub model: DModel,
    pub findings: Vec<Finding>,
    pub obs: Vec<Value>,
    pub result: Option<Value>,
    pub error: Option<String>,
}

/// Run one complete history in a fresh session (used by replay and by the walk prefix).
pub fn drive(cx: &DapCtx, cfg: &DapCfg, path: &[Sym], extra_oracle: &(dyn Fn(&DapCtx, &DModel, &mut DModel, &Sym, &Value, &str, &mut Vec<Finding>) + Sync)) -> Driven {
    let mut d = Driven { model: DModel::default(), findings: vec![], obs: vec![], result: None, error: None };
    let mut sess = match ISession::start("dap", &json!({"exe": cx.p.built.exe, "main_entry_sp": cx.p.trace.main_entry_sp})) {
        Ok(s) => s,
        Err(e) => {
            d.error = Some(e);
            return d;
        }
    };
    let mut mon = Monitor::default();
    let mut seq = 0i64;
    for k in 0..path.len() {
        seq += 1;
        let req = request(cx, &path[k], seq, d.model.thread_id);
        let hist = format!("[{}] {}", cx.p.name(), path[..=k].iter().map(|s| s.label()).collect::<Vec<_>>().join("; "));
        match sess.cmd(&req, Duration::from_secs(90)) {
            Ok(o) => {
                monitor(&mut mon, &path[k], &req, &o, &hist, &mut d.findings, cfg.prop);
                if cfg.c13 {
                    d.findings.clear();
                }
                let before = d.model.clone();
                update_model(cx, &mut d.model, &path[k], &o);
                extra_oracle(cx, &before, &mut d.model, &path[k], &o, &hist, &mut d.findings);
                d.obs.push(o);
            }
            Err(e) => {
                d.error = Some(format!("{e:?}"));
                return d;
            }
        }
    }
    d.result = sess.end(Duration::from_secs(20)).ok();
    d
}

#[allow(clippy::too_many_arguments)]
fn walk(cx: &DapCtx, cfg: &DapCfg, shared: &Mutex<Shared>, start_key: String, first: Sym, prefix: Vec<Sym>, extra_oracle: &(dyn Fn(&DapCtx, &DModel, &mut DModel, &Sym, &Value, &str, &mut Vec<Finding>) + Sync)) {
    let replay_of = |path: &[Sym]| json!({"engine":"dap","prop":cfg.prop,"exe":cx.p.built.exe,"lines":cx.lines,"fns":cx.fns,"insns":cx.insns,"fn_fallback":cx.fn_fallback,"path":path,"history":path.iter().map(|a| a.label()).collect::<Vec<_>>()});
    let timeout = Duration::from_secs(90);
    let mut reached_keys: Vec<String> = vec![];
    let (mut sess, mut m, mut mon, mut path, mut seq) = loop {
        let mut sess = match ISession::start("dap", &json!({"exe": cx.p.built.exe, "main_entry_sp": cx.p.trace.main_entry_sp})) {
            Ok(s) => s,
            Err(e) => {
                shared.lock().unwrap().errors.push(format!("cannot start worker: {e}"));
                return;
            }
        };
        shared.lock().unwrap().sessions += 1;
        let mut m = DModel::default();
        let mut mon = Monitor::default();
        let mut path: Vec<Sym> = vec![];
        let mut seq = 0i64;
        let mut sink = vec![];
        let mut failed: Option<String> = None;
        for a in &prefix {
            path.push(a.clone());
            seq += 1;
            let req = request(cx, a, seq, m.thread_id);
            match sess.cmd(&req, timeout) {
                Ok(o) => {
                    monitor(&mut mon, a, &req, &o, "", &mut sink, cfg.prop);
                    let before = m.clone();
                    update_model(cx, &mut m, a, &o);
                    extra_oracle(cx, &before, &mut m, a, &o, "", &mut sink);
                }
                Err(e) => {
                    failed = Some(format!("[{}] replaying known prefix {:?} failed: {e:?}", cx.p.name(), path.iter().map(|a| a.label()).collect::<Vec<_>>()));
                    break;
                }
            }
            shared.lock().unwrap().replayed += 1;
        }
        let reached = canon(&m);
        if failed.is_none() && reached == start_key {
            break (sess, m, mon, path, seq);
        }
        sess.kill();
        reached_keys.push(failed.clone().unwrap_or(reached.clone()));
        if reached_keys.len() >= 3 {
            let mut g = shared.lock().unwrap();
            if failed.is_none() && reached_keys.iter().all(|k| k == &reached_keys[0]) {
                // three fresh sessions agree with each other and not with the state recorded once:
                // that single observation cannot be reproduced, so nothing can be built on it
                g.unreproducible.push(format!("[{}] {:?}: recorded once {}, replayed three times {}", cx.p.name(), path.iter().map(|a| a.label()).collect::<Vec<_>>(), start_key, reached));
            } else {
                g.errors.push(format!("[{}] nondeterminism: replaying {:?} reached {:?} instead of {}", cx.p.name(), path.iter().map(|a| a.label()).collect::<Vec<_>>(), reached_keys, start_key));
            }
            return;
        }
    };
    let mut next = Some(first);
    // canonical route = state-changing steps only; requests that leave the canonical state
    // unchanged are chained inside the session without counting towards the depth bound
    let mut route: Vec<Sym> = prefix.clone();
    let mut cur_key = start_key.clone();
    while let Some(a) = next.take() {
        path.push(a.clone());
        seq += 1;
        let req = request(cx, &a, seq, m.thread_id);
        let hist = format!("[{}] {}", cx.p.name(), path.iter().map(|s| s.label()).collect::<Vec<_>>().join("; "));
        let r = sess.cmd(&req, timeout);
        let mut g = shared.lock().unwrap();
        g.transitions += 1;
        match r {
            Ok(o) => {
                let mut fs = vec![];
                monitor(&mut mon, &a, &req, &o, &hist, &mut fs, cfg.prop);
                if cfg.c13 {
                    fs.clear(); // protocol-monitor findings belong to C12
                }
                let before = m.clone();
                update_model(cx, &mut m, &a, &o);
                extra_oracle(cx, &before, &mut m, &a, &o, &hist, &mut fs);
                let dead = fs.iter().any(|f| f.sig.contains(":no-answer-within-"));
                for f in fs {
                    g.findings.push((f, replay_of(&path)));
                }
                if dead {
                    // the adapter thread no longer answers: whatever is sent next says nothing
                    drop(g);
                    sess.kill();
                    return;
                }
                let evs: Vec<String> = o["wire"].as_array().map(|w| w.iter().map(|x| x["event"].as_str().map(|e| e.to_string()).unwrap_or_else(|| format!("resp:{}", x["success"]))).filter(|e| e != "output").collect()).unwrap_or_default();
                g.outcomes.insert(format!("{}:{}", a.command(), evs.join(",")));
                let key = canon(&m);
                if key != cur_key {
                    route.push(a.clone());
                    cur_key = key.clone();
                }
                let depth = route.len();
                if !g.known.contains_key(&key) {
                    if g.samples.len() < 4 && path.len() >= 3 {
                        g.samples.push(json!({"program": cx.p.name(), "history": path.iter().map(|a| a.label()).collect::<Vec<_>>(), "state": key}));
                    }
                    g.known.insert(key.clone(), StateInfo { path: route.clone() });
                    if depth < cfg.depth {
                        for s in enabled_syms(&m, cfg) {
                            g.pending.push_back((key.clone(), s));
                        }
                    }
                } else if g.known[&key].path.len() < route.len() {
                    // a shorter canonical route is known: adopt it for depth accounting
                    route = g.known[&key].path.clone();
                }
                let depth = route.len();
                if depth < cfg.depth && path.len() < 120 {
                    for s in enabled_syms(&m, cfg) {
                        let e = (key.clone(), s.clone());
                        if !g.explored.contains(&e) {
                            g.explored.insert(e);
                            next = Some(s);
                            break;
                        }
                    }
                }
            }
            Err(SessErr::Timeout) => {
                g.findings.push((Finding { sig: format!("{}:adapter-hung:{}", cfg.prop, a.command()), detail: format!("{hist}: no answer from the worker within 90 s") }, replay_of(&path)));
                drop(g);
                sess.kill();
                return;
            }
            Err(SessErr::Crashed { status, stderr }) => {
                let first = stderr.lines().find(|l| l.contains("panicked")).unwrap_or(stderr.lines().last().unwrap_or("")).to_string();
                g.findings.push((Finding { sig: format!("{}:adapter-crashed:{}", cfg.prop, a.command()), detail: format!("{hist}: worker {status}: {first}") }, replay_of(&path)));
                return;
            }
        }
    }
    match sess.end(Duration::from_secs(20)) {
        Ok(res) => {
            let mut g = shared.lock().unwrap();
            // nothing may be written after `terminated` even while the connection closes
            if mon.terminated && !cfg.c13 {
                for m in res["tail"].as_array().cloned().unwrap_or_default() {
                    if m["type"] == "event" {
                        g.findings.push((Finding { sig: format!("{}:M9:event-after-terminated:{}", cfg.prop, m["event"].as_str().unwrap_or("?")), detail: format!("[{}] {:?}: event {} written after `terminated` (while the connection was closing)", cx.p.name(), path.iter().map(|a| a.label()).collect::<Vec<_>>(), m["event"]) }, replay_of(&path)));
                    }
                }
            }
        }
        Err(_) => {}
    }
}

pub fn replay(v: &Value) -> i32 {
    let exe = v["exe"].as_str().unwrap_or("");
    let prop = v["prop"].as_str().unwrap_or("C12").to_string();
    let p = match crate::e2x::load_prog(exe) {
        Ok(p) => p,
        Err(e) => {
            eprintln!("cannot load program: {e}");
            return 2;
        }
    };
    let cx = DapCtx {
        p: &p,
        lines: serde_json::from_value(v["lines"].clone()).unwrap_or_default(),
        fns: serde_json::from_value(v["fns"].clone()).unwrap_or_default(),
        insns: serde_json::from_value(v["insns"].clone()).unwrap_or_default(),
        fn_fallback: serde_json::from_value(v["fn_fallback"].clone()).unwrap_or_default(),
    };
    let path: Vec<Sym> = serde_json::from_value(v["path"].clone()).unwrap_or_default();
    let prop_static: &'static str = Box::leak(prop.clone().into_boxed_str());
    let cfg = DapCfg { prop: prop_static, depth: 0, alphabet: vec![], wall: Duration::from_secs(0), c13: prop == "C13" };
    let oracle = crate::c12::oracle_for(prop_static);
    let a = drive(&cx, &cfg, &path, &*oracle);
    let b = drive(&cx, &cfg, &path, &*oracle);
    let summ = |d: &Driven| -> Vec<String> {
        d.obs
            .iter()
            .map(|o| {
                o["wire"].as_array().map(|w| w.iter().filter(|m| m["event"] != "output").map(|m| format!("{}:{}{}", m["type"].as_str().unwrap_or("?"), m["event"].as_str().or(m["command"].as_str()).unwrap_or("?"), if m["type"] == "response" { format!("(success={})", m["success"]) } else { String::new() })).collect::<Vec<_>>().join(" ")).unwrap_or_default()
            })
            .collect()
    };
    for (k, l) in summ(&a).iter().enumerate() {
        println!("{} -> {}", path[k].label(), l);
    }
    if summ(&a) != summ(&b) {
        eprintln!("harness nondeterminism: second run differs: {:?}", summ(&b));
        return 2;
    }
    for f in &a.findings {
        println!("violated {}: {}", f.sig, f.detail);
    }
    if let Some(e) = &a.error {
        println!("session error: {e}");
        return 1;
    }
    if a.findings.is_empty() { 0 } else { 1 }
}
