//! C15 — memory and register access is exact (exploration over windows / registers / values).

use crate::common::*;
use crate::corpus::{self, Config};
use crate::e2x::*;
use rayon::prelude::*;
use serde_json::{Value, json};
use std::time::Duration;

pub fn part_sweep(tier: Tier) -> Part {
    let mut part = Part::new("memory-register-sweep");
    let (bodies, cfgs) = match tier {
        Tier::Quick => (corpus::quick_bodies(), vec![Config::default_cfg()]),
        Tier::Thorough => (corpus::quick_bodies(), vec![Config::default_cfg(), Config { toolchain: "stable".into(), opt: 0, dwarf: 5, pie: true }]),
    };
    part.rule = "at two stops of each program (in main, inside a callee): every read window (start = word boundary -8..+8, length 0..=17) on the stack and in the last 16 bytes before every unmapped hole is compared with /proc/pid/mem; a word write at every alignment x 3 values must change exactly [a, a+8); 15 general registers x 4 values are written, read back, and checked with an independent PTRACE_GETREGS (no other register moves); with a breakpoint on every instruction of the function the disassembly must show the file's instructions. Distinct non-trivial = windows of length > 0 / writes / register writes".into();
    let progs = match corpus::build_many(&bodies, &cfgs).and_then(prepare) {
        Ok(p) => p,
        Err(e) => {
            part.violate("C15:machinery:corpus", e, json!({}));
            part.exhaustive = false;
            return part;
        }
    };
    part.bounds = json!({"programs": progs.len(), "stops_per_program": 2});
    let jobs: Vec<(&Prog, u32)> = progs
        .iter()
        .flat_map(|p| {
            let mut ls = vec![];
            for mark in ["main.emit", "ff.2", "rec.4", "gg.2", "cl1", "body1"] {
                if let Some(l) = p.line_of(mark) {
                    if !p.stmt_addrs(l).is_empty() && ls.len() < 2 {
                        ls.push((p, l));
                    }
                }
            }
            ls
        })
        .collect();
    let results: Vec<(&Prog, u32, WorkerOutcome)> = jobs
        .par_iter()
        .map(|(p, line)| {
            let mut job = init_json(p, false);
            job["commands"] = json!([
                {"op":"break_line","file":p.built.program.src_file,"line":line},
                {"op":"start"},
                {"op":"c15_sweep"},
                {"op":"remove_line","file":p.built.program.src_file,"line":line},
                {"op":"continue"}
            ]);
            (*p, *line, run_worker("e2e", &job, Duration::from_secs(120)))
        })
        .collect();
    for (p, line, out) in results {
        let replay = json!({"engine":"c15","exe":p.built.exe,"line":line});
        match out {
            WorkerOutcome::Ok(v) => {
                let obs = v["obs"].as_array().cloned().unwrap_or_default();
                let Some(sw) = obs.get(2).map(|o| o["res"].clone()) else {
                    part.violate("C15:machinery:no-sweep", format!("[{}] line {line}: {v}", p.name()), replay);
                    continue;
                };
                if let Some(e) = sw["error"].as_str() {
                    part.violate("C15:machinery:sweep-error", format!("[{}] line {line}: {e}", p.name()), replay.clone());
                }
                part.evaluations += sw["evaluations"].as_u64().unwrap_or(0);
                part.distinct_nontrivial += sw["nontrivial"].as_u64().unwrap_or(0);
                part.states += 1;
                for f in sw["findings"].as_array().cloned().unwrap_or_default() {
                    part.violate(f["sig"].as_str().unwrap_or("C15:?"), format!("[{}] stopped at line {line}: {}", p.name(), f["detail"].as_str().unwrap_or("")), replay.clone());
                }
                part.sample(json!({"program": p.name(), "stop_line": line, "windows": sw["windows"], "hole_edges": sw["edges"], "disasm_instructions_checked": sw["disasm_instructions_checked"]}));
                // the sweep restored everything: the program must still finish natively
                let last = obs.get(4).map(|o| o["res"].clone()).unwrap_or(Value::Null);
                if last["kind"] != "exit" || last["code"].as_i64() != Some(p.trace.exit_code as i64) || v["stdout"].as_str() != Some(p.trace.stdout.as_str()) {
                    part.violate("C15:restore:program-changed-after-sweep", format!("[{}] after the sweep (everything written back) continue gave {last}, stdout {:?}; native exit {} stdout {:?}", p.name(), v["stdout"], p.trace.exit_code, p.trace.stdout), replay);
                }
            }
            WorkerOutcome::Crashed { status, stderr, .. } => {
                let first = stderr.lines().find(|l| l.contains("panicked")).unwrap_or(stderr.lines().last().unwrap_or("")).to_string();
                part.violate("C15:debugger-crashed", format!("[{}] line {line}: {status}: {first}", p.name()), replay);
            }
            WorkerOutcome::Timeout { .. } => part.violate("C15:debugger-hung", format!("[{}] line {line}", p.name()), replay),
        }
    }
    part.transitions = part.evaluations;
    part.traces_validated = part.states;
    part
}

pub fn replay(v: &Value) -> i32 {
    let exe = v["exe"].as_str().unwrap_or("");
    let p = match load_prog(exe) {
        Ok(p) => p,
        Err(e) => {
            eprintln!("{e}");
            return 2;
        }
    };
    let mut job = init_json(&p, false);
    job["commands"] = json!([
        {"op":"break_line","file":p.built.program.src_file,"line":v["line"]},
        {"op":"start"},
        {"op":"c15_sweep"},
        {"op":"remove_line","file":p.built.program.src_file,"line":v["line"]},
        {"op":"continue"}
    ]);
    match run_worker("e2e", &job, Duration::from_secs(120)) {
        WorkerOutcome::Ok(r) => {
            let f = r["obs"][2]["res"]["findings"].as_array().cloned().unwrap_or_default();
            for x in &f {
                println!("violated {}: {}", x["sig"], x["detail"]);
            }
            if f.is_empty() { 0 } else { 1 }
        }
        o => {
            println!("{o:?}");
            1
        }
    }
}
