//! C08 worker sweep: at a stop in a program with rich variables, throw a bounded-exhaustive set
//! of data-query expressions and boundary-valued API calls at the real Debugger.  A panic is
//! caught and reported; the state of the debuggee (registers, text) must be untouched by all of it.

use crate::e2w::Session;
use serde_json::{Value, json};
use std::panic::{AssertUnwindSafe, catch_unwind};

fn panic_text(p: Box<dyn std::any::Any + Send>) -> String {
    p.downcast_ref::<String>().cloned().or_else(|| p.downcast_ref::<&str>().map(|s| s.to_string())).unwrap_or_else(|| "panic".into())
}

pub fn sweep(s: &mut Session, cmd: &Value) -> Value {
    use chumsky::Parser;
    let bases: Vec<String> = serde_json::from_value(cmd["bases"].clone()).unwrap_or_default();
    let ops: Vec<String> = serde_json::from_value(cmd["ops"].clone()).unwrap_or_default();
    let depth = cmd["depth"].as_u64().unwrap_or(2);
    let tid = s.dbg.as_ref().unwrap().ecx().pid_on_focus();
    let regs0 = nix::sys::ptrace::getregs(tid).ok().map(|r| crate::reftrace::hash_regs(&r));
    let pid = s.pid();
    let text0 = s.text_diff(pid);
    let mut findings: Vec<Value> = vec![];
    let mut evals = 0u64;
    let mut ok_results = 0u64;
    let mut parse_errors = 0u64;
    let mut eval_errors = 0u64;
    let mut slowest = (0u128, String::new());
    // expressions: base, base+op, base+op+op (postfix), and prefix forms
    let mut exprs: Vec<String> = vec![];
    let mut level: Vec<String> = bases.clone();
    exprs.extend(level.iter().cloned());
    for _ in 0..depth {
        let mut next = vec![];
        for e in &level {
            for op in &ops {
                let x = if let Some(prefix) = op.strip_prefix("pre:") { format!("{prefix}{e}") } else if let Some(wrap) = op.strip_prefix("wrap:") { wrap.replace("{}", e) } else { format!("{e}{op}") };
                next.push(x);
            }
        }
        exprs.extend(next.iter().cloned());
        level = next;
    }
    for e in &exprs {
        evals += 1;
        let t0 = std::time::Instant::now();
        let d = s.dbg.as_ref().unwrap();
        let r = catch_unwind(AssertUnwindSafe(|| {
            let parsed = bugstalker::ui::command::parser::expression::parser().parse(e.as_str()).into_result();
            match parsed {
                Err(_) => 0,
                Ok(q) => match d.read_variable(q.clone()) {
                    Ok(res) => {
                        // also render every result: the value tree is walked by the UI
                        for q in &res {
                            let _ = crate::valw::vjson(q.value());
                        }
                        let _ = d.read_argument(q.clone());
                        // (names are defined for plain selectors only: documented precondition)
                        if matches!(q, bugstalker::debugger::variable::dqe::Dqe::Variable(_)) {
                            let _ = d.read_variable_names(q);
                        }
                        if res.is_empty() { 2 } else { 1 }
                    }
                    Err(_) => 2,
                },
            }
        }));
        let ms = t0.elapsed().as_millis();
        if ms > slowest.0 {
            slowest = (ms, e.clone());
        }
        match r {
            Ok(0) => parse_errors += 1,
            Ok(1) => ok_results += 1,
            Ok(_) => eval_errors += 1,
            Err(p) => {
                let text = panic_text(p);
                let site = text.split(" at ").next().unwrap_or("").chars().take(80).collect::<String>();
                if findings.len() < 40 {
                    findings.push(json!({"sig": format!("C08:exec:dqe-panic:{}", crate::common::sanitize(&site)), "detail": format!("evaluating `{e}` panicked: {text}")}));
                }
            }
        }
        if ms > 5000 {
            findings.push(json!({"sig": "C08:exec:dqe-hang", "detail": format!("evaluating `{e}` took {ms} ms")}));
        }
    }
    // boundary-valued API calls
    let mut api = 0u64;
    let mut call = |name: &str, f: &mut dyn FnMut(&mut bugstalker::debugger::Debugger)| {
        api += 1;
        let d = s.dbg.as_mut().unwrap();
        if let Err(p) = catch_unwind(AssertUnwindSafe(|| f(d))) {
            findings.push(json!({"sig": format!("C08:exec:api-panic:{name}"), "detail": format!("{name}: {}", panic_text(p))}));
        }
    };
    // (number 1 is the user's own breakpoint of this session)
    for n in [0u32, 2, 7, 255, 256, 65535, u32::MAX - 1, u32::MAX] {
        call("set_frame_into_focus", &mut |d| {
            let _ = d.set_frame_into_focus(n);
        });
        call("set_thread_into_focus", &mut |d| {
            let _ = d.set_thread_into_focus(n);
        });
        call("remove_breakpoint_by_number", &mut |d| {
            let _ = d.remove_breakpoint_by_number(n);
        });
        call("remove_watchpoint_by_number", &mut |d| {
            let _ = d.remove_watchpoint_by_number(n);
        });
    }
    call("set_frame_into_focus(0)", &mut |d| {
        let _ = d.set_frame_into_focus(0);
    });
    for addr in [0usize, 1, 0xfff, 0x1000, 0x7fff_ffff_f000, 0x7fff_ffff_ffff, 0x8000_0000_0000, usize::MAX - 7, usize::MAX] {
        for len in [0usize, 1, 7, 8, 9, 4096, 1 << 20] {
            call("read_memory", &mut |d| {
                let _ = d.read_memory(addr, len);
            });
        }
        call("write_memory", &mut |d| {
            let _ = d.write_memory(addr, 0x41);
        });
        call("set_breakpoint_at_addr", &mut |d| {
            if d.set_breakpoint_at_addr(bugstalker::debugger::address::RelocatedAddress::from(addr)).is_ok() {
                let _ = d.remove_breakpoint(bugstalker::debugger::address::Address::Relocated(bugstalker::debugger::address::RelocatedAddress::from(addr)));
            }
        });
        for size in [1u64, 2, 4, 8] {
            call("set_watchpoint_on_memory", &mut |d| {
                use bugstalker::debugger::register::debug::{BreakCondition, BreakSize};
                let sz = match size {
                    1 => BreakSize::Bytes1,
                    2 => BreakSize::Bytes2,
                    4 => BreakSize::Bytes4,
                    _ => BreakSize::Bytes8,
                };
                let a = bugstalker::debugger::address::RelocatedAddress::from(addr);
                if d.set_watchpoint_on_memory(a, sz, BreakCondition::DataWrites, false).is_ok() {
                    let _ = d.remove_watchpoint_by_addr(a);
                }
            });
        }
    }
    for name in ["", "rip", "RIP", "rax ", "xmm0", "eflags", "fs_base", "dr7", "\0", "r16", "ripp"] {
        call("get_register_value", &mut |d| {
            let _ = d.get_register_value(name);
        });
    }
    for (file, line) in [("", 0u64), ("", 1), ("x.rs", 0), ("coll", u64::MAX), ("/", 1), (".rs", 5), ("\0", 1), ("rs", 66)] {
        call("set_breakpoint_at_line", &mut |d| {
            if d.set_breakpoint_at_line(file, line).is_ok() {
                let _ = d.remove_breakpoint_at_line(file, line);
            }
        });
    }
    for f in ["", "::", "main::", "::main", "a::b::c::d::e", "*", "(", "ma in", "stop_here", "\0", "<", "main<"] {
        call("set_breakpoint_at_fn", &mut |d| {
            if d.set_breakpoint_at_fn(f).is_ok() {
                let _ = d.remove_breakpoint_at_fn(f);
            }
        });
        call("get_symbols", &mut |d| {
            let _ = d.get_symbols(f);
        });
    }
    call("disasm", &mut |d| {
        let _ = d.disasm();
    });
    call("frame_info", &mut |d| {
        let _ = d.frame_info();
    });
    call("thread_state", &mut |d| {
        let _ = d.thread_state();
    });
    call("shared_libs", &mut |d| {
        let _ = d.shared_libs();
    });
    drop(call);
    // nothing of that may have touched the debuggee
    let regs1 = nix::sys::ptrace::getregs(tid).ok().map(|r| crate::reftrace::hash_regs(&r));
    if regs0 != regs1 {
        findings.push(json!({"sig": "C08:exec:registers-changed-by-failing-commands", "detail": "register hash differs after the sweep"}));
    }
    let text1 = s.text_diff(pid);
    if text0 != text1 {
        findings.push(json!({"sig": "C08:exec:text-changed-by-failing-commands", "detail": format!("text patches before {text0:?} after {text1:?}")}));
    }
    json!({"ok": true, "evaluations": evals + api, "expressions": evals, "api_calls": api, "with_result": ok_results, "parse_errors": parse_errors, "eval_errors": eval_errors, "slowest": {"ms": slowest.0 as u64, "expr": slowest.1}, "findings": findings})
}

/// {"op":"c08_poison","vars":[..]}: arbitrary memory images behind typed values.  For every listed
/// variable, every 8-byte word of its in-memory representation (header of a Vec / String /
/// VecDeque / HashMap / BTreeMap / Rc / RefCell ..., up to 8 words) is overwritten in turn with
/// each poison value; the variable and a few expressions on it are evaluated and rendered; the
/// word is restored.  Nothing may panic, abort, hang or allocate without bound.
pub fn poison(s: &mut Session, cmd: &Value) -> Value {
    use bugstalker::debugger::variable::dqe::{Dqe, Selector};
    use bugstalker::debugger::variable::value::Value as V;
    use std::os::unix::fs::FileExt;
    let vars: Vec<String> = serde_json::from_value(cmd["vars"].clone()).unwrap_or_default();
    let pid = s.pid();
    let tid = s.dbg.as_ref().unwrap().ecx().pid_on_focus();
    let regs0 = nix::sys::ptrace::getregs(tid).ok();
    let sp = regs0.map(|r| r.rsp).unwrap_or(0);
    let mem = match std::fs::File::open(format!("/proc/{pid}/mem")) {
        Ok(m) => m,
        Err(e) => return json!({"ok": false, "error": e.to_string()}),
    };
    let t_all = std::time::Instant::now();
    let mut findings: Vec<Value> = vec![];
    let (mut evals, mut images, mut with_value) = (0u64, 0u64, 0u64);
    let mut slowest = (0u128, String::new());
    let mut covered: Vec<Value> = vec![];
    for name in &vars {
        let d = s.dbg.as_ref().unwrap();
        let addr_q = Dqe::Address(Box::new(Dqe::Variable(Selector::by_name(name, true))));
        let Ok(res) = d.read_variable(addr_q) else { continue };
        let Some(V::Pointer(p)) = res.first().map(|q| q.value().clone()) else { continue };
        let (Some(addr), Some(size)) = (p.value.map(|x| x as usize as u64), p.target_type_size) else { continue };
        let words = ((size + 7) / 8).min(8);
        covered.push(json!({"var": name, "addr": addr, "size": size, "words": words}));
        let exprs = [name.clone(), format!("{name}[0]"), format!("{name}[1..3]"), format!("*{name}"), format!("~{name}")];
        for w in 0..words {
            let wa = addr + w * 8;
            let mut ob = [0u8; 8];
            if mem.read_exact_at(&mut ob, wa).is_err() {
                continue;
            }
            let orig = u64::from_le_bytes(ob);
            let all = [0u64, 1, 7, 8, 0x10_0000, u64::MAX, 1 << 63, (1 << 63) - 1, u64::MAX - 7, 0x7fff_ffff_f000, 0x0000_8000_0000_0000, sp, wa, addr, orig.wrapping_add(1), orig.wrapping_sub(1), orig ^ 0xff, orig << 8];
            let few = [0u64, 1, 8, u64::MAX, 1 << 63, sp, wa, orig.wrapping_add(1), orig ^ 0xff];
            let poisons: &[u64] = if cmd["all_poisons"] == true { &all } else { &few };
            for &pz in poisons {
                if pz == orig {
                    continue;
                }
                images += 1;
                let d = s.dbg.as_ref().unwrap();
                if d.write_memory(wa as usize, pz as usize).is_err() {
                    continue;
                }
                for e in &exprs {
                    use chumsky::Parser;
                    evals += 1;
                    let t0 = std::time::Instant::now();
                    let r = catch_unwind(AssertUnwindSafe(|| {
                        let Ok(q) = bugstalker::ui::command::parser::expression::parser().parse(e.as_str()).into_result() else { return 0 };
                        match d.read_variable(q) {
                            Ok(res) => {
                                for q in &res {
                                    let _ = crate::valw::vjson(q.value());
                                }
                                if res.is_empty() { 0 } else { 1 }
                            }
                            Err(_) => 0,
                        }
                    }));
                    let ms = t0.elapsed().as_millis();
                    if ms > slowest.0 {
                        slowest = (ms, format!("{e} with word {w} of {name} = {pz:#x}"));
                    }
                    match r {
                        Ok(1) => with_value += 1,
                        Ok(_) => {}
                        Err(pn) => {
                            let text = panic_text(pn);
                            let site = text.split(" at ").next().unwrap_or("").chars().take(80).collect::<String>();
                            if findings.len() < 40 {
                                findings.push(json!({"sig": format!("C08:poison:panic:{}", crate::common::sanitize(&site)), "detail": format!("`{e}` with word {w} of `{name}` ({size} bytes at {addr:#x}) set to {pz:#x} (was {orig:#x}): {text}")}));
                            }
                        }
                    }
                    if ms > 60_000 {
                        findings.push(json!({"sig": "C08:poison:hang", "detail": format!("`{e}` with word {w} of `{name}` set to {pz:#x} took {ms} ms")}));
                    }
                }
                let d = s.dbg.as_ref().unwrap();
                let _ = d.write_memory(wa as usize, orig as usize);
            }
            // restored?
            let mut nb = [0u8; 8];
            if mem.read_exact_at(&mut nb, wa).is_ok() && u64::from_le_bytes(nb) != orig {
                findings.push(json!({"sig": "MACHINERY:poison-not-restored", "detail": format!("word {w} of {name}")}));
            }
        }
    }
    let rss_kb: u64 = std::fs::read_to_string("/proc/self/status").ok().and_then(|s| s.lines().find(|l| l.starts_with("VmHWM:")).and_then(|l| l.split_whitespace().nth(1).and_then(|x| x.parse().ok()))).unwrap_or(0);
    if rss_kb > 4_000_000 {
        findings.push(json!({"sig": "C08:poison:memory-blowup", "detail": format!("peak resident set of the debugger {rss_kb} kB")}));
    }
    json!({"ok": true, "wall_ms": t_all.elapsed().as_millis() as u64, "evaluations": evals, "images": images, "with_value": with_value, "peak_rss_kb": rss_kb, "variables": covered, "slowest": {"ms": slowest.0 as u64, "what": slowest.1}, "findings": findings})
}
