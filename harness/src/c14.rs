//! C14 — debug registers always encode exactly the active watchpoints.
//! Part (a): explicit-state BFS over the real `DebugControlRegister` bit manipulation.

use crate::common::*;
use bugstalker::debugger::register::debug::{
    BreakCondition, BreakSize, DebugControlRegister, DebugRegisterNumber,
};
use serde_json::json;
use std::collections::{HashMap, VecDeque};

#[derive(Clone, Copy, PartialEq, Eq, Hash, Debug)]
struct Slot {
    /// RW field (2 bits) as last configured, 0 when never configured
    rw: u8,
    /// LEN field (2 bits) as last configured
    len: u8,
    l: bool,
    g: bool,
}

type Table = [Slot; 4];

#[derive(Clone, Copy, Debug)]
enum Op {
    Configure(usize, u8, u8), // slot, cond idx, size idx
    SetDr(usize, bool, bool), // slot, global, enable
}

const CONDS: [(BreakCondition, u8); 2] = [
    (BreakCondition::DataWrites, 0b01),
    (BreakCondition::DataReadsWrites, 0b11),
];
// Intel SDM vol.3 17.2.4: LEN 00 = 1 byte, 01 = 2 bytes, 10 = 8 bytes, 11 = 4 bytes
const SIZES: [(BreakSize, u8, u8); 4] = [
    (BreakSize::Bytes1, 0b00, 1),
    (BreakSize::Bytes2, 0b01, 2),
    (BreakSize::Bytes4, 0b11, 4),
    (BreakSize::Bytes8, 0b10, 8),
];

fn dr(n: usize) -> DebugRegisterNumber {
    match n {
        0 => DebugRegisterNumber::DR0,
        1 => DebugRegisterNumber::DR1,
        2 => DebugRegisterNumber::DR2,
        _ => DebugRegisterNumber::DR3,
    }
}

fn ops() -> Vec<Op> {
    let mut v = vec![];
    for s in 0..4 {
        for c in 0..2 {
            for z in 0..4 {
                v.push(Op::Configure(s, c as u8, z as u8));
            }
        }
        for g in [false, true] {
            for e in [false, true] {
                v.push(Op::SetDr(s, g, e));
            }
        }
    }
    v
}

/// Independent encoder of the SDM DR7 layout, exact-match bits (8, 9) excluded.
fn encode(t: &Table) -> usize {
    let mut v = 0usize;
    for (n, s) in t.iter().enumerate() {
        if s.l {
            v |= 1 << (2 * n);
        }
        if s.g {
            v |= 1 << (2 * n + 1);
        }
        v |= (s.rw as usize) << (16 + 4 * n);
        v |= (s.len as usize) << (18 + 4 * n);
    }
    v
}

const LE_GE_MASK: usize = (1 << 8) | (1 << 9);

fn apply_ref(t: &mut Table, op: Op) {
    match op {
        Op::Configure(s, c, z) => {
            t[s].rw = CONDS[c as usize].1;
            t[s].len = SIZES[z as usize].1;
        }
        Op::SetDr(s, g, e) => {
            if g {
                t[s].g = e
            } else {
                t[s].l = e
            }
        }
    }
}

fn apply_real(r: &mut DebugControlRegister, op: Op) {
    match op {
        Op::Configure(s, c, z) => {
            r.configure_bp(dr(s), CONDS[c as usize].0, SIZES[z as usize].0)
        }
        Op::SetDr(s, g, e) => r.set_dr(dr(s), g, e),
    }
}

pub fn part_dr7(_tier: Tier) -> Part {
    let mut part = Part::new("dr7-encoding");
    part.rule = "explicit-state BFS from DR7=0 over the 48 operations configure_bp(slot,cond,size) / set_dr(slot,global,enable) of the real DebugControlRegister, deduplicated on (raw value, reference table); in every state raw (bits 8,9 masked) must equal an independently written SDM encoder applied to the reference slot table and dr_enabled must agree; non-trivial = at least one slot enabled".into();
    part.bounds = json!({"operations": 48, "depth": "unbounded (full reachable set)"});
    let all_ops = ops();
    let init: Table = [Slot { rw: 0, len: 0, l: false, g: false }; 4];
    // key: raw value -> table; dedupe on raw (reference table is a function of raw when the encoder is injective,
    // which is itself checked: a second table for the same raw is a violation)
    let mut seen: HashMap<usize, Table> = HashMap::new();
    let mut q: VecDeque<(usize, Table, u32)> = VecDeque::new();
    seen.insert(0, init);
    q.push_back((0, init, 0));
    let mut max_depth = 0;
    while let Some((raw, table, depth)) = q.pop_front() {
        part.states += 1;
        max_depth = max_depth.max(depth);
        if table.iter().any(|s| s.l || s.g) {
            part.distinct_nontrivial += 1;
        }
        for &op in &all_ops {
            let mut r = DebugControlRegister::verif_from_raw(raw);
            apply_real(&mut r, op);
            let mut t = table;
            apply_ref(&mut t, op);
            part.transitions += 1;
            part.evaluations += 1;
            let got = r.verif_raw();
            let want = encode(&t);
            if got & !LE_GE_MASK != want {
                part.violate(
                    "C14:dr7:encoding-mismatch",
                    format!("DR7 {raw:#x} after {op:?}: real {got:#x}, SDM encoding of reference table {want:#x} (bits 8,9 ignored)"),
                    json!({"engine":"dr7","raw":raw,"op":format!("{op:?}")}),
                );
                continue;
            }
            for n in 0..4 {
                for g in [false, true] {
                    let en = r.dr_enabled(dr(n), g);
                    let want_en = if g { t[n].g } else { t[n].l };
                    if en != want_en {
                        part.violate(
                            "C14:dr7:dr_enabled-mismatch",
                            format!("DR7 {got:#x}: dr_enabled(DR{n}, global={g}) = {en}, reference {want_en}"),
                            json!({"engine":"dr7","raw":raw,"op":format!("{op:?}")}),
                        );
                    }
                }
            }
            match seen.get(&got) {
                Some(prev) => {
                    if *prev != t {
                        part.violate(
                            "C14:dr7:two-tables-one-image",
                            format!("raw {got:#x} reached with two different reference tables"),
                            json!({"engine":"dr7","raw":raw,"op":format!("{op:?}")}),
                        );
                    }
                }
                None => {
                    seen.insert(got, t);
                    q.push_back((got, t, depth + 1));
                    if seen.len() % 300_000 == 1 {
                        part.sample(json!({"dr7": format!("{got:#x}"), "depth": depth + 1, "last_op": format!("{op:?}")}));
                    }
                }
            }
        }
    }
    part.distinct_outcomes = seen.len() as u64;
    part.traces_validated = part.transitions;
    part.extra.insert("max_depth".into(), json!(max_depth));
    part
}
