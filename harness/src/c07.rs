//! C07 — data query expressions mean what the documentation says.
//! Part (a): parsing is a function of the text (print with our printer → real parser → same AST).

use crate::common::*;
use bugstalker::debugger::variable::dqe::{Dqe, Literal, LiteralOrWildcard, PointerCast, Selector};
use bugstalker::ui::command::parser::expression;
use chumsky::Parser;
use rayon::prelude::*;
use serde_json::json;
use std::collections::HashMap;

// ---------------------------------------------------------------- printer (independent of repo)

pub fn print_literal(l: &Literal) -> String {
    match l {
        Literal::String(s) => format!("\"{s}\""),
        Literal::Int(i) => i.to_string(),
        Literal::Float(f) => {
            let s = format!("{f}");
            if s.contains('.') { s } else { format!("{s}.0") }
        }
        Literal::Address(a) => format!("0x{a:x}"),
        Literal::Bool(b) => b.to_string(),
        Literal::EnumVariant(v, None) => v.clone(),
        Literal::EnumVariant(v, Some(d)) => format!("{v}({})", print_literal(d)),
        Literal::Array(items) => format!(
            "{{{}}}",
            items.iter().map(print_low).collect::<Vec<_>>().join(", ")
        ),
        Literal::AssocArray(m) => {
            let mut keys: Vec<_> = m.keys().collect();
            keys.sort();
            format!(
                "{{{}}}",
                keys.iter()
                    .map(|k| format!("{k}: {}", print_low(&m[*k])))
                    .collect::<Vec<_>>()
                    .join(", ")
            )
        }
    }
}

fn print_low(l: &LiteralOrWildcard) -> String {
    match l {
        LiteralOrWildcard::Literal(l) => print_literal(l),
        LiteralOrWildcard::Wildcard => "*".into(),
    }
}

fn is_prefix(d: &Dqe) -> bool {
    matches!(d, Dqe::Deref(_) | Dqe::Address(_) | Dqe::Canonic(_))
}

/// Minimal-parenthesis printer following the documented precedence: postfix operators
/// (`.f`, `[i]`, `[a..b]`) bind tighter than the prefix ones (`*`, `&`, `~`).
pub fn print_dqe(d: &Dqe, verbose: bool) -> String {
    let sp = if verbose { " " } else { "" };
    let wrap = |inner: &Dqe| -> String {
        let s = print_dqe(inner, verbose);
        if is_prefix(inner) || verbose { format!("({sp}{s}{sp})") } else { s }
    };
    match d {
        Dqe::Variable(Selector::Name { var_name, .. }) => var_name.clone(),
        Dqe::Variable(Selector::Any) => unreachable!(),
        Dqe::PtrCast(PointerCast { ptr, ty }) => format!("({ty}){sp}0x{ptr:x}"),
        Dqe::Field(e, f) => format!("{}{sp}.{sp}{f}", wrap(e)),
        Dqe::Index(e, l) => format!("{}{sp}[{sp}{}{sp}]", wrap(e), print_literal(l)),
        Dqe::Slice(e, l, r) => format!(
            "{}{sp}[{sp}{}{sp}..{sp}{}{sp}]",
            wrap(e),
            l.map(|v| v.to_string()).unwrap_or_default(),
            r.map(|v| v.to_string()).unwrap_or_default()
        ),
        Dqe::Deref(e) => format!("*{sp}{}", if verbose { format!("({sp}{}{sp})", print_dqe(e, verbose)) } else { print_dqe(e, verbose) }),
        Dqe::Address(e) => format!("&{sp}{}", if verbose { format!("({sp}{}{sp})", print_dqe(e, verbose)) } else { print_dqe(e, verbose) }),
        Dqe::Canonic(e) => format!("~{sp}{}", if verbose { format!("({sp}{}{sp})", print_dqe(e, verbose)) } else { print_dqe(e, verbose) }),
        Dqe::DataCast(_) => unreachable!(),
    }
}

// ---------------------------------------------------------------- enumeration

fn lit_exemplars() -> Vec<Literal> {
    vec![
        Literal::Int(7),
        Literal::Int(-3),
        Literal::Float(1.5),
        Literal::Address(0x1f),
        Literal::Bool(true),
        Literal::String("k y".into()),
        Literal::EnumVariant("A::B".into(), None),
        Literal::EnumVariant("Some".into(), Some(Box::new(Literal::Int(1)))),
        Literal::Array(Box::new([
            LiteralOrWildcard::Literal(Literal::Int(1)),
            LiteralOrWildcard::Wildcard,
        ])),
        Literal::AssocArray(HashMap::from([
            ("f".to_string(), LiteralOrWildcard::Literal(Literal::Bool(false))),
            ("g".to_string(), LiteralOrWildcard::Wildcard),
        ])),
    ]
}

#[derive(Clone)]
enum OpK {
    Field(&'static str),
    Index(Literal),
    Slice(Option<usize>, Option<usize>),
    Deref,
    Address,
    Canonic,
}

fn operators() -> Vec<OpK> {
    let mut v = vec![OpK::Field("f"), OpK::Field("0")];
    for l in lit_exemplars() {
        v.push(OpK::Index(l));
    }
    v.extend([
        OpK::Slice(Some(1), Some(3)),
        OpK::Slice(None, Some(3)),
        OpK::Slice(Some(1), None),
        OpK::Slice(None, None),
        OpK::Deref,
        OpK::Address,
        OpK::Canonic,
    ]);
    v
}

fn apply(op: &OpK, d: Dqe) -> Dqe {
    match op {
        OpK::Field(f) => Dqe::Field(Box::new(d), f.to_string()),
        OpK::Index(l) => Dqe::Index(Box::new(d), l.clone()),
        OpK::Slice(a, b) => Dqe::Slice(Box::new(d), *a, *b),
        OpK::Deref => Dqe::Deref(Box::new(d)),
        OpK::Address => Dqe::Address(Box::new(d)),
        OpK::Canonic => Dqe::Canonic(Box::new(d)),
    }
}

fn bases() -> Vec<Dqe> {
    vec![
        Dqe::Variable(Selector::by_name("a", false)),
        Dqe::Variable(Selector::by_name("b::c", false)),
        Dqe::PtrCast(PointerCast::new(0x10, "*const u8")),
    ]
}

/// Literals of nesting depth <= d over all forms incl. wildcards.
fn literals(depth: usize) -> Vec<Literal> {
    let leaves = vec![
        Literal::Int(0),
        Literal::Int(-1),
        Literal::Int(i64::MAX),
        Literal::Float(0.5),
        Literal::Float(-2.25),
        Literal::Address(0),
        Literal::Address(usize::MAX),
        Literal::Bool(true),
        Literal::Bool(false),
        Literal::String(String::new()),
        Literal::String("a'b".into()),
        Literal::EnumVariant("None".into(), None),
        Literal::EnumVariant("m::E::V".into(), None),
    ];
    if depth == 0 {
        return leaves;
    }
    let inner = literals(depth - 1);
    let mut out = leaves;
    for i in &inner {
        out.push(Literal::EnumVariant("Some".into(), Some(Box::new(i.clone()))));
        out.push(Literal::Array(Box::new([LiteralOrWildcard::Literal(i.clone())])));
        out.push(Literal::Array(Box::new([
            LiteralOrWildcard::Wildcard,
            LiteralOrWildcard::Literal(i.clone()),
        ])));
        out.push(Literal::AssocArray(HashMap::from([(
            "k".to_string(),
            LiteralOrWildcard::Literal(i.clone()),
        )])));
        out.push(Literal::AssocArray(HashMap::from([
            ("k".to_string(), LiteralOrWildcard::Wildcard),
            ("j".to_string(), LiteralOrWildcard::Literal(i.clone())),
        ])));
    }
    out.push(Literal::Array(Box::new([])));
    out
}

fn parse(text: &str) -> Result<Dqe, String> {
    expression::parser()
        .parse(text)
        .into_result()
        .map_err(|e| format!("{e:?}"))
}

fn classify(d: &Dqe) -> String {
    // outermost operator pair for the signature
    fn name(d: &Dqe) -> &'static str {
        match d {
            Dqe::Variable(_) => "var",
            Dqe::PtrCast(_) => "ptrcast",
            Dqe::Field(..) => "field",
            Dqe::Index(_, l) => match l {
                Literal::String(_) => "index-string",
                Literal::Int(_) => "index-int",
                Literal::Float(_) => "index-float",
                Literal::Address(_) => "index-address",
                Literal::Bool(_) => "index-bool",
                Literal::EnumVariant(_, None) => "index-enum",
                Literal::EnumVariant(_, Some(_)) => "index-enum-data",
                Literal::Array(_) => "index-array",
                Literal::AssocArray(_) => "index-assoc",
            },
            Dqe::Slice(..) => "slice",
            Dqe::Deref(_) => "deref",
            Dqe::Address(_) => "address",
            Dqe::Canonic(_) => "canonic",
            Dqe::DataCast(_) => "datacast",
        }
    }
    fn inner(d: &Dqe) -> Option<&Dqe> {
        match d {
            Dqe::Field(e, _) | Dqe::Index(e, _) | Dqe::Slice(e, _, _) => Some(e),
            Dqe::Deref(e) | Dqe::Address(e) | Dqe::Canonic(e) => Some(e),
            _ => None,
        }
    }
    match inner(d) {
        Some(i) => format!("{}-over-{}", name(d), name(i)),
        None => name(d).to_string(),
    }
}

pub fn part_parse(tier: Tier) -> Part {
    let mut part = Part::new("dqe-parse-roundtrip");
    let depth = match tier {
        Tier::Quick => 3,
        Tier::Thorough => 4,
    };
    let ops = operators();
    part.bounds = json!({"bases": 3, "operators": ops.len(), "operator_depth": depth, "literal_nesting": 2, "renderings": ["minimal parentheses", "fully parenthesised + whitespace"]});
    part.rule = "every Dqe AST = base (3) with up to d operators from 19 (2 fields, 10 index literal exemplars, 4 slice forms, deref, address, canonic) and, separately, every index literal of nesting <= 2 over all forms incl. wildcards; each AST is printed by the harness's own printer (documented precedence) in two renderings and parsed by the real expression::parser(); the result must equal the AST. Every AST is distinct by construction; non-trivial = at least one operator".into();

    // level-by-level enumeration
    let mut level: Vec<Dqe> = bases();
    let mut all: Vec<Dqe> = level.clone();
    for _ in 0..depth {
        let mut next = Vec::with_capacity(level.len() * ops.len());
        for d in &level {
            for op in &ops {
                next.push(apply(op, d.clone()));
            }
        }
        all.extend(next.iter().cloned());
        level = next;
    }
    for l in literals(2) {
        all.push(Dqe::Index(
            Box::new(Dqe::Variable(Selector::by_name("a", false))),
            l,
        ));
    }
    let total = all.len();
    let results: Vec<Vec<(String, String, String)>> = all
        .par_chunks(2048)
        .map(|chunk| {
            let mut bad = vec![];
            for d in chunk {
                for verbose in [false, true] {
                    let text = print_dqe(d, verbose);
                    match parse(&text) {
                        Ok(back) if &back == d => {}
                        Ok(back) => bad.push((
                            format!("C07:parse:different-ast:{}", classify(d)),
                            text.clone(),
                            format!("text {text:?} parsed to {back:?}, expected {d:?}"),
                        )),
                        Err(e) => bad.push((
                            format!("C07:parse:rejected:{}", classify(d)),
                            text.clone(),
                            format!("canonical text {text:?} of {d:?} rejected: {}", &e[..e.len().min(200)]),
                        )),
                    }
                }
            }
            bad
        })
        .collect();
    part.states = total as u64;
    part.transitions = (total * 2) as u64;
    part.evaluations = (total * 2) as u64;
    part.distinct_nontrivial = (total - 3) as u64;
    part.traces_validated = (total * 2) as u64;
    let mut sigs = std::collections::BTreeSet::new();
    for (sig, text, detail) in results.into_iter().flatten() {
        sigs.insert(sig.clone());
        part.violate(sig, detail, json!({"engine":"dqe-parse","text":text}));
    }
    part.distinct_outcomes = 1 + sigs.len() as u64;
    for i in [3usize, 40, 700, total - 1] {
        if i < all.len() {
            part.sample(json!({"text": print_dqe(&all[i], false), "verbose_text": print_dqe(&all[i], true)}));
        }
    }
    part
}
