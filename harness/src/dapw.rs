//! E5 worker: the real `DebugSession::run` on its own thread over an in-memory transport.
//! One request at a time comes from the explorer; the worker answers with every message the
//! adapter wrote until the session asked for the next request (i.e. the handler finished).

use bugstalker::dap::transport::DapTransport;
use bugstalker::dap::yadap::session::DebugSession;
use serde_json::{Value, json};
use std::io::BufRead;
use std::os::unix::fs::FileExt;
use std::sync::mpsc::{Receiver, Sender, channel};
use std::sync::{Arc, Mutex};
use std::time::Duration;

enum ToMain {
    /// the session thread asks for the next request (previous handler is done)
    Idle,
    Wrote(Value),
    Ended(Result<(), String>),
}

struct WTransport {
    rx: Receiver<Option<Value>>,
    tx: Sender<ToMain>,
}

impl DapTransport for WTransport {
    fn read_message(&mut self) -> anyhow::Result<Value> {
        let _ = self.tx.send(ToMain::Idle);
        match self.rx.recv() {
            Ok(Some(v)) => Ok(v),
            _ => Err(anyhow::anyhow!("DAP connection closed")),
        }
    }
    fn write_message(&mut self, message: &Value) -> anyhow::Result<()> {
        let _ = self.tx.send(ToMain::Wrote(message.clone()));
        Ok(())
    }
}

fn text_sections(exe: &str) -> Vec<(u64, Vec<u8>)> {
    let Ok(info) = crate::reftrace::elf_info(exe) else { return vec![] };
    let Ok(data) = std::fs::read(exe) else { return vec![] };
    info.text.iter().map(|(a, o, s)| (*a, data[*o as usize..(*o + *s) as usize].to_vec())).collect()
}

/// The debuggee is a child of this worker process; after `restart` it is a new one.
fn live_child() -> Option<i64> {
    let mut kids = vec![];
    for t in std::fs::read_dir("/proc/self/task").ok()?.flatten() {
        if let Ok(s) = std::fs::read_to_string(t.path().join("children")) {
            for c in s.split_whitespace() {
                if let Ok(c) = c.parse::<i64>() {
                    let st = std::fs::read_to_string(format!("/proc/{c}/stat")).unwrap_or_default();
                    let state = st.rsplit(") ").next().and_then(|r| r.chars().next()).unwrap_or('?');
                    if state != 'Z' && state != '?' {
                        kids.push(c);
                    }
                }
            }
        }
    }
    kids.into_iter().max()
}

fn proc_view(pid: i64, text: &[(u64, Vec<u8>)], main_entry_sp: u64, regions: &[(u64, u64)]) -> Value {
    // kernel-side view of the debuggee: pc/sp of the main thread when it sits in a ptrace stop,
    // thread states, and the bytes of the text sections that differ from the file
    let mut o = serde_json::Map::new();
    if pid <= 0 || !std::path::Path::new(&format!("/proc/{pid}")).exists() {
        o.insert("exists".into(), json!(false));
        return Value::Object(o);
    }
    o.insert("exists".into(), json!(true));
    if let Ok(s) = std::fs::read_to_string(format!("/proc/{pid}/syscall")) {
        let parts: Vec<&str> = s.split_whitespace().collect();
        if parts.len() >= 3 && parts[0] == "-1" {
            let p = |x: &str| u64::from_str_radix(x.trim_start_matches("0x"), 16).unwrap_or(0);
            o.insert("sp".into(), json!(p(parts[1])));
            o.insert("pc".into(), json!(p(parts[2])));
            if main_entry_sp != 0 {
                // same state hash as the reference tracer: live stack of main's frames + .data/.bss
                o.insert("mem".into(), json!(crate::reftrace::hash_mem(pid as i32, p(parts[1]), main_entry_sp + 8, regions)));
            }
        }
    }
    let st = std::fs::read_to_string(format!("/proc/{pid}/stat")).unwrap_or_default();
    let state = st.rsplit(") ").next().and_then(|r| r.chars().next()).unwrap_or('?');
    o.insert("state".into(), json!(state.to_string()));
    let mut diff = vec![];
    if let Ok(f) = std::fs::File::open(format!("/proc/{pid}/mem")) {
        for (addr, bytes) in text {
            let mut buf = vec![0u8; bytes.len()];
            if f.read_exact_at(&mut buf, *addr).is_ok() {
                for (i, (a, b)) in buf.iter().zip(bytes.iter()).enumerate() {
                    if a != b && diff.len() < 64 {
                        diff.push(*addr + i as u64);
                    }
                }
            }
        }
    }
    o.insert("text_diff".into(), json!(diff));
    Value::Object(o)
}

/// stdin: first line {exe: "..."} (for the independent text comparison), then one DAP request per
/// line; `{"end":true}` or EOF closes the connection. Output: `OBS {...}` per request, `RESULT`.
pub fn worker() {
    let stdin = std::io::stdin();
    let mut lines = stdin.lock().lines();
    let first = lines.next().and_then(|l| l.ok()).unwrap_or_default();
    let init: Value = serde_json::from_str(&first).unwrap_or(json!({}));
    let exe = init["exe"].as_str().unwrap_or("").to_string();
    let text = text_sections(&exe);
    let main_entry_sp = init["main_entry_sp"].as_u64().unwrap_or(0);
    let regions = crate::reftrace::elf_info(&exe).map(|i| i.regions).unwrap_or_default();

    let (req_tx, req_rx) = channel::<Option<Value>>();
    let (ev_tx, ev_rx) = channel::<ToMain>();
    let io: Arc<Mutex<dyn DapTransport>> = Arc::new(Mutex::new(WTransport { rx: req_rx, tx: ev_tx.clone() }));
    let ev_tx2 = ev_tx.clone();
    let session = std::thread::spawn(move || {
        let r = DebugSession::new(io).run(vec![]);
        let _ = ev_tx2.send(ToMain::Ended(r.map_err(|e| format!("{e:#}"))));
    });

    let mut ended: Option<Result<(), String>> = None;
    let mut debuggee_pid: i64 = 0;
    // wait until the session asks for the first request
    let mut pending_idle = false;
    let mut collect = |ended: &mut Option<Result<(), String>>, pid: &mut i64, timeout: Duration| -> (Vec<Value>, bool) {
        let mut wire = vec![];
        let mut timed_out = false;
        loop {
            match ev_rx.recv_timeout(timeout) {
                Ok(ToMain::Idle) => break,
                Ok(ToMain::Wrote(v)) => {
                    if v["event"] == "process" {
                        if let Some(p) = v["body"]["systemProcessId"].as_i64() {
                            *pid = p;
                        }
                    }
                    wire.push(v)
                }
                Ok(ToMain::Ended(r)) => {
                    *ended = Some(r);
                    break;
                }
                Err(_) => {
                    timed_out = true;
                    break;
                }
            }
        }
        (wire, timed_out)
    };
    let (w0, _) = collect(&mut ended, &mut debuggee_pid, Duration::from_secs(20));
    let mut all_wire: Vec<Value> = w0;
    let _ = &mut pending_idle;
    for l in lines {
        let Ok(l) = l else { break };
        if l.trim().is_empty() {
            continue;
        }
        let Ok(req) = serde_json::from_str::<Value>(&l) else { break };
        if req["end"].as_bool().unwrap_or(false) {
            break;
        }
        if ended.is_some() {
            println!("OBS {}", json!({"wire": [], "session_ended": true, "end": format!("{:?}", ended)}));
            continue;
        }
        let t0 = std::time::Instant::now();
        let _ = req_tx.send(Some(req));
        let (wire, timed_out) = collect(&mut ended, &mut debuggee_pid, Duration::from_secs(60));
        all_wire.extend(wire.iter().cloned());
        if let Some(c) = live_child() {
            debuggee_pid = c;
        }
        let o = json!({
            "wire": wire,
            "timed_out": timed_out,
            "session_ended": ended.is_some(),
            "end": ended.as_ref().map(|r| format!("{r:?}")),
            "proc": proc_view(debuggee_pid, &text, main_entry_sp, &regions),
            "pid": debuggee_pid,
            "ms": t0.elapsed().as_millis() as u64,
        });
        println!("OBS {}", serde_json::to_string(&o).unwrap());
        if timed_out {
            break;
        }
    }
    // close the connection; collect what the adapter still writes (forwarder output etc.)
    let _ = req_tx.send(None);
    drop(req_tx);
    let mut tail = vec![];
    let deadline = std::time::Instant::now() + Duration::from_secs(5);
    while ended.is_none() && std::time::Instant::now() < deadline {
        match ev_rx.recv_timeout(Duration::from_millis(200)) {
            Ok(ToMain::Wrote(v)) => tail.push(v),
            Ok(ToMain::Ended(r)) => ended = Some(r),
            Ok(ToMain::Idle) => {}
            Err(_) => {}
        }
    }
    let _ = session;
    // late writers (output forwarders) after the session thread returned
    while let Ok(m) = ev_rx.recv_timeout(Duration::from_millis(50)) {
        if let ToMain::Wrote(v) = m {
            tail.push(v);
        }
    }
    let left = debuggee_pid > 0 && std::path::Path::new(&format!("/proc/{debuggee_pid}")).exists();
    let state = std::fs::read_to_string(format!("/proc/{debuggee_pid}/stat")).ok().and_then(|st| st.rsplit(") ").next().and_then(|r| r.chars().next()));
    crate::common::emit_result(&json!({"tail": tail, "ended": format!("{ended:?}"), "debuggee_left": left, "debuggee_state": state.map(|c| c.to_string()), "pid": debuggee_pid}));
}
