//! C06 / C07 on std types: String, Vec, VecDeque, HashMap/HashSet, BTreeMap/BTreeSet, Box/Rc/Arc,
//! Cell/RefCell, slices, statics and thread-locals in a std-linked debuggee.  The program is
//! generated from a size parameter; the expected values come from the same formulas (not from the
//! program's output), in a plain canonical form: sequences keep their order, sets and maps are
//! compared as sorted collections.

use crate::common::{Part, Tier};
use crate::mt::session;
use serde_json::{Value, json};
use std::time::Duration;

fn program(n: u64, wrap: u64) -> String {
    format!(
        r#"use std::cell::{{Cell, RefCell}};
use std::collections::{{BTreeMap, BTreeSet, HashMap, HashSet, VecDeque}};
use std::rc::Rc;
use std::sync::Arc;

static G_U32: u32 = 4000000000;
static mut G_MUT: i64 = -5;
thread_local! {{
    static TL_A: Cell<u32> = Cell::new(77);
}}
#[derive(Debug, Clone, PartialEq, Eq, Hash, PartialOrd, Ord)]
struct Key {{
    a: u8,
    b: i32,
}}

#[derive(Debug)]
struct Sample {{
    id: u32,
    enabled: bool,
    ratio: f64,
    unit: (),
}}
#[derive(Debug)]
enum Shape {{
    Circle {{ r: f32 }},
    Flag(bool),
}}

#[inline(never)]
fn stop_here(x: u64) -> u64 {{
    x + 1
}}

#[inline(never)]
fn takes_args(a_vec: Vec<i32>, a_str: String, a_opt: Option<u8>, a_tup: (i32, bool), a_ref: &Vec<u8>, a_map: &BTreeMap<u16, u16>, a_u: u64, a_f: f64) -> usize {{
    let k = a_vec.len() + a_str.len() + a_ref.len() + a_map.len();
    println!("DBG a_vec={{:?}}", a_vec);
    println!("DBG a_str={{:?}}", a_str);
    println!("DBG a_opt={{:?}}", a_opt);
    println!("DBG a_tup={{:?}}", a_tup);
    println!("DBG a_ref={{:?}}", a_ref);
    println!("DBG a_map={{:?}}", a_map);
    println!("DBG a_u={{:?}}", a_u);
    println!("DBG a_f={{:?}}", a_f);
    k + a_u as usize + a_opt.unwrap_or(0) as usize + a_tup.0.unsigned_abs() as usize + a_f as usize
}}

fn main() {{
    let n: u64 = {n};
    let s_ascii = String::from("hello");
    let s_utf8 = String::from("héllo wörld ✓");
    let s_empty = String::new();
    let v_i32: Vec<i32> = (0..n as i32).map(|k| if k % 2 == 0 {{ k }} else {{ -k }}).collect();
    let v_empty: Vec<u8> = Vec::new();
    let mut v_cap: Vec<u16> = Vec::with_capacity(16);
    v_cap.push(7);
    v_cap.push(9);
    let vv: Vec<Vec<u8>> = vec![vec![1, 2], vec![], vec![3]];
    let v_str: Vec<String> = (0..n.min(5)).map(|k| "x".repeat(k as usize)).collect();
    let mut vd: VecDeque<u16> = VecDeque::with_capacity(8);
    for k in 0..{wrap}u16 {{
        vd.push_back(k);
        vd.pop_front();
    }}
    for k in 0..6u16 {{
        vd.push_back(100 + k);
    }}
    vd.push_front(99);
    let mut hm: HashMap<u64, i64> = HashMap::new();
    for k in 0..n {{
        hm.insert(k * 7, -(k as i64));
    }}
    // filled to the brim, then mostly emptied: tombstones in the table
    let mut hm_del: HashMap<u64, u64> = HashMap::with_capacity(112);
    let mut hs_del: HashSet<u32> = HashSet::with_capacity(112);
    for k in 0..112u64 {{
        hm_del.insert(k, k * k);
        hs_del.insert(k as u32 * 2);
    }}
    for k in 0..112u64 {{
        if k % 3 != 0 {{
            hm_del.remove(&k);
            hs_del.remove(&(k as u32 * 2));
        }}
    }}
    let mut bm_del: BTreeMap<u16, u16> = (0..200u16).map(|k| (k, k + 1)).collect();
    for k in 0..200u16 {{
        if k % 5 != 0 {{
            bm_del.remove(&k);
        }}
    }}
    let mut vd_del: VecDeque<u8> = (0..20u8).collect();
    for _ in 0..15 {{
        vd_del.pop_front();
    }}
    vd_del.extend(100..110u8);
    let mut bm_tup: BTreeMap<(u8, i16, u32), u64> = BTreeMap::new();
    bm_tup.insert((1, 2, 3), 123);
    bm_tup.insert((1, 7, 4), 174);
    bm_tup.insert((2, 2, 5), 225);
    bm_tup.insert((3, -2, 6), 326);
    let mut hm_tup: HashMap<(u8, u8), u16> = HashMap::new();
    hm_tup.insert((1, 2), 12);
    hm_tup.insert((3, 4), 34);
    let mut hm_key: HashMap<Key, String> = HashMap::new();
    hm_key.insert(Key {{ a: 1, b: -1 }}, "one".to_string());
    hm_key.insert(Key {{ a: 2, b: -2 }}, "two".to_string());
    let mut hs: HashSet<i16> = HashSet::new();
    for k in 0..n as i16 {{
        hs.insert(k * 3 - 5);
    }}
    let mut bm: BTreeMap<u32, &str> = BTreeMap::new();
    for k in 0..(n * 10) as u32 {{
        bm.insert(k * 3, if k % 2 == 0 {{ "even" }} else {{ "odd" }});
    }}
    let mut bs: BTreeSet<i64> = BTreeSet::new();
    for k in 0..(n * 10) as i64 {{
        bs.insert(k * k - 50);
    }}
    // every fill level of leaves and of the root: maps of 0..=100 keys inserted in order
    let bm_sizes: Vec<BTreeMap<u16, u16>> = (0..=100u16).map(|k| (0..k).map(|i| (i, i.wrapping_mul(i))).collect()).collect();
    // every fill level of the hash table groups: sets of 0..=40 keys
    let hs_sizes: Vec<HashSet<u16>> = (0..=40u16).map(|k| (0..k).map(|i| i * 3).collect()).collect();
    let bx: Box<(u8, i32)> = Box::new((9, -9));
    let rc: Rc<u64> = Rc::new(123456789012);
    let rc2 = rc.clone();
    let arc: Arc<String> = Arc::new("shared".to_string());
    let cell: Cell<i8> = Cell::new(-8);
    let rcell: RefCell<Vec<u8>> = RefCell::new(vec![4, 5]);
    let opt_s: Option<String> = Some("some".to_string());
    let opt_none: Option<String> = None;
    let arr = [10u16, 20, 30, 40];
    let sl: &[u16] = &arr[1..3];
    let tup = (s_ascii.clone(), vec![1u8, 2]);
    let sample = Sample {{ id: 42, enabled: true, ratio: 1.625, unit: () }};
    let shape_c = Shape::Circle {{ r: 2.25 }};
    let shape_f = Shape::Flag(false);
    let v_bool = vec![true, false, true];
    let v_f64 = vec![1.5f64, -0.25, 1e-7];
    let opt_b: Option<bool> = Some(true);
    let opt_f: Option<f32> = Some(0.1);
    let dur = std::time::Duration::from_millis(1500);
    TL_A.with(|c| c.set(78));
    let g = unsafe {{ std::ptr::read_volatile(&raw const G_MUT) }} + G_U32 as i64;
    let r = stop_here(g as u64);
    let ka = takes_args(v_i32.clone(), s_utf8.clone(), Some(7), (-3, true), &vv[0], &bm_del, n, 2.5);
    println!("DBG s_ascii={{:?}}", s_ascii);
    println!("DBG s_utf8={{:?}}", s_utf8);
    println!("DBG s_empty={{:?}}", s_empty);
    println!("DBG v_i32={{:?}}", v_i32);
    println!("DBG v_empty={{:?}}", v_empty);
    println!("DBG v_cap={{:?}}", v_cap);
    println!("DBG vv={{:?}}", vv);
    println!("DBG v_str={{:?}}", v_str);
    println!("DBG vd={{:?}}", vd);
    println!("DBG vd_del={{:?}}", vd_del);
    println!("DBG hm={{:?}}", hm);
    println!("DBG hm_del={{:?}}", hm_del);
    println!("DBG hs_del={{:?}}", hs_del);
    println!("DBG hm_key={{:?}}", hm_key);
    println!("DBG hs={{:?}}", hs);
    println!("DBG bm={{:?}}", bm);
    println!("DBG bm_del={{:?}}", bm_del);
    println!("DBG bs={{:?}}", bs);
    println!("DBG bx={{:?}}", bx);
    println!("DBG rc={{:?}}", rc);
    println!("DBG arc={{:?}}", arc);
    println!("DBG cell={{:?}}", cell);
    println!("DBG rcell={{:?}}", rcell);
    println!("DBG opt_s={{:?}}", opt_s);
    println!("DBG opt_none={{:?}}", opt_none);
    println!("DBG arr={{:?}}", arr);
    println!("DBG sl={{:?}}", sl);
    println!("DBG tup={{:?}}", tup);
    println!("DBG sample={{:?}}", sample);
    println!("DBG shape_c={{:?}}", shape_c);
    println!("DBG shape_f={{:?}}", shape_f);
    println!("DBG v_bool={{:?}}", v_bool);
    println!("DBG v_f64={{:?}}", v_f64);
    println!("DBG opt_b={{:?}}", opt_b);
    println!("DBG opt_f={{:?}}", opt_f);
    println!("DBG dur={{:?}}", dur);
    println!("DBG n={{:?}}", n);
    println!("DBG g={{:?}}", g);
    println!("{{r}} {{ka}} {{}} {{}} {{}} {{}} {{}} {{}} {{}} {{}} {{}} {{}} {{}} {{}} {{}} {{}} {{}} {{}} {{}} {{}} {{:?}} {{:?}} {{:?}} {{:?}} {{:?}} {{}}", s_ascii, s_utf8, s_empty.len(), v_i32.len(), v_empty.len(), v_cap.len(), vv.len(), v_str.len(), vd.len(), hm.len(), hs.len(), bm.len(), bs.len(), bx.0, rc2, arc, cell.get(), bm_tup.len() + hm_tup.len() + hm_key.len() + hm_del.len() + hs_del.len() + bm_del.len() + vd_del.len() + bm_sizes.len() + hs_sizes.len(), rcell, opt_s, opt_none, sl, tup, n);
}}
"#
    )
}

pub const ARGD_NAMES: [&str; 8] = ["a_vec", "a_str", "a_opt", "a_tup", "a_ref", "a_map", "a_u", "a_f"];
pub const VARD_NAMES: [&str; 38] = ["sample", "shape_c", "shape_f", "v_bool", "v_f64", "opt_b", "opt_f", "dur", "s_ascii", "s_utf8", "s_empty", "v_i32", "v_empty", "v_cap", "vv", "v_str", "vd", "vd_del", "hm", "hm_del", "hs_del", "hm_key", "hs", "bm", "bm_del", "bs", "bx", "rc", "arc", "cell", "rcell", "opt_s", "opt_none", "arr", "sl", "tup", "n", "g"];

/// Build (if needed) the program for one size parameter: (exe, source file name, line of the stop).
pub fn ensure_built(n: u64, wrap: u64) -> Result<(String, String, u64), String> {
    ensure_built_tc(n, wrap, "1.89")
}

pub fn ensure_built_tc(n: u64, wrap: u64, tc: &str) -> Result<(String, String, u64), String> {
    let dir = crate::common::build_dir().join("std");
    let _ = std::fs::create_dir_all(&dir);
    let src = dir.join(format!("coll_{n}_{wrap}.rs"));
    let exe = dir.join(if tc == "1.89" { format!("coll_{n}_{wrap}") } else { format!("coll_{n}_{wrap}_{}", tc.replace('.', "")) });
    let text = program(n, wrap);
    let same_src = std::fs::read_to_string(&src).map(|t| t == text).unwrap_or(false);
    // the executable is newer than the source it was built from
    let fresh = same_src && exe.exists() && std::fs::metadata(&exe).and_then(|e| Ok(e.modified()? >= std::fs::metadata(&src)?.modified()?)).unwrap_or(false);
    if !fresh {
        if !same_src {
            std::fs::write(&src, &text).map_err(|e| e.to_string())?;
        }
        let out = std::process::Command::new("rustc").current_dir("/").arg(format!("+{tc}")).args(["--edition", "2021", "-g", "-C", "opt-level=0", "-o"]).arg(&exe).arg(&src).output().map_err(|e| e.to_string())?;
        if !out.status.success() {
            return Err(String::from_utf8_lossy(&out.stderr).to_string());
        }
    }
    let line = text.lines().position(|l| l.contains("let r = stop_here")).map(|i| i as u64 + 1).unwrap_or(0);
    Ok((exe.display().to_string(), src.file_name().unwrap().to_string_lossy().to_string(), line))
}

/// canonical plain form of the debugger's value JSON (valw::vjson)
fn plain(v: &Value) -> Value {
    let k = v["k"].as_str().unwrap_or("");
    match k {
        "scalar" => v["v"].clone(),
        "string" | "str" => json!({"s": v["v"]}),
        "vec" | "vecdeque" | "array" => json!(v["items"].as_array().map(|a| a.iter().map(plain).collect::<Vec<_>>())),
        "hashset" | "btreeset" => {
            let mut items: Vec<Value> = v["items"].as_array().map(|a| a.iter().map(plain).collect()).unwrap_or_default();
            items.sort_by_key(|x| x.to_string());
            json!({"set": items})
        }
        "hashmap" | "btreemap" => {
            let mut kv: Vec<Value> = v["kv"].as_array().map(|a| a.iter().map(|p| json!([plain(&p[0]), plain(&p[1])])).collect()).unwrap_or_default();
            kv.sort_by_key(|x| x.to_string());
            json!({"map": kv})
        }
        "struct" => json!(v["fields"].as_array().map(|f| f.iter().map(|p| json!([p[0], plain(&p[1])])).collect::<Vec<_>>())),
        "enum" => json!({"variant": v["variant"], "value": plain(&v["value"])}),
        "cell" | "cmod" | "tls" => plain(&v["value"]),
        "cenum" => v["v"].clone(),
        "pointer" | "rc" => json!("ptr"),
        _ => json!({"unknown": v.clone()}),
    }
}

fn set_of(mut items: Vec<Value>) -> Value {
    items.sort_by_key(|x| x.to_string());
    json!({"set": items})
}

fn map_of(mut kv: Vec<Value>) -> Value {
    kv.sort_by_key(|x| x.to_string());
    json!({"map": kv})
}

fn s(x: impl ToString) -> Value {
    json!(x.to_string())
}

/// expected locals (plain form) and their type-name prefixes
fn expected(n: u64) -> Vec<(&'static str, Value, &'static str)> {
    let ni = n as i64;
    vec![
        ("s_ascii", json!({"s": "hello"}), ""),
        ("s_utf8", json!({"s": "héllo wörld ✓"}), ""),
        ("s_empty", json!({"s": ""}), ""),
        ("v_i32", json!((0..ni).map(|k| s(if k % 2 == 0 { k } else { -k })).collect::<Vec<_>>()), "Vec<i32"),
        ("v_empty", json!([]), "Vec<u8"),
        ("v_cap", json!(["7", "9"]), "Vec<u16"),
        ("vv", json!([["1", "2"], [], ["3"]]), "Vec<alloc::vec::Vec<u8"),
        ("v_str", json!((0..n.min(5)).map(|k| json!({"s": "x".repeat(k as usize)})).collect::<Vec<_>>()), "Vec<alloc::string::String"),
        ("vd", json!(["99", "100", "101", "102", "103", "104", "105"]), "VecDeque<u16"),
        ("hm", map_of((0..n).map(|k| json!([s(k * 7), s(-(k as i64))])).collect()), "HashMap<u64, i64"),
        ("bm_tup", map_of(vec![json!([[["__0", "1"], ["__1", "2"], ["__2", "3"]], "123"]), json!([[["__0", "1"], ["__1", "7"], ["__2", "4"]], "174"]), json!([[["__0", "2"], ["__1", "2"], ["__2", "5"]], "225"]), json!([[["__0", "3"], ["__1", "-2"], ["__2", "6"]], "326"])]), "BTreeMap<(u8, i16, u32), u64"),
        ("hm_key", map_of(vec![json!([[["a", "1"], ["b", "-1"]], {"s": "one"}]), json!([[["a", "2"], ["b", "-2"]], {"s": "two"}])]), "HashMap<"),
        ("hs", set_of((0..ni).map(|k| s(k * 3 - 5)).collect()), "HashSet<i16"),
        ("hm_del", map_of((0..112u64).filter(|k| k % 3 == 0).map(|k| json!([s(k), s(k * k)])).collect()), "HashMap<u64, u64"),
        ("hs_del", set_of((0..112u64).filter(|k| k % 3 == 0).map(|k| s(k * 2)).collect()), "HashSet<u32"),
        ("bm_del", map_of((0..200u64).filter(|k| k % 5 == 0).map(|k| json!([s(k), s(k + 1)])).collect()), "BTreeMap<u16, u16"),
        ("vd_del", json!((15..20u64).chain(100..110).map(s).collect::<Vec<_>>()), "VecDeque<u8"),
        ("bm", map_of((0..n * 10).map(|k| json!([s(k * 3), {"s": if k % 2 == 0 { "even" } else { "odd" }}])).collect()), "BTreeMap<u32, &str"),
        ("bs", set_of((0..ni * 10).map(|k| s(k * k - 50)).collect()), "BTreeSet<i64"),
        ("bm_sizes", json!((0..=100u64).map(|k| map_of((0..k).map(|i| json!([s(i), s((i * i) % 65536)])).collect())).collect::<Vec<_>>()), "Vec<alloc::collections::btree::map::BTreeMap<u16, u16"),
        ("hs_sizes", json!((0..=40u64).map(|k| set_of((0..k).map(|i| s(i * 3)).collect())).collect::<Vec<_>>()), "Vec<std::collections::hash::set::HashSet<u16"),
        ("cell", s(-8), ""),
        ("opt_s", json!({"variant": "Some", "value": [["__0", {"s": "some"}]]}), "Option<alloc::string::String>"),
        ("opt_none", json!({"variant": "None", "value": []}), "Option<alloc::string::String>"),
        ("arr", json!(["10", "20", "30", "40"]), ""),
        ("tup", json!([["__0", {"s": "hello"}], ["__1", ["1", "2"]]]), ""),
        ("g", s(3999999995i64), "i64"),
        ("n", s(n), "u64"),
    ]
}

/// expected arguments of `takes_args` at its second statement (at the first one the location list
/// of the by-reference arguments has a gap: the compiler says they are not available there)
fn expected_args(n: u64) -> Vec<(&'static str, Value)> {
    let ni = n as i64;
    vec![
        ("a_vec", json!((0..ni).map(|k| s(if k % 2 == 0 { k } else { -k })).collect::<Vec<_>>())),
        ("a_str", json!({"s": "héllo wörld ✓"})),
        ("a_opt", json!({"variant": "Some", "value": [["__0", "7"]]})),
        ("a_tup", json!([["__0", "-3"], ["__1", true]])),
        ("a_ref", json!("ptr")),
        ("a_map", json!("ptr")),
        ("a_u", s(n)),
        ("a_f", s("2.5")),
    ]
}

/// data-query expressions over arguments (`arg <expr>`)
fn expected_arg_dqe(n: u64) -> Vec<(String, Option<Value>)> {
    vec![
        ("*a_ref".into(), Some(json!(["1", "2"]))),
        ("(*a_ref)[1]".into(), Some(s(2))),
        ("(*a_ref)[2]".into(), None),
        ("*a_map".into(), Some(map_of((0..200u64).filter(|k| k % 5 == 0).map(|k| json!([s(k), s(k + 1)])).collect()))),
        ("(*a_map)[5]".into(), Some(s(6))),
        ("(*a_map)[6]".into(), None),
        ("a_tup.__1".into(), Some(json!(true))),
        ("a_tup.__0".into(), Some(s(-3))),
        ("a_vec[0]".into(), Some(s(0))),
        (format!("a_vec[{n}]"), None),
        ("a_nothing".into(), None),
        ("v_i32".into(), None),
    ]
}

/// expressions and their expected plain results (None = must select nothing / fail)
fn expected_dqe(n: u64) -> Vec<(String, Option<Value>)> {
    let last = n as i64 - 1;
    let v_at = |k: i64| s(if k % 2 == 0 { k } else { -k });
    vec![
        ("G_U32".into(), Some(s(4000000000u64))),
        ("G_MUT".into(), Some(s(-5))),
        ("TL_A".into(), Some(s(78))),
        ("v_i32[1]".into(), if n > 1 { Some(s(-1)) } else { None }),
        (format!("v_i32[{last}]"), Some(v_at(last))),
        (format!("v_i32[{n}]"), None),
        // a range that reaches past the end is clipped (Rust itself would panic: not specified)
        ("v_i32[1..3]".into(), Some(json!((1..3.min(n as i64)).map(v_at).collect::<Vec<_>>()))),
        ("v_i32[..2]".into(), Some(json!((0..2.min(n as i64)).map(v_at).collect::<Vec<_>>()))),
        (format!("v_i32[{last}..]"), Some(json!([v_at(last)]))),
        ("vd[0]".into(), Some(s(99))),
        ("vd[6]".into(), Some(s(105))),
        ("vd[7]".into(), None),
        ("vd[1..3]".into(), Some(json!(["100", "101"]))),
        // an index applied to a slice counts from the start of the slice
        ("vd[1..3][0]".into(), Some(s(100))),
        ("vd[1..3][1]".into(), Some(s(101))),
        ("vd[1..3][2]".into(), None),
        ("vd[2..][0]".into(), Some(s(101))),
        ("arr[2..][0]".into(), Some(s(30))),
        ("arr[1..3][1]".into(), Some(s(30))),
        ("arr[1..3][2]".into(), None),
        ("arr[1..][1..][0]".into(), Some(s(30))),
        ("arr[..2][1]".into(), Some(s(20))),
        ("vv[0][1..][0]".into(), Some(s(2))),
        ("hm[7]".into(), if n > 1 { Some(s(-1)) } else { None }),
        (format!("hm[{}]", last * 7), Some(s(-last))),
        ("hm[3]".into(), None),
        ("hm_key[{a: 2, b: -2}]".into(), Some(json!({"s": "two"}))),
        ("hm_key[{a: 1, b: *}]".into(), Some(json!({"s": "one"}))),
        ("hm_key[{a: 3, b: *}]".into(), None),
        ("bm_tup[{1, 7, 4}]".into(), Some(s(174))),
        ("bm_tup[{1, *, 3}]".into(), Some(s(123))),
        ("bm_tup[{1, *, 4}]".into(), Some(s(174))),
        ("bm_tup[{*, 7, *}]".into(), Some(s(174))),
        ("bm_tup[{*, *, 5}]".into(), Some(s(225))),
        ("bm_tup[{3, -2, *}]".into(), Some(s(326))),
        ("bm_tup[{1, *, 8}]".into(), None),
        ("bm_tup[{*, 9, 9}]".into(), None),
        ("bm_tup[{*, 2, 4}]".into(), None),
        ("hm_tup[{3, *}]".into(), Some(s(34))),
        ("hm_tup[{*, 2}]".into(), Some(s(12))),
        ("hm_tup[{*, 3}]".into(), None),
        ("hs[-5]".into(), Some(json!(true))),
        ("hs[-2]".into(), Some(json!(n > 1))),
        ("hs[-4]".into(), Some(json!(false))),
        ("bm[3]".into(), Some(json!({"s": "odd"}))),
        (format!("bm[{}]", (n * 10 - 1) * 3), Some(json!({"s": if (n * 10 - 1) % 2 == 0 { "even" } else { "odd" }}))),
        ("bm[4]".into(), None),
        ("bs[-50]".into(), Some(json!(true))),
        ("bs[-48]".into(), Some(json!(false))),
        ("*bx".into(), Some(json!([["__0", "9"], ["__1", "-9"]]))),
        ("(*rc).value".into(), Some(s(123456789012u64))),
        ("(*arc).data".into(), Some(json!({"s": "shared"}))),
        ("*sl.data_ptr".into(), Some(s(20))),
        ("sl.length".into(), Some(s(2))),
        ("vv[0][1]".into(), Some(s(2))),
        ("vv[2][0]".into(), Some(s(3))),
        ("vv[1][0]".into(), None),
        ("v_str[1]".into(), if n > 1 { Some(json!({"s": "x"})) } else { None }),
        ("arr[2..]".into(), Some(json!(["30", "40"]))),
        ("arr[4]".into(), None),
        ("rcell.value[1]".into(), Some(s(5))),
        ("(~v_cap).len".into(), Some(s(2))),
    ]
}

/// `expressions = false`: the locals (C06); `true`: the data-query expressions (C07).
pub fn part_std(tier: Tier, expressions: bool) -> Part {
    let mut part = Part::new(if expressions { "c07_std_expressions" } else { "c06_std_collections" });
    part.rule = "std-linked debuggee generated from a size parameter: locals of String, Vec (empty, spare capacity, nested, of Strings), VecDeque (ring wrapped at several offsets), HashMap (scalar and struct keys), HashSet, BTreeMap/BTreeSet (multi-level), Box, Rc, Arc, Cell, RefCell, Option<String>, slices, tuples, statics and a thread-local; read_local_variables at a stop must equal the generator's table (sequences in order, sets/maps as sets, collection type names); at a second stop inside a callee with 8 parameters (Vec, String, Option, tuple, &Vec, &BTreeMap, u64, f64) `arg all` must show exactly those parameters with the values passed, and 12 `arg <expression>` queries (deref of the reference parameters, index, key, field, misses, a caller's local) their table answers; 39 data-query expressions (index, key, key pattern, slice, deref, field, canonical header; including misses) must give the table's answer".into();
    let configs: Vec<(u64, u64, &str)> = if tier == Tier::Quick { vec![(3, 5, "1.89")] } else { vec![(1, 0, "1.89"), (3, 5, "1.89"), (12, 7, "1.89"), (40, 13, "1.89"), (150, 3, "1.89"), (3, 5, "stable"), (40, 13, "stable")] };
    for &(n, wrap, tc) in &configs {
        let text = program(n, wrap);
        let (exe, file, line) = match ensure_built_tc(n, wrap, tc) {
            Ok(x) => x,
            Err(e) => {
                part.violate("MACHINERY:std-build", e, json!(null));
                continue;
            }
        };
        let exe = std::path::PathBuf::from(exe);
        let src = std::path::PathBuf::from(&file);
        let exprs: Vec<String> = expected_dqe(n).into_iter().map(|e| e.0).collect();
        let arg_line = text.lines().position(|l| l.contains("DBG a_vec=")).map(|i| i as u64 + 1).unwrap_or(0);
        let arg_exprs: Vec<String> = expected_arg_dqe(n).into_iter().map(|e| e.0).collect();
        let cmds = vec![
            json!({"op": "break_line", "file": src.file_name().unwrap().to_string_lossy(), "line": line}),
            json!({"op": "break_line", "file": src.file_name().unwrap().to_string_lossy(), "line": arg_line}),
            json!({"op": "start"}),
            json!({"op": "values", "names": [], "derefs": []}),
            json!({"op": "dqe", "exprs": exprs}),
            json!({"op": "vard", "exprs": VARD_NAMES.to_vec()}),
            json!({"op": "continue"}),
            json!({"op": "values", "names": [], "derefs": []}),
            json!({"op": "dqe", "exprs": arg_exprs, "args": true}),
            json!({"op": "continue"}),
        ];
        let run = session(&exe.display().to_string(), |obs| cmds.get(obs.len()).cloned(), Duration::from_secs(60), cmds.len());
        let replay = json!({"engine": "mt", "exe": exe.display().to_string(), "commands": cmds});
        part.states += run.obs.len() as u64;
        part.traces_validated += 1;
        if run.hang_at.is_some() || run.crashed.is_some() || run.obs.len() < 10 {
            part.violate(if expressions { "C07:std:session-broke" } else { "C06:std:session-broke" }, format!("[n={n} {tc}] hang {:?} crash {:?}", run.hang_at, run.crashed), replay);
            continue;
        }
        // locals
        let locals = run.obs[3]["res"]["frames"][0]["locals"]["Ok"].as_array().cloned().unwrap_or_default();
        for (name, want, ty) in if expressions { vec![] } else { expected(n) } {
            part.evaluations += 1;
            part.distinct_nontrivial += 1;
            let Some(got) = locals.iter().find(|l| l["name"] == name) else {
                part.violate("C06:std:local-missing", format!("[n={n} {tc}] `{name}` is not among the locals shown"), replay.clone());
                continue;
            };
            let p = plain(&got["v"]);
            if p != want {
                let kind = got["v"]["k"].as_str().unwrap_or("?");
                part.violate(format!("C06:std:value-differs:{kind}"), format!("[n={n} {tc}] `{name}`: shown {}, the program holds {}", short(&p), short(&want)), replay.clone());
            }
            if !ty.is_empty() {
                let t = got["v"]["t"].as_str().unwrap_or("");
                if !t.starts_with(ty) && !t.contains(ty) {
                    part.violate("C06:std:type-name-differs", format!("[n={n} {tc}] `{name}`: type shown {t:?}, expected to contain {ty:?}"), replay.clone());
                }
            }
            if part.samples.len() < 3 && (name == "vd" || name == "hm_key") {
                part.sample(json!({"n": n, "local": name, "shown": p}));
            }
        }
        // arguments of the callee at the second stop (`arg all`)
        let args = run.obs[7]["res"]["frames"][0]["args"]["Ok"].as_array().cloned().unwrap_or_default();
        for (name, want) in if expressions { vec![] } else { expected_args(n) } {
            part.evaluations += 1;
            part.distinct_nontrivial += 1;
            let Some(got) = args.iter().find(|l| l["name"] == name) else {
                part.violate("C06:std:argument-missing", format!("[n={n} {tc}] `{name}` is not among the arguments shown: {}", short(&run.obs[7]["res"]["frames"][0]["args"])), replay.clone());
                continue;
            };
            let p = plain(&got["v"]);
            if p != want {
                let kind = got["v"]["k"].as_str().unwrap_or("?");
                part.violate(format!("C06:std:argument-value-differs:{kind}"), format!("[n={n} {tc}] `{name}`: shown {}, the program holds {}", short(&p), short(&want)), replay.clone());
            }
        }
        if !expressions && args.len() != expected_args(n).len() {
            part.violate("C06:std:argument-list-differs", format!("[n={n} {tc}] {} arguments shown, the function has {}", args.len(), expected_args(n).len()), replay.clone());
        }
        // expressions (C07 meaning on collections)
        let arg_results = &run.obs[8]["res"]["results"];
        let results = &run.obs[4]["res"]["results"];
        for (e, want, is_arg) in if expressions { expected_dqe(n).into_iter().map(|(e, w)| (e, w, false)).chain(expected_arg_dqe(n).into_iter().map(|(e, w)| (e, w, true))).collect::<Vec<_>>() } else { vec![] } {
            part.evaluations += 1;
            part.distinct_nontrivial += 1;
            let r = if is_arg { &arg_results[&e] } else { &results[&e] };
            let got: Option<Value> = r["ok"].as_array().and_then(|a| a.first()).map(|x| plain(&x["v"]));
            let ok = match (&got, &want) {
                (Some(g), Some(w)) => g == w,
                (None, None) => true,
                // a miss may also be reported as an explicit error
                _ => false,
            };
            if !ok {
                part.violate("C07:std:expression-result-differs", format!("[n={n} {tc}] `{e}`: debugger gives {}, expected {}", got.as_ref().map(short).unwrap_or("nothing".into()), want.as_ref().map(short).unwrap_or("nothing".into())), replay.clone());
            }
        }
        // the program still prints what it holds
        if !expressions && !run.obs.get(9).map(|o| o["res"]["kind"] == "exit").unwrap_or(false) {
            part.violate("C06:std:program-did-not-finish", format!("[n={n} {tc}] {:?}", run.obs.get(9).map(|o| o["res"].clone())), replay.clone());
        }
    }
    part.bounds = json!({"size_parameters": configs, "locals": expected(3).len(), "expressions": expected_dqe(3).len()});
    part
}

fn short(v: &Value) -> String {
    let s = v.to_string();
    if s.len() > 300 { format!("{}…({} chars)", &s[..300], s.len()) } else { s }
}

/// C16, `vard`: the debugger calls the program's own Debug implementation; the text must be what
/// the program itself prints for the same value with `{:?}` a moment later.
pub fn part_vard(tier: Tier) -> Part {
    let mut part = Part::new("c16_vard");
    part.rule = "std-linked generated program that prints every one of its 38 values (among them structs, enums, vectors and options holding bool, floats and unit, a Duration) with {:?} after the stop: at the stop `vard <name>` (call_debug_fmt, the program's own Debug code run inside the stopped thread) is evaluated for each, and at a second stop inside a callee `argd <name>` for each of its 8 parameters; every text returned must equal the line the program prints itself afterwards, the registers are unchanged by the calls, and the program finishes with its normal output. An error answer (no callable instantiation found) is accepted, a different text is not".into();
    let configs: Vec<(u64, u64, &str)> = if tier == Tier::Quick { vec![(3, 5, "1.89")] } else { vec![(1, 0, "1.89"), (3, 5, "1.89"), (12, 7, "1.89"), (40, 13, "1.89"), (12, 7, "stable")] };
    for &(n, wrap, tc) in &configs {
        let (exe, file, line) = match ensure_built_tc(n, wrap, tc) {
            Ok(x) => x,
            Err(e) => {
                part.violate("MACHINERY:std-build", e, json!(null));
                continue;
            }
        };
        let arg_line = program(n, wrap).lines().position(|l| l.contains("DBG a_vec=")).map(|i| i as u64 + 1).unwrap_or(0);
        let cmds = vec![
            json!({"op": "break_line", "file": file, "line": line}),
            json!({"op": "break_line", "file": file, "line": arg_line}),
            json!({"op": "start"}),
            json!({"op": "vard", "exprs": VARD_NAMES.to_vec()}),
            json!({"op": "continue"}),
            json!({"op": "vard", "exprs": ARGD_NAMES, "args": true}),
            json!({"op": "continue"}),
        ];
        let run = session(&exe, |obs| cmds.get(obs.len()).cloned(), Duration::from_secs(120), cmds.len());
        let replay = json!({"engine": "mt", "exe": exe, "commands": cmds});
        part.states += run.obs.len() as u64;
        part.traces_validated += 1;
        if run.hang_at.is_some() || run.crashed.is_some() || run.obs.len() < 7 {
            part.violate("C16:vard:session-broke", format!("[n={n} {tc}] hang {:?} crash {:?}", run.hang_at, run.crashed), replay);
            continue;
        }
        let stdout = run.result.as_ref().and_then(|r| r["stdout"].as_str()).unwrap_or("").to_string();
        let native = std::process::Command::new(&exe).output().map(|o| String::from_utf8_lossy(&o.stdout).to_string()).unwrap_or_default();
        let own: std::collections::BTreeMap<String, String> = stdout.lines().filter_map(|l| l.strip_prefix("DBG ")).filter_map(|l| l.split_once('=')).map(|(k, v)| (k.to_string(), v.to_string())).collect();
        let v = &run.obs[3]["res"];
        let va = &run.obs[5]["res"];
        if v["registers_unchanged"] != true || va["registers_unchanged"] != true {
            part.violate("C16:vard:registers-changed", format!("[n={n} {tc}] the registers of the stopped thread differ after the vard / argd calls"), replay.clone());
        }
        let (mut ok, mut errs) = (0, 0);
        for (name, is_arg) in VARD_NAMES.iter().map(|x| (*x, false)).chain(ARGD_NAMES.iter().map(|x| (*x, true))) {
            part.evaluations += 1;
            let r = if is_arg { &va["results"][name] } else { &v["results"][name] };
            if let Some(text) = r["ok"].as_str() {
                ok += 1;
                part.distinct_nontrivial += 1;
                match own.get(name) {
                    Some(w) if w == text => {}
                    Some(w) => part.violate("C16:vard:text-differs-from-the-program's-own-debug-output", format!("[n={n} {tc}] vard {name} = {:?}, the program prints {:?}", short_s(text), short_s(w)), replay.clone()),
                    None => part.violate("MACHINERY:vard-no-own-line", format!("[n={n} {tc}] no DBG line for {name} in {:?}", short_s(&stdout)), replay.clone()),
                }
            } else if r["panic"] == true {
                part.violate("C16:vard:panic", format!("[n={n} {tc}] vard {name} panicked"), replay.clone());
            } else {
                errs += 1;
                if std::env::var("BSMC_DEBUG").is_ok() {
                    eprintln!("vard {name}: {r}");
                }
            }
        }
        // the maps print in hash order, which is per process: compare the rest of the output only
        let strip = |s: &str| s.lines().filter(|l| !l.starts_with("DBG h")).collect::<Vec<_>>().join("\n");
        if !run.obs[6]["res"]["kind"].as_str().map(|k| k == "exit").unwrap_or(false) || strip(&stdout) != strip(&native) {
            part.violate("C16:vard:program-output-changed", format!("[n={n} {tc}] after the vard calls the program ends with {} and prints {:?}; natively {:?}", run.obs[6]["res"], short_s(&strip(&stdout)), short_s(&strip(&native))), replay.clone());
        }
        part.sample(json!({"n": n, "vard_answers": ok, "vard_errors": errs, "example": {"vv": v["results"]["vv"], "opt_s": v["results"]["opt_s"]}}));
    }
    part.bounds = json!({"size_parameters": configs, "values": VARD_NAMES.len()});
    part
}

fn short_s(s: &str) -> String {
    if s.len() > 200 { format!("{}…", &s[..s.char_indices().take_while(|(i, _)| *i < 200).last().map(|(i, c)| i + c.len_utf8()).unwrap_or(0)]) } else { s.to_string() }
}
