//! Independent reference reader for line tables and function ranges (Appendix C of DESIGN.md).
//! Sits on gimli's byte decoding only; every lookup rule is written here, linearly.

use gimli::{EndianSlice, RunTimeEndian};
use object::{Object, ObjectSection};
use serde::{Deserialize, Serialize};
use std::borrow::Cow;

#[derive(Clone, Debug, Serialize, Deserialize, PartialEq)]
pub struct Row {
    pub addr: u64,
    pub file: String,
    pub line: u64,
    pub col: u64,
    pub is_stmt: bool,
    pub prologue_end: bool,
    pub epilogue_begin: bool,
    pub end_sequence: bool,
    pub seq: usize,
    pub unit: usize,
}

#[derive(Clone, Debug, Serialize, Deserialize, PartialEq)]
pub struct Func {
    pub name: String,
    pub linkage: Option<String>,
    pub ranges: Vec<(u64, u64)>,
    pub decl_line: Option<u64>,
    pub inline_attr: bool,
    pub unit: usize,
    pub offset: usize,
}

#[derive(Clone, Debug, Default, Serialize, Deserialize)]
pub struct DwarfRef {
    pub rows: Vec<Row>,
    /// (first row index, end row index exclusive) per sequence; the last row is the end_sequence row
    pub seqs: Vec<(usize, usize)>,
    pub funcs: Vec<Func>,
    /// address ranges of DW_TAG_inlined_subroutine instances
    pub inlined: Vec<(u64, u64)>,
    pub min_load_addr: u64,
}

type R<'a> = EndianSlice<'a, RunTimeEndian>;

pub fn load(exe: &str) -> Result<DwarfRef, String> {
    let data = std::fs::read(exe).map_err(|e| e.to_string())?;
    let obj = object::File::parse(&*data).map_err(|e| e.to_string())?;
    let endian = RunTimeEndian::Little;
    let load_section = |id: gimli::SectionId| -> Result<Cow<[u8]>, gimli::Error> {
        Ok(match obj.section_by_name(id.name()) {
            Some(s) => s.uncompressed_data().unwrap_or(Cow::Borrowed(&[])),
            None => Cow::Borrowed(&[]),
        })
    };
    let dwarf_cow = gimli::DwarfSections::load(&load_section).map_err(|e| e.to_string())?;
    let dwarf = dwarf_cow.borrow(|s| EndianSlice::new(s, endian));
    let min_load_addr = obj
        .segments()
        .map(|s| {
            use object::ObjectSegment;
            s.address()
        })
        .min()
        .unwrap_or(0);

    let mut out = DwarfRef { min_load_addr, ..Default::default() };
    let mut units = dwarf.units();
    let mut unit_idx = 0usize;
    while let Some(header) = units.next().map_err(|e| e.to_string())? {
        let unit = dwarf.unit(header).map_err(|e| e.to_string())?;
        let unit_ref = unit.unit_ref(&dwarf);
        // ---- line program
        if let Some(program) = unit.line_program.clone() {
            let comp_dir = unit
                .comp_dir
                .map(|d| d.to_string_lossy().into_owned())
                .unwrap_or_default();
            let mut rows = program.rows();
            let mut seq_start = out.rows.len();
            let mut seq_no = out.seqs.len();
            while let Some((hdr, row)) = rows.next_row().map_err(|e| e.to_string())? {
                let file = match row.file(hdr) {
                    Some(f) => {
                        let mut path = String::new();
                        if let Some(dir) = f.directory(hdr) {
                            let d = unit_ref.attr_string(dir).map(|s| s.to_string_lossy().into_owned()).unwrap_or_default();
                            if !d.starts_with('/') && !comp_dir.is_empty() {
                                path.push_str(&comp_dir);
                                path.push('/');
                            }
                            path.push_str(&d);
                            if !path.ends_with('/') {
                                path.push('/');
                            }
                        }
                        let n = unit_ref.attr_string(f.path_name()).map(|s| s.to_string_lossy().into_owned()).unwrap_or_default();
                        if n.starts_with('/') { n } else { format!("{path}{n}") }
                    }
                    None => String::new(),
                };
                let line = row.line().map(|l| l.get()).unwrap_or(0);
                let col = match row.column() {
                    gimli::ColumnType::LeftEdge => 0,
                    gimli::ColumnType::Column(c) => c.get(),
                };
                out.rows.push(Row {
                    addr: row.address(),
                    file,
                    line,
                    col,
                    is_stmt: row.is_stmt(),
                    prologue_end: row.prologue_end(),
                    epilogue_begin: row.epilogue_begin(),
                    end_sequence: row.end_sequence(),
                    seq: seq_no,
                    unit: unit_idx,
                });
                if row.end_sequence() {
                    out.seqs.push((seq_start, out.rows.len()));
                    seq_start = out.rows.len();
                    seq_no = out.seqs.len();
                }
            }
        }
        // ---- subprograms
        let mut entries = unit.entries();
        while let Some(entry) = entries.next_dfs().map_err(|e| e.to_string())? {
            if entry.tag() == gimli::DW_TAG_inlined_subroutine {
                let mut it = unit_ref.die_ranges(entry).map_err(|e| e.to_string())?;
                while let Some(r) = it.next().map_err(|e| e.to_string())? {
                    if r.end > r.begin {
                        out.inlined.push((r.begin, r.end));
                    }
                }
                continue;
            }
            if entry.tag() != gimli::DW_TAG_subprogram {
                continue;
            }
            let mut name = None;
            let mut linkage = None;
            let mut decl_line = None;
            let mut inline_attr = false;
            let mut spec_or_origin = None;
            for attr in entry.attrs() {
                match attr.name() {
                    gimli::DW_AT_name => {
                        name = unit_ref.attr_string(attr.value()).ok().map(|s| s.to_string_lossy().into_owned())
                    }
                    gimli::DW_AT_linkage_name | gimli::DW_AT_MIPS_linkage_name => {
                        linkage = unit_ref.attr_string(attr.value()).ok().map(|s| s.to_string_lossy().into_owned())
                    }
                    gimli::DW_AT_decl_line => decl_line = attr.udata_value(),
                    gimli::DW_AT_inline => inline_attr = true,
                    gimli::DW_AT_specification | gimli::DW_AT_abstract_origin => {
                        if let gimli::AttributeValue::UnitRef(o) = attr.value() {
                            spec_or_origin = Some(o);
                        }
                    }
                    _ => {}
                }
            }
            if let Some(o) = spec_or_origin {
                if let Ok(e2) = unit.entry(o) {
                    for attr in e2.attrs() {
                        match attr.name() {
                            gimli::DW_AT_name if name.is_none() => {
                                name = unit_ref.attr_string(attr.value()).ok().map(|s| s.to_string_lossy().into_owned())
                            }
                            gimli::DW_AT_linkage_name | gimli::DW_AT_MIPS_linkage_name if linkage.is_none() => {
                                linkage = unit_ref.attr_string(attr.value()).ok().map(|s| s.to_string_lossy().into_owned())
                            }
                            gimli::DW_AT_decl_line if decl_line.is_none() => decl_line = attr.udata_value(),
                            _ => {}
                        }
                    }
                }
            }
            let mut ranges = vec![];
            let mut it = unit_ref.die_ranges(entry).map_err(|e| e.to_string())?;
            while let Some(r) = it.next().map_err(|e| e.to_string())? {
                if r.end > r.begin {
                    ranges.push((r.begin, r.end));
                }
            }
            out.funcs.push(Func {
                name: name.unwrap_or_default(),
                linkage,
                ranges,
                decl_line,
                inline_attr,
                unit: unit_idx,
                offset: entry.offset().0,
            });
        }
        unit_idx += 1;
    }
    Ok(out)
}

impl DwarfRef {
    /// Live instances: non-empty ranges that do not start at a tombstone.
    pub fn live_funcs(&self) -> Vec<&Func> {
        self.funcs
            .iter()
            .filter(|f| {
                !f.ranges.is_empty()
                    && f.ranges.iter().all(|(lo, _)| {
                        *lo != 0 && *lo != u64::MAX && *lo != u64::MAX - 1 && *lo >= self.min_load_addr.max(1)
                    })
            })
            .collect()
    }

    pub fn func_at(&self, pc: u64) -> Option<&Func> {
        // innermost = smallest containing range
        self.live_funcs()
            .into_iter()
            .filter(|f| f.ranges.iter().any(|(lo, hi)| *lo <= pc && pc < *hi))
            .min_by_key(|f| f.ranges.iter().map(|(lo, hi)| hi - lo).sum::<u64>())
    }

    /// The row that answers `pc`: in the unique live sequence containing pc, the last row with
    /// address <= pc (later row wins among equal addresses); end_sequence rows never answer.
    pub fn row_for(&self, pc: u64) -> Option<&Row> {
        let mut best: Option<&Row> = None;
        for (s, e) in &self.seqs {
            let rows = &self.rows[*s..*e];
            if rows.len() < 2 {
                continue;
            }
            let first = rows[0].addr;
            let end = rows[rows.len() - 1].addr;
            if first == 0 || !(first <= pc && pc < end) {
                continue;
            }
            for r in &rows[..rows.len() - 1] {
                if r.addr <= pc {
                    best = Some(r);
                } else {
                    break;
                }
            }
            if best.is_some() {
                return best;
            }
        }
        best
    }

    /// The inlined-subroutine instances whose range contains `pc`.
    pub fn inlined_containing(&self, pc: u64) -> Vec<(u64, u64)> {
        self.inlined.iter().filter(|(lo, hi)| *lo <= pc && pc < *hi).copied().collect()
    }

    pub fn in_inlined(&self, pc: u64) -> bool {
        self.inlined.iter().any(|(lo, hi)| *lo <= pc && pc < *hi)
    }

    /// Is `pc` a statement boundary: some is_stmt row with a non-empty range starts exactly there.
    pub fn stmt_boundary(&self, pc: u64) -> bool {
        for (s, e) in &self.seqs {
            let rows = &self.rows[*s..*e];
            for (i, r) in rows.iter().enumerate() {
                if r.end_sequence || r.addr != pc || !r.is_stmt {
                    continue;
                }
                // non-empty: some later row in the sequence has a greater address
                if rows[i + 1..].iter().any(|n| n.addr > r.addr) {
                    return true;
                }
            }
        }
        false
    }

    /// All is_stmt row addresses for (file suffix, line), live sequences only.
    pub fn stmt_addrs_of_line(&self, file_suffix: &str, line: u64) -> Vec<u64> {
        let mut v: Vec<u64> = self
            .rows
            .iter()
            .filter(|r| !r.end_sequence && r.is_stmt && r.line == line && r.file.ends_with(file_suffix) && r.addr >= self.min_load_addr.max(1))
            .map(|r| r.addr)
            .collect();
        v.sort();
        v.dedup();
        v
    }
}
