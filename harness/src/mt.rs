//! Real-kernel sessions on libc-free multi-threaded debuggees (raw clone).  The kernel's schedule
//! cannot be controlled here, so these parts do not decide anything by themselves: they bind the
//! E1 kernel model to the real kernel (the same oracles, evaluated on real `Debugger` sessions),
//! give the multi-thread findings of the model a witness on the real system, and extend the
//! per-thread checks of C14/C15 to threads other than the main one.

use crate::common::{Part, Tier};
use crate::corpus::{self, Built, Config};
use crate::isession::{ISession, SessErr};
use serde_json::{Value, json};
use std::collections::BTreeMap;
use std::time::Duration;

pub struct Mt {
    pub built: Built,
    pub workers: usize,
    pub iters: u64,
}

impl Mt {
    pub fn new(workers: usize, iters: u64, main_iters: u64, spin: u64) -> Result<Mt, String> {
        let p = corpus::generate_mt(workers, iters, main_iters, spin);
        let built = corpus::build(&p, &Config::default_cfg())?;
        Ok(Mt { built, workers, iters })
    }
    pub fn line(&self, label: &str) -> u64 {
        self.built.program.lines.iter().find(|(_, l)| l == label).map(|(n, _)| *n as u64).unwrap_or(0)
    }
    pub fn file(&self) -> String {
        self.built.program.src_file.clone()
    }
    fn bp(&self, label: &str) -> Value {
        json!({"op": "break_line", "file": self.file(), "line": self.line(label)})
    }
}

pub struct Run {
    pub obs: Vec<Value>,
    pub result: Option<Value>,
    pub hang_at: Option<usize>,
    pub crashed: Option<String>,
}

/// One session: `script` decides the next command from the observations so far (None = end).
pub fn session(exe: &str, script: impl FnMut(&[Value]) -> Option<Value>, per_cmd: Duration, max_cmds: usize) -> Run {
    session_init(json!({"exe": exe, "args": []}), script, per_cmd, max_cmds)
}

pub fn session_init(init: Value, mut script: impl FnMut(&[Value]) -> Option<Value>, per_cmd: Duration, max_cmds: usize) -> Run {
    let mut run = Run { obs: vec![], result: None, hang_at: None, crashed: None };
    let mut s = match ISession::start("e2e", &init) {
        Ok(s) => s,
        Err(e) => {
            run.crashed = Some(format!("cannot start worker: {e}"));
            return run;
        }
    };
    while run.obs.len() < max_cmds {
        let Some(cmd) = script(&run.obs) else { break };
        match s.cmd(&cmd, per_cmd) {
            Ok(o) => run.obs.push(o),
            Err(SessErr::Timeout) => {
                run.hang_at = Some(run.obs.len());
                run.obs.push(json!({"cmd": cmd, "timeout": true}));
                s.kill();
                return run;
            }
            Err(SessErr::Crashed { status, stderr }) => {
                run.crashed = Some(format!("{status}: {}", stderr.lines().rev().take(4).collect::<Vec<_>>().join(" | ")));
                return run;
            }
        }
    }
    match s.end(Duration::from_secs(40)) {
        Ok(r) => run.result = Some(r),
        Err(SessErr::Timeout) => run.hang_at = Some(run.obs.len()),
        Err(SessErr::Crashed { status, stderr }) => run.crashed = Some(format!("at teardown {status}: {}", stderr.lines().rev().take(4).collect::<Vec<_>>().join(" | "))),
    }
    run
}

fn kind(o: &Value) -> &str {
    o["res"]["kind"].as_str().unwrap_or("")
}

/// all-stop and thread-list oracle at one reported stop
fn check_stop(o: &Value, part: &mut Part, replay: &Value) {
    let Some(tasks) = o["tasks"].as_array() else { return };
    // a task that has passed its exit event (PF_EXITING) is on its way to become a zombie: not live
    let dead = |t: &Value| t["state"] == "Z" || t["state"] == "X" || t["exiting"] == true;
    let live: Vec<i64> = tasks.iter().filter(|t| !dead(t)).map(|t| t["tid"].as_i64().unwrap_or(0)).collect();
    let running: Vec<&Value> = tasks.iter().filter(|t| !dead(t) && t["state"] != "t").collect();
    if !running.is_empty() {
        part.violate("C09:real:thread-not-in-tracing-stop-at-reported-stop", format!("after {}: tasks {tasks:?}", o["cmd"]), replay.clone());
    }
    if let Some(ths) = o["threads"].as_array() {
        let mut known: Vec<i64> = ths.iter().map(|t| t["tid"].as_i64().unwrap_or(0)).collect();
        known.sort();
        let mut l = live.clone();
        l.sort();
        if known != l {
            part.violate("C09:real:thread-list-differs-from-kernel", format!("after {}: debugger lists {known:?}, /proc has {l:?} (all tasks {tasks:?})", o["cmd"]), replay.clone());
        }
    }
}

fn is_stop(o: &Value) -> bool {
    matches!(kind(o), "breakpoint" | "signal" | "done" | "watchpoint")
}

/// C09 on the real kernel: every arrival at the breakpoints reported exactly once.
pub fn part_c09_real(tier: Tier) -> Part {
    let mut part = Part::new("c09_real_kernel");
    part.rule = "real Debugger sessions on multi-threaded debuggees (real kernel, uncontrolled schedule; binds the E1 model): breakpoints in code shared by all workers and in main, `continue` (optionally `stepi` first) until exit; at every stop all tasks of /proc/<pid>/task are in tracing stop and the debugger's thread list equals the non-zombie tasks; at exit every thread's arrival count at every breakpoint equals the program's iteration count and the program's own counter is exact".into();
    part.exhaustive = false; // schedules are sampled by the kernel, not enumerated
    let reps = if tier == Tier::Quick { 2 } else { 12 };
    let shapes: &[(usize, u64, u64)] = if tier == Tier::Quick { &[(2, 3, 2), (3, 2, 1)] } else { &[(2, 3, 2), (3, 2, 1), (4, 3, 2), (2, 6, 3)] };
    let mut outcomes: BTreeMap<String, u64> = BTreeMap::new();
    for &(workers, iters, main_iters) in shapes {
        let mt = match Mt::new(workers, iters, main_iters, 2000) {
            Ok(m) => m,
            Err(e) => {
                part.violate("MACHINERY:mt-build", e, json!(null));
                continue;
            }
        };
        let variants: Vec<(&str, Vec<&str>, bool)> = vec![
            ("bump", vec!["bump.1"], false),
            ("bump+mwork", vec!["bump.1", "mwork.1"], false),
            ("entry+join", vec!["worker.1", "main.join0", "bump.3"], false),
            ("bump/stepi", vec!["bump.1", "bump.2"], true),
        ];
        for (vname, labels, stepi) in &variants {
            for rep in 0..reps {
                let mut setup: Vec<Value> = labels.iter().map(|l| mt.bp(l)).collect();
                setup.push(json!({"op": "start"}));
                let total_cmds = setup.len();
                let mut owe_stepi = false;
                let run = session(
                    &mt.built.exe,
                    |obs| {
                        if obs.len() < total_cmds {
                            return Some(setup[obs.len()].clone());
                        }
                        let last = obs.last().unwrap();
                        if kind(last) == "exit" || last["res"]["ok"] == false {
                            return None;
                        }
                        if *stepi && !owe_stepi && kind(last) == "breakpoint" {
                            owe_stepi = true;
                            return Some(json!({"op": "stepi"}));
                        }
                        owe_stepi = false;
                        Some(json!({"op": "continue"}))
                    },
                    Duration::from_secs(15),
                    400,
                );
                part.states += run.obs.len() as u64;
                part.transitions += run.obs.len() as u64;
                part.evaluations += 1;
                part.traces_validated += 1;
                let cmds: Vec<Value> = run.obs.iter().map(|o| o["cmd"].clone()).collect();
                let replay = json!({"engine": "mt", "exe": mt.built.exe, "commands": cmds, "note": "real-kernel schedule is not reproducible; re-run the history"});
                if let Some(i) = run.hang_at {
                    part.violate("C09:real:debugger-hangs", format!("[{} {vname} #{rep}] no answer to command #{i} {}", mt.built.program.name, cmds.get(i).cloned().unwrap_or(json!(null))), replay.clone());
                    continue;
                }
                if let Some(c) = &run.crashed {
                    part.violate("C09:real:debugger-crashes", format!("[{} {vname} #{rep}] {c}", mt.built.program.name), replay.clone());
                    continue;
                }
                // per stop
                let mut arrivals: BTreeMap<(i64, u64), u64> = BTreeMap::new();
                let mut order = vec![];
                for o in &run.obs {
                    if !is_stop(o) {
                        continue;
                    }
                    check_stop(o, &mut part, &replay);
                    if kind(o) == "breakpoint" {
                        let tid = o["res"]["tid"].as_i64().unwrap_or(0);
                        let line = o["events"].as_array().and_then(|e| e.iter().find(|e| e["ev"] == "breakpoint")).and_then(|e| e["line"].as_u64()).unwrap_or(0);
                        *arrivals.entry((tid, line)).or_default() += 1;
                        order.push(tid);
                    }
                }
                // threads are numbered in order of first appearance: the interleaving is an outcome
                let mut names: BTreeMap<i64, usize> = BTreeMap::new();
                let shape: Vec<usize> = order
                    .iter()
                    .map(|t| {
                        let n = names.len();
                        *names.entry(*t).or_insert(n)
                    })
                    .collect();
                *outcomes.entry(format!("{}:{vname}:{shape:?}", mt.built.program.name)).or_default() += 1;
                let exited = run.obs.iter().any(|o| kind(o) == "exit");
                if !exited {
                    part.violate("C09:real:session-did-not-reach-exit", format!("[{} {vname} #{rep}] last {:?}", mt.built.program.name, run.obs.last().map(|o| o["res"].clone())), replay.clone());
                    continue;
                }
                // expected arrivals: bump.* lines: each worker `iters` times; mwork.1: main `main_iters`
                // times; worker.1 / main.join0: once per worker / once
                let mut by_line: BTreeMap<u64, Vec<u64>> = BTreeMap::new();
                for ((_, line), n) in &arrivals {
                    by_line.entry(*line).or_default().push(*n);
                }
                for l in labels {
                    let line = mt.line(l);
                    let got = by_line.get(&line).cloned().unwrap_or_default();
                    let (threads, each) = match *l {
                        "bump.1" | "bump.2" | "bump.3" => (workers as u64, iters),
                        "mwork.1" => (1, main_iters),
                        "worker.1" => (workers as u64, 1),
                        _ => (1, 1),
                    };
                    // with `stepi` the step from bump.1 may land on bump.2's address without a trap
                    if *stepi && *l == "bump.2" {
                        continue;
                    }
                    let total: u64 = got.iter().sum();
                    if got.iter().any(|n| *n > each) || total > threads * each {
                        part.violate("C09:real:arrival-reported-more-than-once", format!("[{} {vname} #{rep}] line {line} ({l}): per-thread reports {got:?}, each thread passes {each} time(s)", mt.built.program.name), replay.clone());
                    } else if total < threads * each {
                        part.violate("C09:real:arrival-not-reported", format!("[{} {vname} #{rep}] line {line} ({l}): per-thread reports {got:?}, expected {threads} thread(s) x {each}", mt.built.program.name), replay.clone());
                    }
                }
                let stdout = run.result.as_ref().and_then(|r| r["stdout"].as_str()).unwrap_or("").to_string();
                let want = format!("{}\n", workers as u64 * iters);
                if !stdout.starts_with(&want) {
                    part.violate("C09:real:program-counter-wrong", format!("[{} {vname} #{rep}] stdout {stdout:?}, expected to start with {want:?} (an instruction was skipped or executed twice)", mt.built.program.name), replay.clone());
                }
                if part.samples.len() < 3 {
                    part.sample(json!({"program": mt.built.program.name, "variant": vname, "thread_order_of_reports": shape, "stdout": stdout}));
                }
            }
        }
    }
    part.distinct_outcomes = outcomes.len() as u64;
    part.distinct_nontrivial = outcomes.len() as u64;
    part.bounds = json!({"programs": shapes.len(), "variants": 4, "repetitions": reps, "schedule": "chosen by the kernel (sampled)"});
    part.extra.insert("interleavings_seen".into(), json!(outcomes.len()));
    part
}

/// Real-kernel witnesses for the multi-thread findings of the E1 model.
pub fn part_c09_witnesses(_tier: Tier) -> Part {
    let mut part = Part::new("c09_real_witnesses");
    part.rule = "two fixed real-kernel histories that reproduce model findings: (1) workers pass an enabled user breakpoint unreported while the main thread is stepped over a long call (`next`); (2) `continue` after the stopped multi-threaded process was killed from outside must answer".into();
    part.exhaustive = false;
    // (1) arrivals swallowed during `next`
    match Mt::new(2, 300_000, 5, 2_000_000) {
        Err(e) => part.violate("MACHINERY:mt-build", e, json!(null)),
        Ok(mt) => {
            let cmds = vec![mt.bp("main.call"), json!({"op": "start"}), mt.bp("bump.1"), json!({"op": "dqe", "exprs": ["COUNTER"]}), json!({"op": "next"}), json!({"op": "dqe", "exprs": ["COUNTER"]})];
            let run = session(&mt.built.exe, |obs| cmds.get(obs.len()).cloned(), Duration::from_secs(20), cmds.len());
            part.evaluations += 1;
            part.states += run.obs.len() as u64;
            part.traces_validated += 1;
            let replay = json!({"engine": "mt", "exe": mt.built.exe, "commands": cmds});
            if run.hang_at.is_some() || run.crashed.is_some() {
                part.violate("C09:real:debugger-hangs", format!("history `next` with racing workers: hang {:?} crash {:?}", run.hang_at, run.crashed), replay);
            } else {
                let counter = |o: &Value| -> Option<u64> { o["res"]["results"]["COUNTER"]["ok"][0]["v"]["fields"][0][1]["fields"][0][1]["v"].as_str().and_then(|s| s.parse().ok()) };
                let before = run.obs.get(3).and_then(counter);
                let after = run.obs.get(5).and_then(counter);
                let reported = run.obs.get(4).map(|o| o["events"].as_array().map(|e| e.iter().filter(|e| e["ev"] == "breakpoint").count()).unwrap_or(0)).unwrap_or(0);
                part.sample(json!({"history": "break main.call; start; break bump.1; next", "counter_before": before, "counter_after": after, "breakpoint_reports_during_next": reported}));
                match (before, after) {
                    (Some(b), Some(a)) if a > b + reported as u64 => {
                        part.violate("C09:real:arrivals-not-reported-while-stepping", format!("during one `next` of the main thread the workers passed the enabled breakpoint at bump.1 {} times (counter {b} -> {a}) with {reported} report(s)", a - b), replay);
                    }
                    (Some(_), Some(_)) => {}
                    _ => part.violate("MACHINERY:mt-counter-unreadable", format!("{:?}", run.obs.get(3).map(|o| o["res"].clone())), replay),
                }
            }
        }
    }
    // (3) a thread whose pc lies in no file
    match corpus::build(&corpus::generate_mt_opts(&corpus::MtOpts { workers: 1, iters: 2, main_iters: 3, spin: 3_000_000, late_workers: 0, late_ms: 0, worker_sleep_us: 0, anon_loop: true }), &Config::default_cfg()) {
        Err(e) => part.violate("MACHINERY:mt-build", e, json!(null)),
        Ok(built) => {
            let line = |l: &str| built.program.lines.iter().find(|(_, x)| x == l).map(|(n, _)| *n as u64).unwrap_or(0);
            // the second call of mwork: by then the worker has long reached its loop
            let cmds = vec![json!({"op": "break_line", "file": built.program.src_file, "line": line("mwork.2")}), json!({"op": "start"}), json!({"op": "continue"})];
            let run = session(&built.exe, |obs| cmds.get(obs.len()).cloned(), Duration::from_secs(20), cmds.len());
            part.evaluations += 1;
            part.states += run.obs.len() as u64;
            part.traces_validated += 1;
            let replay = json!({"engine": "mt", "exe": built.exe, "commands": cmds});
            if run.hang_at.is_some() || run.crashed.is_some() {
                part.violate("C09:real:debugger-hangs", format!("history with a thread in anonymous code: hang {:?} crash {:?}", run.hang_at, run.crashed), replay);
            } else if let Some(o) = run.obs.last() {
                let live: Vec<i64> = o["tasks"].as_array().map(|t| t.iter().filter(|t| t["state"] != "Z" && t["exiting"] != true).map(|t| t["tid"].as_i64().unwrap_or(0)).collect()).unwrap_or_default();
                let known: Vec<i64> = o["threads"].as_array().map(|t| t.iter().map(|t| t["tid"].as_i64().unwrap_or(0)).collect()).unwrap_or_default();
                part.sample(json!({"history": "worker loops in an anonymous executable page; break in main; continue", "kernel_tasks": live, "debugger_threads": known}));
                if live.iter().any(|t| !known.contains(t)) {
                    part.violate("C09:real:thread-outside-any-file-missing-from-thread-list", format!("the kernel has tasks {live:?}, the debugger lists {known:?}: a thread whose pc belongs to no mapped file (anonymous code, vDSO) is dropped by Debugee::thread_state"), replay);
                }
            }
            let _ = std::process::Command::new("/usr/bin/pkill").args(["-9", "-f", &built.exe]).status();
        }
    }
    // (2) killed at a stop
    match Mt::new(2, 300_000, 5, 2_000_000) {
        Err(e) => part.violate("MACHINERY:mt-build", e, json!(null)),
        Ok(mt) => {
            let cmds = vec![mt.bp("main.call"), json!({"op": "start"}), json!({"op": "kill", "sig": 9}), json!({"op": "continue"})];
            let run = session(&mt.built.exe, |obs| cmds.get(obs.len()).cloned(), Duration::from_secs(4), cmds.len());
            part.evaluations += 1;
            part.states += run.obs.len() as u64;
            part.traces_validated += 1;
            let replay = json!({"engine": "mt", "exe": mt.built.exe, "commands": cmds});
            part.sample(json!({"history": "break main.call; start; SIGKILL from outside; continue", "answered": run.hang_at.is_none(), "answer": run.obs.get(3).map(|o| o["res"].clone())}));
            if run.hang_at == Some(3) {
                part.violate("C09:real:continue-hangs-after-process-was-killed-at-stop", "multi-threaded process stopped at a breakpoint, SIGKILL from outside, `continue`: no answer within 4 s (the tracer waits for the zombie leader while its siblings sit in exit stops)".to_string(), replay);
            } else if let Some(c) = run.crashed {
                part.violate("C09:real:debugger-crashes", c, replay);
            }
            // make sure nothing of the killed debuggee is left
            let _ = std::process::Command::new("/usr/bin/pkill").args(["-9", "-f", &mt.built.exe]).status();
        }
    }
    part
}

/// C14 on threads: every thread's debug registers equal the watchpoint set, also for threads
/// created after the watchpoints were set and after a restart.
pub fn part_c14_threads(tier: Tier) -> Part {
    let mut part = Part::new("c14_threads");
    part.rule = "multi-threaded debuggee: watchpoints on globals set before the threads exist / after; continue to a breakpoint inside a worker, optionally restart first; PTRACE_PEEKUSER of DR0-3/DR7 of every task must encode exactly the debugger's watchpoint list".into();
    let mt = match Mt::new(2, 3, 2, 2000) {
        Ok(m) => m,
        Err(e) => {
            part.violate("MACHINERY:mt-build", e, json!(null));
            return part;
        }
    };
    let info = crate::reftrace::elf_info(&mt.built.exe).ok();
    // data symbols carry relocated addresses already
    let sym = |n: &str| -> Option<u64> { info.as_ref().and_then(|i| i.data_symbols.iter().find(|(s, _, _)| s == n || s.contains(&format!("{}{n}", n.len()))).map(|(_, a, _)| *a)) };
    let (Some(acc), Some(counter)) = (sym("ACC"), sym("COUNTER")) else {
        part.violate("MACHINERY:mt-symbols", format!("ACC/COUNTER not found in {:?}", info.as_ref().map(|i| i.data_symbols.iter().map(|s| s.0.clone()).collect::<Vec<_>>())), json!(null));
        return part;
    };
    let base = 0u64;
    let w = |a: u64, size: u64| json!({"op": "watch_addr", "addr": base + a, "size": size, "cond": "w"});
    // histories: (name, commands)
    let mut hs: Vec<(String, Vec<Value>)> = vec![];
    let stop_in_worker = mt.bp("bump.1");
    let stop_in_main = mt.bp("main.init");
    for restart in [false, true] {
        for n in 1..=2usize {
            let mut c = vec![stop_in_main.clone(), stop_in_worker.clone(), json!({"op": "start"})];
            c.push(w(acc, 8));
            if n == 2 {
                c.push(w(counter, 4));
            }
            if restart {
                c.push(json!({"op": "restart"}));
            }
            c.push(json!({"op": "continue"}));
            c.push(json!({"op": "continue"}));
            hs.push((format!("watch{n}{}-then-threads", if restart { "-restart" } else { "" }), c));
        }
    }
    // watchpoints set while the threads already exist, one removed again
    hs.push(("threads-then-watch2-unwatch1".into(), vec![stop_in_worker.clone(), json!({"op": "start"}), w(acc, 8), w(counter, 4), json!({"op": "unwatch_addr", "addr": base + acc}), json!({"op": "continue"})]));
    if tier == Tier::Thorough {
        hs.push(("watch2-restart-restart".into(), vec![stop_in_main.clone(), stop_in_worker.clone(), json!({"op": "start"}), w(acc, 8), w(counter, 2), json!({"op": "restart"}), json!({"op": "restart"}), json!({"op": "continue"}), json!({"op": "continue"}), json!({"op": "continue"})]));
    }
    for (name, cmds) in &hs {
        let mut run = session(&mt.built.exe, |obs| cmds.get(obs.len()).cloned(), Duration::from_secs(15), cmds.len());
        part.evaluations += 1;
        part.states += run.obs.len() as u64;
        part.transitions += run.obs.len() as u64;
        part.traces_validated += 1;
        let replay = json!({"engine": "mt", "exe": mt.built.exe, "commands": cmds});
        if run.hang_at.is_some() || run.crashed.is_some() {
            // the schedule is the kernel's: a hang counts only if it shows again (two more sessions)
            let first = format!("hang {:?} crash {:?}", run.hang_at, run.crashed);
            let mut again = 0;
            for _ in 0..2 {
                let r2 = session(&mt.built.exe, |obs| cmds.get(obs.len()).cloned(), Duration::from_secs(15), cmds.len());
                if r2.hang_at.is_some() || r2.crashed.is_some() {
                    again += 1;
                } else {
                    run = r2;
                }
            }
            if again > 0 {
                part.violate("C14:threads:session-broke", format!("[{name}] {first} (again in {again} of 2 further sessions)"), replay);
                continue;
            }
            part.caps_hit.push(format!("[{name}] one session did not answer ({first}); two further sessions of the same history did: not a verdict"));
        }
        let mut multi = false;
        for o in &run.obs {
            let (Some(wps), Some(drs)) = (o["wps"].as_array(), o["dregs"].as_array()) else { continue };
            if !is_stop(o) && o["cmd"]["op"] != "watch_addr" && o["cmd"]["op"] != "unwatch_addr" {
                continue;
            }
            let mut want: Vec<(u64, u64)> = wps.iter().map(|w| (w["addr"].as_u64().unwrap_or(0), match w["size"].as_str().unwrap_or("") { s if s.contains('1') => 1, s if s.contains('2') => 2, s if s.contains('4') => 4, _ => 8 })).collect();
            want.sort();
            if drs.len() > 1 {
                multi = true;
            }
            for d in drs {
                let dr7 = d["dr7"].as_u64().unwrap_or(0);
                let mut got = vec![];
                for n in 0..4 {
                    if dr7 >> (2 * n) & 3 != 0 {
                        let len = match dr7 >> (18 + 4 * n) & 3 {
                            0 => 1,
                            1 => 2,
                            3 => 4,
                            _ => 8,
                        };
                        got.push((d["dr"][n].as_u64().unwrap_or(0), len));
                    }
                }
                got.sort();
                if got != want {
                    part.violate("C14:threads:debug-registers-differ-from-watchpoint-list", format!("[{name}] after {}: thread {} has {got:x?}, watchpoint list {want:x?}", o["cmd"], d["tid"]), replay.clone());
                }
            }
        }
        if multi {
            part.distinct_nontrivial += 1;
        }
        part.sample(json!({"history": name, "stops": run.obs.iter().map(|o| kind(o).to_string()).collect::<Vec<_>>()}));
    }
    part.bounds = json!({"histories": hs.len(), "threads": 3});
    part
}

/// C15 on a thread that is not the main one.
pub fn part_c15_threads(_tier: Tier) -> Part {
    let mut part = Part::new("c15_worker_thread");
    part.rule = "the C15 memory/register sweep with a worker thread in focus (stop at a breakpoint only workers reach): a register write changes exactly that register of exactly that thread".into();
    let mt = match Mt::new(2, 3, 2, 2000) {
        Ok(m) => m,
        Err(e) => {
            part.violate("MACHINERY:mt-build", e, json!(null));
            return part;
        }
    };
    let cmds = vec![mt.bp("bump.1"), json!({"op": "start"}), json!({"op": "c15_sweep"}), json!({"op": "continue"}), json!({"op": "c15_sweep"})];
    let run = session(&mt.built.exe, |obs| cmds.get(obs.len()).cloned(), Duration::from_secs(60), cmds.len());
    let replay = json!({"engine": "mt", "exe": mt.built.exe, "commands": cmds});
    if run.hang_at.is_some() || run.crashed.is_some() {
        part.violate("C15:threads:session-broke", format!("hang {:?} crash {:?}", run.hang_at, run.crashed), replay);
        return part;
    }
    for o in &run.obs {
        if o["cmd"]["op"] != "c15_sweep" {
            continue;
        }
        let focus = o["focus_tid"].as_i64().unwrap_or(0);
        let pid = o["pid"].as_i64().unwrap_or(0);
        if focus == pid {
            part.violate("MACHINERY:mt-focus-on-main", "the stop at bump.1 has the main thread in focus".to_string(), replay.clone());
        }
        part.evaluations += o["res"]["evaluations"].as_u64().unwrap_or(0);
        part.distinct_nontrivial += o["res"]["nontrivial"].as_u64().unwrap_or(0);
        for f in o["res"]["findings"].as_array().cloned().unwrap_or_default() {
            part.violate(format!("{}:worker-thread", f["sig"].as_str().unwrap_or("C15:?")), f["detail"].as_str().unwrap_or("").to_string(), replay.clone());
        }
        if let Some(s) = o["res"]["samples"].as_array() {
            for x in s.iter().take(2) {
                part.sample(x.clone());
            }
        }
    }
    part.states = run.obs.len() as u64;
    part.bounds = json!({"stops": 2, "focus": "worker thread"});
    part
}

/// C16 with the call made in a thread that is blocked inside a system call.
pub fn part_c16_blocked_thread(_tier: Tier) -> Part {
    let mut part = Part::new("c16_call_in_blocked_thread");
    part.rule = "multi-threaded debuggee: a worker stops at a breakpoint while the main thread is blocked in futex(2) waiting for it; the main thread is put in focus and a function is called in it (once, and a second time); ALL registers of that thread read with PTRACE_GETREGS before and after each call, orig_rax included (it decides whether the interrupted system call is restarted), must be equal; the breakpoint is removed and the program must run to its normal end with its native output (the wait is resumed, not failed)".into();
    let mt = match Mt::new(2, 3, 2, 2000) {
        Ok(m) => m,
        Err(e) => {
            part.violate("MACHINERY:mt-build", e, json!(null));
            return part;
        }
    };
    let native = std::process::Command::new(&mt.built.exe).output().map(|o| (o.status.code(), String::from_utf8_lossy(&o.stdout).to_string())).unwrap_or((None, String::new()));
    // the script waits for a stop at which the main thread really sits in futex(2)
    let tail = vec![
        json!({"op": "call_fn", "name": "mwork", "args": [5]}),
        json!({"op": "call_fn", "name": "mwork", "args": [7]}),
        json!({"op": "remove_line", "file": mt.file(), "line": mt.line("bump.1")}),
        json!({"op": "continue"}),
    ];
    let head = vec![mt.bp("bump.1"), json!({"op": "start"}), json!({"op": "thread", "num": 1})];
    let mut script_log: Vec<Value> = vec![];
    let mut tail_from: Option<usize> = None;
    let run = session(
        &mt.built.exe,
        |obs| {
            let next = if let Some(t0) = tail_from {
                tail.get(obs.len() - t0).cloned()
            } else if obs.len() < head.len() {
                Some(head[obs.len()].clone())
            } else {
                let last = obs.last().unwrap();
                if last["cmd"]["op"] == "thread" {
                    if last["real"]["orig_rax"].as_i64() == Some(202) {
                        tail_from = Some(obs.len());
                        tail.first().cloned()
                    } else if obs.len() < 16 {
                        Some(json!({"op": "continue"}))
                    } else {
                        None
                    }
                } else if last["res"]["kind"] == "breakpoint" {
                    Some(json!({"op": "thread", "num": 1}))
                } else {
                    None
                }
            };
            if let Some(n) = &next {
                script_log.push(n.clone());
            }
            next
        },
        Duration::from_secs(60),
        24,
    );
    let cmds = script_log.clone();
    let replay = json!({"engine": "mt", "exe": mt.built.exe, "commands": cmds});
    part.states = run.obs.len() as u64;
    part.transitions = run.obs.len() as u64;
    part.traces_validated = 1;
    let Some(t0) = tail_from else {
        part.violate("MACHINERY:c16-main-never-in-futex", format!("{} stops at the breakpoint, the main thread was never found waiting in futex", run.obs.iter().filter(|o| o["res"]["kind"] == "breakpoint").count()), replay);
        return part;
    };
    if run.hang_at.is_some() || run.crashed.is_some() || run.obs.len() < t0 + tail.len() {
        part.violate("C16:blocked-thread:session-broke", format!("hang {:?} crash {:?}", run.hang_at, run.crashed), replay);
        return part;
    }
    let pid = run.obs[1]["pid"].as_i64().unwrap_or(0);
    if run.obs[t0 - 1]["res"]["tid"].as_i64() != Some(pid) {
        part.violate("MACHINERY:c16-main-not-selected", format!("{}", run.obs[t0 - 1]["res"]), replay.clone());
    }
    for i in [t0, t0 + 1] {
        let r = &run.obs[i]["res"];
        part.evaluations += 1;
        if i == t0 && r["orig_rax_before"].as_i64() != Some(202) {
            part.violate("MACHINERY:c16-main-not-in-futex", format!("orig_rax of the main thread before the call: {} (202 = futex expected)", r["orig_rax_before"]), replay.clone());
        }
        if r["call_ok"] != true {
            part.violate("C16:blocked-thread:call-refused", format!("call #{}: {}", i + 1 - t0, r["call_err"]), replay.clone());
            continue;
        }
        if r["diff"].as_array().map(|d| !d.is_empty()).unwrap_or(true) {
            part.violate("C16:blocked-thread:registers-differ-after-call", format!("call #{}: [register, before, after] {}", i + 1 - t0, r["diff"]), replay.clone());
        } else {
            part.distinct_nontrivial += 1;
        }
    }
    let stdout = run.result.as_ref().and_then(|r| r["stdout"].as_str()).unwrap_or("").to_string();
    let last = &run.obs[t0 + 3]["res"];
    if last["kind"] != "exit" || last["code"].as_i64().map(|c| c as i32) != native.0 || stdout != native.1 {
        part.violate("C16:blocked-thread:program-does-not-end-natively", format!("{last}; stdout {stdout:?}; natively exit {:?} stdout {:?}", native.0, native.1), replay.clone());
    }
    part.sample(json!({"calls": [run.obs[t0]["res"].clone(), run.obs[t0 + 1]["res"].clone()], "end": last}));
    part.bounds = json!({"calls": 2, "blocked_in": "futex"});
    part
}

pub fn replay(rp: &Value) -> i32 {
    let exe = rp["exe"].as_str().unwrap_or("").to_string();
    let cmds: Vec<Value> = rp["commands"].as_array().cloned().unwrap_or_default();
    let mut init = json!({"exe": exe, "args": []});
    if let Some(m) = rp["init"].as_object() {
        for (k, v) in m {
            init[k] = v.clone();
        }
    }
    let run = session_init(
        init,
        |obs| {
            let c = cmds.get(obs.len()).cloned()?;
            if c["op"] == "focus_worker" {
                let main_in_focus = obs.last().map(|o| o["res"]["tid"].as_i64() == o["pid"].as_i64()).unwrap_or(true);
                return Some(json!({"op": "thread", "num": if main_in_focus { 2 } else { 1 }}));
            }
            Some(c)
        },
        Duration::from_secs(20),
        cmds.len(),
    );
    for o in &run.obs {
        println!("{} -> {} events {} tasks {} threads {}", o["cmd"], o["res"], o["events"], o["tasks"], o["threads"]);
    }
    if let Some(i) = run.hang_at {
        println!("no answer to command #{i}");
        return 1;
    }
    if let Some(c) = run.crashed {
        println!("worker crashed: {c}");
        return 1;
    }
    println!("result: {}", run.result.map(|r| r["stdout"].clone()).unwrap_or(json!(null)));
    println!("(real-kernel history: compare with the violation text; the schedule is the kernel's)");
    0
}

/// Real-kernel witnesses for the signal findings of the E1 model.
pub fn part_c10_witnesses(_tier: Tier) -> Part {
    use crate::corpus::Stmt;
    let mut part = Part::new("c10_real_witnesses");
    part.rule = "fixed real-kernel histories for the injection-queue findings of the model: two different signals pending for one thread, `stepi` at the first signal stop, then `continue` to the end; the program's own handler counters must show every signal exactly once and no signal may be reported twice".into();
    part.exhaustive = false;
    let body = vec![Stmt::RaiseBurst, Stmt::Assign];
    let built = match corpus::build(&corpus::generate(&corpus::name_of(&body), &body), &Config::default_cfg()) {
        Ok(b) => b,
        Err(e) => {
            part.violate("MACHINERY:build", e, json!(null));
            return part;
        }
    };
    // reference: the program alone
    let alone = std::process::Command::new(&built.exe).output().map(|o| String::from_utf8_lossy(&o.stdout).to_string()).unwrap_or_default();
    for (name, cmds) in [
        ("continue-only", vec![json!({"op": "start"}), json!({"op": "continue"}), json!({"op": "continue"}), json!({"op": "continue"})]),
        ("stepi-at-first-signal-stop", vec![json!({"op": "start"}), json!({"op": "stepi"}), json!({"op": "continue"}), json!({"op": "continue"}), json!({"op": "continue"})]),
    ] {
        let mut done = false;
        let run = session(
            &built.exe,
            |obs| {
                if done || obs.last().map(|o| kind(o) == "exit").unwrap_or(false) {
                    done = true;
                    return None;
                }
                cmds.get(obs.len()).cloned()
            },
            Duration::from_secs(15),
            cmds.len(),
        );
        part.evaluations += 1;
        part.states += run.obs.len() as u64;
        part.traces_validated += 1;
        let replay = json!({"engine": "mt", "exe": built.exe, "commands": cmds});
        if run.hang_at.is_some() || run.crashed.is_some() {
            part.violate("C10:real:session-broke", format!("[{name}] hang {:?} crash {:?}", run.hang_at, run.crashed), replay);
            continue;
        }
        let stdout = run.result.as_ref().and_then(|r| r["stdout"].as_str()).unwrap_or("").to_string();
        let mut reports: BTreeMap<i64, u32> = BTreeMap::new();
        for o in &run.obs {
            for e in o["events"].as_array().cloned().unwrap_or_default() {
                if e["ev"] == "signal" {
                    *reports.entry(e["sig"].as_i64().unwrap_or(0)).or_default() += 1;
                }
            }
        }
        part.sample(json!({"history": name, "stdout": stdout, "stdout_without_debugger": alone, "signal_reports": reports.iter().map(|(k, v)| format!("{k}x{v}")).collect::<Vec<_>>()}));
        if stdout != alone {
            part.violate("C10:real:handler-counters-differ-after-stepi-at-signal-stop", format!("[{name}] program prints {stdout:?} under the debugger, {alone:?} alone (first line = handler runs: SIGINT*1000000 + SIGUSR1*10000 + SIGUSR2*100 + SIGALRM)"), replay.clone());
        }
        if reports.values().any(|n| *n > 1) {
            part.violate("C10:real:same-signal-reported-twice", format!("[{name}] reports per signal {reports:?}"), replay.clone());
        }
    }
    part
}


/// C11, attached processes: detach / quit leave every thread of the external process alive,
/// untraced, with original code and no hardware breakpoints; threads created after the attach
/// included.
pub fn part_c11_attach(tier: Tier) -> Part {
    let mut part = Part::new("c11_attach");
    part.rule = "the debuggee is started by the harness and attached to while it runs (two threads, a third is created 120 ms later); every history over {break in worker code, break at thread entry, watch a global, continue} x {detach, drop} is followed by an independent inspection: no task has a tracer or sits in a tracing stop, no task has an enabled debug-register slot, the text equals the file, and the process finishes with its native output and exit code".into();
    let o = corpus::MtOpts { workers: 1, iters: 500, main_iters: 0, spin: 0, late_workers: 1, late_ms: 120, worker_sleep_us: 1000, anon_loop: false };
    let built = match corpus::build(&corpus::generate_mt_opts(&o), &Config::default_cfg()) {
        Ok(b) => b,
        Err(e) => {
            part.violate("MACHINERY:mt-build", e, json!(null));
            return part;
        }
    };
    let line = |l: &str| built.program.lines.iter().find(|(_, x)| x == l).map(|(n, _)| *n as u64).unwrap_or(0);
    let bp = |l: &str| json!({"op": "break_line", "file": built.program.src_file, "line": line(l)});
    let native = std::process::Command::new(&built.exe).output().ok();
    let native_out = native.as_ref().map(|o| String::from_utf8_lossy(&o.stdout).to_string()).unwrap_or_default();
    let native_code = native.as_ref().and_then(|o| o.status.code());
    let info = crate::reftrace::elf_info(&built.exe).ok();
    let acc = info.as_ref().and_then(|i| i.data_symbols.iter().find(|(s, _, _)| s == "ACC" || s.contains("3ACC")).map(|(_, a, _)| *a));
    let mut prefixes: Vec<(String, Vec<Value>)> = vec![
        ("nothing".into(), vec![]),
        ("bp-in-worker".into(), vec![bp("bump.1"), json!({"op": "continue"})]),
        ("bp-in-worker-twice".into(), vec![bp("bump.1"), json!({"op": "continue"}), json!({"op": "continue"})]),
        ("bp-at-late-thread-entry".into(), vec![bp("worker.1"), json!({"op": "continue"})]),
        ("bp-at-late-thread-entry-then-worker".into(), vec![bp("worker.1"), json!({"op": "continue"}), bp("bump.1"), json!({"op": "continue"})]),
    ];
    if let Some(a) = acc {
        prefixes.push(("watch-global".into(), vec![json!({"op": "watch_addr", "addr": a, "size": 8, "cond": "w"}), bp("bump.1"), json!({"op": "continue"})]));
        prefixes.push(("watch-global-late-thread".into(), vec![json!({"op": "watch_addr", "addr": a, "size": 8, "cond": "w"}), bp("worker.1"), json!({"op": "continue"})]));
    }
    if tier == Tier::Thorough {
        prefixes.push(("bp-in-worker-x4".into(), vec![bp("bump.1"), json!({"op": "continue"}), json!({"op": "continue"}), json!({"op": "continue"}), json!({"op": "continue"})]));
        // in the worker: the main thread may be waiting in futex(2) for a thread that the attach has
        // stopped, and a step of that thread alone can never finish (not a defect: by design only
        // the thread in focus is stepped)
        // (thread numbers after an attach follow the order of /proc/<pid>/task as the debugger met
        // it: "focus_worker" is resolved by the script below to a thread that is not the main one)
        prefixes.push(("stepi-after-attach".into(), vec![json!({"op": "thread", "num": 1}), json!({"op": "focus_worker"}), json!({"op": "stepi"}), json!({"op": "stepi"})]));
    }
    for (pname, prefix) in &prefixes {
        for term in ["detach", "drop"] {
            let mut cmds = prefix.clone();
            cmds.push(if term == "detach" { json!({"op": "detach"}) } else { json!({"op": "drop", "external": true}) });
            cmds.push(json!({"op": "post_detach_check_mt", "settle_ms": 10}));
            // attaching scans the whole process table (sysinfo): on a loaded machine the program may
            // be over before the debugger is attached; that says nothing, try again
            // the program may also run to its end inside a `continue` (the attach came late and the
            // breakpoint was already behind every thread): then the history is over
            let script = |obs: &[Value]| {
                if obs.last().map(|o| kind(o) == "exit").unwrap_or(false) {
                    return None;
                }
                let c = cmds.get(obs.len()).cloned()?;
                if c["op"] == "focus_worker" {
                    // thread 1 was put in focus by the command before: if that is the main thread, take number 2
                    let main_in_focus = obs.last().map(|o| o["res"]["tid"].as_i64() == o["pid"].as_i64()).unwrap_or(true);
                    return Some(json!({"op": "thread", "num": if main_in_focus { 2 } else { 1 }}));
                }
                Some(c)
            };
            let mut run = session_init(json!({"exe": built.exe, "args": [], "attach": true, "attach_delay_ms": 25}), script, Duration::from_secs(15), cmds.len());
            for _ in 0..3 {
                if !run.crashed.as_ref().map(|c| c.contains("launch_error")).unwrap_or(false) {
                    break;
                }
                let _ = std::process::Command::new("/usr/bin/pkill").args(["-9", "-f", &built.exe]).status();
                run = session_init(json!({"exe": built.exe, "args": [], "attach": true, "attach_delay_ms": 25}), script, Duration::from_secs(15), cmds.len());
            }
            part.evaluations += 1;
            part.states += run.obs.len() as u64;
            part.transitions += run.obs.len() as u64;
            part.traces_validated += 1;
            let name = format!("{pname}/{term}");
            let replay = json!({"engine": "mt", "exe": built.exe, "init": {"attach": true, "attach_delay_ms": 25}, "commands": cmds});
            if run.hang_at.is_some() || run.crashed.is_some() {
                part.violate("C11:attach:session-broke", format!("[{name}] hang {:?} crash {:?}", run.hang_at, run.crashed), replay);
                let _ = std::process::Command::new("/usr/bin/pkill").args(["-9", "-f", &built.exe]).status();
                continue;
            }
            if let Some(bad) = run.obs.iter().find(|o| o["res"]["ok"] == false) {
                part.violate("C11:attach:command-failed", format!("[{name}] {} -> {}", bad["cmd"], bad["res"]), replay.clone());
                let _ = std::process::Command::new("/usr/bin/pkill").args(["-9", "-f", &built.exe]).status();
                continue;
            }
            if let Some(ex) = run.obs.iter().find(|o| kind(o) == "exit") {
                let out = run.result.as_ref().and_then(|r| r["stdout"].as_str()).unwrap_or("").to_string();
                if ex["res"]["code"].as_i64() != native_code.map(|c| c as i64) || out != native_out {
                    part.violate("C11:attach:exit-code-or-output-wrong", format!("[{name}] ran to the end under the debugger: exit {} stdout {out:?}; native exit {native_code:?} stdout {native_out:?}", ex["res"]["code"]), replay.clone());
                }
                continue;
            }
            let Some(chk) = run.obs.last().map(|o| o["res"].clone()) else { continue };
            let tasks = chk["tasks"].as_array().cloned().unwrap_or_default();
            if tasks.len() > 1 {
                part.distinct_nontrivial += 1;
            }
            for t in &tasks {
                if t["tracer_pid"].as_i64().unwrap_or(0) != 0 {
                    part.violate(format!("C11:attach:{term}:thread-still-traced"), format!("[{name}] task {} has TracerPid {} after {term} (tasks {tasks:?})", t["tid"], t["tracer_pid"]), replay.clone());
                } else if t["state"] == "t" || t["state"] == "T" {
                    part.violate(format!("C11:attach:{term}:thread-left-stopped"), format!("[{name}] task {} is in state {} after {term}", t["tid"], t["state"]), replay.clone());
                }
                if t["dr7"].as_u64().map(|d| d & 0xff != 0).unwrap_or(false) {
                    part.violate(format!("C11:attach:{term}:hardware-breakpoint-left"), format!("[{name}] task {} has DR7 {:#x} after {term}", t["tid"], t["dr7"].as_u64().unwrap_or(0)), replay.clone());
                }
            }
            if chk["foreign_text_diff"].as_array().map(|d| !d.is_empty()).unwrap_or(false) {
                part.violate(format!("C11:attach:{term}:code-patched-in-another-object"), format!("[{name}] the released process still carries patches outside the executable: {}", chk["foreign_text_diff"]), replay.clone());
            }
            if chk["text_diff"].as_array().map(|d| !d.is_empty()).unwrap_or(false) {
                part.violate(format!("C11:attach:{term}:code-patched"), format!("[{name}] text differs from the file at {}", chk["text_diff"]), replay.clone());
            }
            if chk["exit_code"].as_i64() == Some(-5) {
                part.violate(format!("C11:attach:{term}:released-process-killed-by-SIGTRAP"), format!("[{name}] after {term} the process was killed by SIGTRAP (a breakpoint trap the tracer had not consumed, or an INT3 left in the code); stdout {:?}", chk["stdout"]), replay.clone());
            } else if chk["exit_code"].as_i64() != native_code.map(|c| c as i64) || chk["stdout"].as_str() != Some(native_out.as_str()) {
                part.violate(format!("C11:attach:{term}:process-did-not-finish-natively"), format!("[{name}] exit {} stdout {:?}; native exit {native_code:?} stdout {native_out:?}", chk["exit_code"], chk["stdout"]), replay.clone());
            }
            part.sample(json!({"history": name, "tasks_after": tasks, "exit_code": chk["exit_code"]}));
        }
    }
    part.bounds = json!({"prefixes": prefixes.len(), "terminals": 2, "threads": "2, a third created after the attach"});
    part
}

/// C05 on threads: every thread's backtrace is that thread's own call stack.
pub fn part_c05_threads(tier: Tier) -> Part {
    let mut part = Part::new("c05_thread_backtraces");
    part.rule = "multi-threaded debuggee stopped at breakpoints in worker code and in main: for every thread of the debugger's thread list the backtrace's first frame is that thread's own pc (independent PTRACE_GETREGS), every further frame address is found as a word of that thread's own stack at ascending addresses, the chain of function names fits the thread's role (workers: .. bump? <- worker, never main; main thread: .. <- main, never worker) and the thread in focus at a stop in bump shows bump <- worker".into();
    part.exhaustive = false;
    let reps = if tier == Tier::Quick { 1 } else { 6 };
    for &(workers, iters, main_iters) in if tier == Tier::Quick { &[(2usize, 3u64, 2u64)][..] } else { &[(2, 3, 2), (3, 2, 2), (4, 2, 1)][..] } {
        let mt = match Mt::new(workers, iters, main_iters, 2000) {
            Ok(m) => m,
            Err(e) => {
                part.violate("MACHINERY:mt-build", e, json!(null));
                continue;
            }
        };
        for rep in 0..reps {
            let setup = vec![mt.bp("bump.1"), mt.bp("mwork.1"), json!({"op": "start"})];
            let run = session(&mt.built.exe, |obs| if obs.len() < setup.len() { Some(setup[obs.len()].clone()) } else if obs.last().map(|o| kind(o) == "exit" || o["res"]["ok"] == false).unwrap_or(true) { None } else { Some(json!({"op": "continue"})) }, Duration::from_secs(15), 200);
            let cmds: Vec<Value> = run.obs.iter().map(|o| o["cmd"].clone()).collect();
            let replay = json!({"engine": "mt", "exe": mt.built.exe, "commands": cmds});
            part.traces_validated += 1;
            if run.hang_at.is_some() || run.crashed.is_some() {
                part.violate("C05:threads:session-broke", format!("[{} #{rep}] hang {:?} crash {:?}", mt.built.program.name, run.hang_at, run.crashed), replay);
                continue;
            }
            for o in run.obs.iter().filter(|o| kind(o) == "breakpoint") {
                part.states += 1;
                let pid = o["pid"].as_i64().unwrap_or(0);
                let focus = o["res"]["tid"].as_i64().unwrap_or(0);
                let at_line = o["events"].as_array().and_then(|e| e.iter().find(|e| e["ev"] == "breakpoint")).and_then(|e| e["line"].as_u64()).unwrap_or(0);
                for t in o["threads"].as_array().cloned().unwrap_or_default() {
                    let tid = t["tid"].as_i64().unwrap_or(0);
                    let bt = &t["bt"];
                    if bt.is_null() {
                        continue; // no backtrace offered for this thread (e.g. inside the clone stub)
                    }
                    part.evaluations += 1;
                    let fns: Vec<String> = bt["fns"].as_array().map(|a| a.iter().map(|f| f.as_str().unwrap_or("?").to_string()).collect()).unwrap_or_default();
                    let ctx = format!("[{} #{rep}] stop of thread {focus} at line {at_line}: thread {tid} ({}) backtrace {fns:?}", mt.built.program.name, if tid == pid { "main" } else { "worker" });
                    if bt["frame0_is_thread_pc"] == false {
                        part.violate("C05:threads:first-frame-is-not-the-thread's-pc", ctx.clone(), replay.clone());
                    }
                    if bt["return_addresses_on_own_stack"] == false {
                        part.violate("C05:threads:return-address-not-on-the-thread's-stack", ctx.clone(), replay.clone());
                    }
                    let has = |n: &str| fns.iter().any(|f| f.ends_with(n));
                    if tid == pid {
                        if has("worker") || (fns.len() > 1 && !has("main")) {
                            part.violate("C05:threads:main-thread-shows-foreign-frames", ctx.clone(), replay.clone());
                        }
                    } else if has("main") || has("mwork") {
                        part.violate("C05:threads:worker-shows-main's-frames", ctx.clone(), replay.clone());
                    }
                    if tid == focus && at_line == mt.line("bump.1") {
                        part.distinct_nontrivial += 1;
                        if !(fns.first().map(|f| f.ends_with("bump")).unwrap_or(false) && fns.get(1).map(|f| f.ends_with("worker")).unwrap_or(false)) {
                            part.violate("C05:threads:focus-thread-chain-wrong", ctx.clone(), replay.clone());
                        }
                    }
                }
            }
            if rep == 0 {
                part.sample(json!({"program": mt.built.program.name, "stops": run.obs.iter().filter(|o| kind(o) == "breakpoint").count(), "example": run.obs.iter().find(|o| kind(o) == "breakpoint").map(|o| o["threads"].clone())}));
            }
        }
    }
    part.bounds = json!({"repetitions": reps, "schedule": "chosen by the kernel (sampled)"});
    part
}
