//! C08 — no input can crash, hang or corrupt the debugger.
//! Part (a): bounded-exhaustive sweep of console command lines and data query expressions
//! through the real parsers (in-process, panics caught).

use crate::common::*;
use bugstalker::ui::command::Command;
use bugstalker::ui::command::parser::expression;
use chumsky::Parser;
use rayon::prelude::*;
use serde_json::json;
use std::collections::BTreeMap;

const NUMS: [&str; 10] = [
    "0", "1", "4294967295", "4294967296", "18446744073709551615", "18446744073709551616", "-9223372036854775808",
    "0x0", "0xffffffffffffffff", "0x10000000000000000",
];

fn tokens() -> Vec<&'static str> {
    let mut t = vec![
        "var", "vard", "arg", "argd", "locals", "all", "bt", "backtrace", "c", "continue", "frame", "f", "info", "switch", "run", "r",
        "stepi", "step", "stepinto", "finish", "stepout", "next", "stepover", "symbol", "break", "b", "remove", "watch", "w", "+rw", "+w",
        "memory", "mem", "read", "write", "register", "reg", "thread", "current", "sharedlib", "source", "asm", "fn", "oracle", "async",
        "task", "trigger", "any", "call", "help", "h", "x", "a::b", "main.rs:5", "main.rs:", ":", "..", "[", "]", "(", ")", "*", "&", "~", ".", "{", "}", ",", "\"s\"", "true", "rip",
    ];
    t.extend(NUMS);
    t
}

fn try_parse(line: &str) -> Result<bool, String> {
    let r = std::panic::catch_unwind(|| Command::parse(line).is_ok());
    r.map_err(|e| {
        if let Some(s) = e.downcast_ref::<String>() {
            s.clone()
        } else if let Some(s) = e.downcast_ref::<&str>() {
            s.to_string()
        } else {
            "panic".to_string()
        }
    })
}

fn try_expr(text: &str) -> Result<bool, String> {
    let r = std::panic::catch_unwind(|| expression::parser().parse(text).into_result().is_ok());
    r.map_err(|e| {
        if let Some(s) = e.downcast_ref::<String>() {
            s.clone()
        } else if let Some(s) = e.downcast_ref::<&str>() {
            s.to_string()
        } else {
            "panic".to_string()
        }
    })
}

fn classify(line: &str, msg: &str) -> String {
    let first = line.split_whitespace().next().unwrap_or("");
    let num = NUMS.iter().rev().find(|n| line.contains(*n)).copied().unwrap_or("-");
    let kind = if msg.contains("ParseIntError") || msg.contains("too large") || msg.contains("out of range") || msg.contains("PosOverflow") || msg.contains("number too") {
        "numeric-overflow"
    } else {
        "other"
    };
    format!("{kind}:{first}:{num}")
}

pub fn part_parsers(tier: Tier) -> Part {
    let mut part = Part::new("command-line-sweep");
    let toks = tokens();
    let depth = if tier == Tier::Quick { 3 } else { 4 };
    part.bounds = json!({"tokens": toks.len(), "max_tokens_per_line": depth, "expression_tokens": 24, "expression_len": if tier == Tier::Quick { 4 } else { 5 }});
    part.rule = "every command line of up to N tokens over the console's full token alphabet (keywords, sub-commands, ten boundary numerals incl. 2^32, 2^64, i64::MIN and 65-bit hex, identifiers, punctuation) is fed to the real Command::parse; every token string over the expression alphabet to expression::parser(); a panic is a violation (an error result is fine). Distinct non-trivial = lines that parse into a command".into();
    std::panic::set_hook(Box::new(|_| {}));
    // enumerate: all lines with 1..=depth tokens; for depth 4 (thorough) the first token is a command keyword
    let n = toks.len();
    let mut total: u64 = 0;
    let mut ok_count: u64 = 0;
    let mut panics: BTreeMap<String, (String, String)> = BTreeMap::new();
    let firsts: Vec<usize> = (0..n).collect();
    let results: Vec<(u64, u64, Vec<(String, String)>)> = firsts
        .par_iter()
        .map(|&a| {
            let mut total = 0u64;
            let mut ok = 0u64;
            let mut bad = vec![];
            let mut run = |line: String| {
                total += 1;
                match try_parse(&line) {
                    Ok(true) => ok += 1,
                    Ok(false) => {}
                    Err(m) => {
                        if bad.len() < 200 {
                            bad.push((line, m));
                        }
                    }
                }
            };
            run(toks[a].to_string());
            for b in 0..n {
                run(format!("{} {}", toks[a], toks[b]));
                for c in 0..n {
                    run(format!("{} {} {}", toks[a], toks[b], toks[c]));
                    if depth >= 4 {
                        for d in NUMS.iter().chain(["x", ":", ".."].iter()) {
                            run(format!("{} {} {} {}", toks[a], toks[b], toks[c], d));
                        }
                    }
                }
            }
            (total, ok, bad)
        })
        .collect();
    for (t, o, bad) in results {
        total += t;
        ok_count += o;
        for (line, m) in bad {
            let sig = format!("C08:parse-panic:{}", classify(&line, &m));
            panics.entry(sig).or_insert((line, m));
        }
    }
    // expressions
    let etoks = ["a", "b::c", "0", "1", "18446744073709551615", "18446744073709551616", "-9223372036854775808", "0x10000000000000000", "1.5", "(", ")", "[", "]", "..", ".", "*", "&", "~", "{", "}", ",", "\"k\"", "true", "(u8)"];
    let elen = if tier == Tier::Quick { 4 } else { 5 };
    let mut level: Vec<String> = vec![String::new()];
    let mut exprs: Vec<String> = vec![];
    for _ in 0..elen {
        let mut next = Vec::with_capacity(level.len() * etoks.len());
        for p in &level {
            for t in etoks {
                next.push(format!("{p}{t}"));
            }
        }
        exprs.extend(next.iter().cloned());
        level = next;
    }
    let eres: Vec<(u64, Vec<(String, String)>)> = exprs
        .par_chunks(4096)
        .map(|chunk| {
            let mut ok = 0;
            let mut bad = vec![];
            for e in chunk {
                match try_expr(e) {
                    Ok(true) => ok += 1,
                    Ok(false) => {}
                    Err(m) => {
                        if bad.len() < 50 {
                            bad.push((e.clone(), m));
                        }
                    }
                }
            }
            (ok, bad)
        })
        .collect();
    total += exprs.len() as u64;
    for (o, bad) in eres {
        ok_count += o;
        for (e, m) in bad {
            let num = NUMS.iter().rev().find(|n| e.contains(*n)).copied().unwrap_or("-");
            let ctx = if e.contains("..") { "slice" } else if e.contains('[') { "index" } else { "expr" };
            let sig = format!("C08:expr-panic:{ctx}:{num}");
            panics.entry(sig).or_insert((e, m));
        }
    }
    let _ = std::panic::take_hook();
    part.evaluations = total;
    part.states = total;
    part.transitions = total;
    part.distinct_nontrivial = ok_count;
    part.distinct_outcomes = 2 + panics.len() as u64;
    for (sig, (line, m)) in panics {
        part.violate(sig, format!("input {line:?} panics: {}", m.lines().next().unwrap_or("")), json!({"engine":"c08-parse","line":line}));
    }
    part.sample(json!({"line": "break remove 4294967296"}));
    part.sample(json!({"expr": "a[0..18446744073709551616]"}));
    part
}

pub fn replay(v: &serde_json::Value) -> i32 {
    let line = v["line"].as_str().unwrap_or("");
    std::panic::set_hook(Box::new(|_| {}));
    let a = try_parse(line);
    let b = try_expr(line);
    println!("Command::parse({line:?}) -> {a:?}; expression::parser -> {b:?}");
    if a.is_err() || b.is_err() { 1 } else { 0 }
}


/// C08 (b): executing data queries and boundary-valued commands on a live session.
pub fn part_exec(tier: Tier) -> Part {
    use serde_json::json;
    let mut part = Part::new("c08_exec");
    part.rule = "at a stop in a std-linked program with 25 locals of collection, pointer, enum, slice, static and thread-local types: every data-query expression base + up to 2 (quick) / 3 (thorough, reduced operator set) operators over 18 bases x 30 operators (indexes 0, 1, len, u64::MAX, negative; ranges incl. reversed and past the end; fields, tuple fields, deref, address-of, canonical, casts of bogus addresses, string / struct-pattern keys) is parsed by the real parser and evaluated with read_variable + read_argument + names + a full walk of the value tree; then ~250 boundary-valued API calls (frame / thread / breakpoint / watchpoint numbers, memory addresses and lengths, register names, file:line and function designators). No panic, nothing slower than 5 s, registers and text of the debuggee unchanged, the session continues to the program's normal end".into();
    let (exe, file, line) = match crate::c06s::ensure_built(3, 5) {
        Ok(x) => x,
        Err(e) => {
            part.violate("MACHINERY:std-build", e, json!(null));
            return part;
        }
    };
    let bases = ["s_utf8", "v_i32", "v_empty", "vv", "v_str", "vd", "hm", "hm_key", "hs", "bm", "bs", "bx", "rc", "arc", "rcell", "opt_s", "opt_none", "arr", "sl", "tup", "G_U32", "TL_A", "nosuchvar", "n"];
    let ops_full = [
        "[0]", "[1]", "[3]", "[18446744073709551615]", "[-1]", "[0..]", "[..0]", "[3..1]", "[1..999]", "[..]", "[2..2]", "[18446744073709551615..]", "[0..1000000000000]", "[1000000000000]", ".a", ".0", ".__0", ".len", ".value", ".data_ptr", "pre:*", "pre:&", "pre:~", "[\"k\"]", "[{a: 1, b: *}]", "[{a: *}]", "[true]", "[*]", "wrap:(*mut u8){}", "wrap:*((*mut u64)0x10)", "wrap:({})", "wrap:**{}",
    ];
    let ops_small = ["[0]", "[18446744073709551615]", "[3..1]", "[..]", ".__0", ".value", "pre:*", "pre:&", "pre:~", "[{a: *}]"];
    let mut jobs = vec![json!({"op": "c08_sweep", "bases": bases, "ops": ops_full, "depth": 2})];
    if tier == Tier::Thorough {
        jobs.push(json!({"op": "c08_sweep", "bases": bases, "ops": ops_small, "depth": 3}));
    }
    let mut cmds = vec![json!({"op": "break_line", "file": file, "line": line}), json!({"op": "start"})];
    cmds.extend(jobs);
    cmds.push(json!({"op": "continue"}));
    let run = crate::mt::session(&exe, |obs| cmds.get(obs.len()).cloned(), std::time::Duration::from_secs(600), cmds.len());
    let replay = json!({"engine": "mt", "exe": exe, "commands": cmds});
    part.states = run.obs.len() as u64;
    if run.hang_at.is_some() || run.crashed.is_some() {
        part.violate("C08:exec:session-died", format!("hang at command {:?}, crash {:?}", run.hang_at, run.crashed), replay);
        return part;
    }
    for o in &run.obs {
        if o["cmd"]["op"] != "c08_sweep" {
            continue;
        }
        part.evaluations += o["res"]["evaluations"].as_u64().unwrap_or(0);
        part.distinct_nontrivial += o["res"]["with_result"].as_u64().unwrap_or(0);
        part.sample(json!({"expressions": o["res"]["expressions"], "with_result": o["res"]["with_result"], "parse_errors": o["res"]["parse_errors"], "eval_errors": o["res"]["eval_errors"], "api_calls": o["res"]["api_calls"], "slowest": o["res"]["slowest"]}));
        for f in o["res"]["findings"].as_array().cloned().unwrap_or_default() {
            part.violate(f["sig"].as_str().unwrap_or("C08:exec:?").to_string(), f["detail"].as_str().unwrap_or("").to_string(), replay.clone());
        }
    }
    if !run.obs.last().map(|o| o["res"]["kind"] == "exit").unwrap_or(false) {
        part.violate("C08:exec:program-does-not-finish-after-sweep", format!("{:?}", run.obs.last().map(|o| o["res"].clone())), replay);
    }
    part.bounds = json!({"bases": bases.len(), "operators": ops_full.len(), "depth": if tier == Tier::Thorough { 3 } else { 2 }});
    part
}
