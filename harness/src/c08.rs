//! C08 — no input can crash, hang or corrupt the debugger.
//! Part (a): bounded-exhaustive sweep of console command lines and data query expressions
//! through the real parsers (in-process, panics caught).

use crate::common::*;
use bugstalker::ui::command::Command;
use bugstalker::ui::command::parser::expression;
use chumsky::Parser;
use rayon::prelude::*;
use serde_json::json;
use std::collections::BTreeMap;

const NUMS: [&str; 10] = [
    "0", "1", "4294967295", "4294967296", "18446744073709551615", "18446744073709551616", "-9223372036854775808",
    "0x0", "0xffffffffffffffff", "0x10000000000000000",
];

fn tokens() -> Vec<&'static str> {
    let mut t = vec![
        "var", "vard", "arg", "argd", "locals", "all", "bt", "backtrace", "c", "continue", "frame", "f", "info", "switch", "run", "r",
        "stepi", "step", "stepinto", "finish", "stepout", "next", "stepover", "symbol", "break", "b", "remove", "watch", "w", "+rw", "+w",
        "memory", "mem", "read", "write", "register", "reg", "thread", "current", "sharedlib", "source", "asm", "fn", "oracle", "async",
        "task", "trigger", "any", "call", "help", "h", "x", "a::b", "main.rs:5", "main.rs:", ":", "..", "[", "]", "(", ")", "*", "&", "~", ".", "{", "}", ",", "\"s\"", "true", "rip",
    ];
    t.extend(NUMS);
    t
}

fn try_parse(line: &str) -> Result<bool, String> {
    let r = std::panic::catch_unwind(|| Command::parse(line).is_ok());
    r.map_err(|e| {
        if let Some(s) = e.downcast_ref::<String>() {
            s.clone()
        } else if let Some(s) = e.downcast_ref::<&str>() {
            s.to_string()
        } else {
            "panic".to_string()
        }
    })
}

fn try_expr(text: &str) -> Result<bool, String> {
    let r = std::panic::catch_unwind(|| expression::parser().parse(text).into_result().is_ok());
    r.map_err(|e| {
        if let Some(s) = e.downcast_ref::<String>() {
            s.clone()
        } else if let Some(s) = e.downcast_ref::<&str>() {
            s.to_string()
        } else {
            "panic".to_string()
        }
    })
}

fn classify(line: &str, msg: &str) -> String {
    let first = line.split_whitespace().next().unwrap_or("");
    let num = NUMS.iter().rev().find(|n| line.contains(*n)).copied().unwrap_or("-");
    let kind = if msg.contains("ParseIntError") || msg.contains("too large") || msg.contains("out of range") || msg.contains("PosOverflow") || msg.contains("number too") {
        "numeric-overflow"
    } else {
        "other"
    };
    format!("{kind}:{first}:{num}")
}

pub fn part_parsers(tier: Tier) -> Part {
    let mut part = Part::new("command-line-sweep");
    let toks = tokens();
    let depth = if tier == Tier::Quick { 3 } else { 4 };
    part.bounds = json!({"tokens": toks.len(), "max_tokens_per_line": depth, "expression_tokens": 24, "expression_len": if tier == Tier::Quick { 4 } else { 5 }});
    part.rule = "every command line of up to N tokens over the console's full token alphabet (keywords, sub-commands, ten boundary numerals incl. 2^32, 2^64, i64::MIN and 65-bit hex, identifiers, punctuation) is fed to the real Command::parse; every token string over the expression alphabet to expression::parser(); a panic is a violation (an error result is fine). Distinct non-trivial = lines that parse into a command".into();
    std::panic::set_hook(Box::new(|_| {}));
    // enumerate: all lines with 1..=depth tokens; for depth 4 (thorough) the first token is a command keyword
    let n = toks.len();
    let mut total: u64 = 0;
    let mut ok_count: u64 = 0;
    let mut panics: BTreeMap<String, (String, String)> = BTreeMap::new();
    let firsts: Vec<usize> = (0..n).collect();
    let results: Vec<(u64, u64, Vec<(String, String)>)> = firsts
        .par_iter()
        .map(|&a| {
            let mut total = 0u64;
            let mut ok = 0u64;
            let mut bad = vec![];
            let mut run = |line: String| {
                total += 1;
                match try_parse(&line) {
                    Ok(true) => ok += 1,
                    Ok(false) => {}
                    Err(m) => {
                        if bad.len() < 200 {
                            bad.push((line, m));
                        }
                    }
                }
            };
            run(toks[a].to_string());
            for b in 0..n {
                run(format!("{} {}", toks[a], toks[b]));
                for c in 0..n {
                    run(format!("{} {} {}", toks[a], toks[b], toks[c]));
                    if depth >= 4 {
                        for d in NUMS.iter().chain(["x", ":", ".."].iter()) {
                            run(format!("{} {} {} {}", toks[a], toks[b], toks[c], d));
                        }
                    }
                }
            }
            (total, ok, bad)
        })
        .collect();
    for (t, o, bad) in results {
        total += t;
        ok_count += o;
        for (line, m) in bad {
            let sig = format!("C08:parse-panic:{}", classify(&line, &m));
            panics.entry(sig).or_insert((line, m));
        }
    }
    // expressions
    let etoks = ["a", "b::c", "0", "1", "18446744073709551615", "18446744073709551616", "-9223372036854775808", "0x10000000000000000", "1.5", "(", ")", "[", "]", "..", ".", "*", "&", "~", "{", "}", ",", "\"k\"", "true", "(u8)"];
    let elen = if tier == Tier::Quick { 4 } else { 5 };
    let mut level: Vec<String> = vec![String::new()];
    let mut exprs: Vec<String> = vec![];
    for _ in 0..elen {
        let mut next = Vec::with_capacity(level.len() * etoks.len());
        for p in &level {
            for t in etoks {
                next.push(format!("{p}{t}"));
            }
        }
        exprs.extend(next.iter().cloned());
        level = next;
    }
    let eres: Vec<(u64, Vec<(String, String)>)> = exprs
        .par_chunks(4096)
        .map(|chunk| {
            let mut ok = 0;
            let mut bad = vec![];
            for e in chunk {
                match try_expr(e) {
                    Ok(true) => ok += 1,
                    Ok(false) => {}
                    Err(m) => {
                        if bad.len() < 50 {
                            bad.push((e.clone(), m));
                        }
                    }
                }
            }
            (ok, bad)
        })
        .collect();
    total += exprs.len() as u64;
    for (o, bad) in eres {
        ok_count += o;
        for (e, m) in bad {
            let num = NUMS.iter().rev().find(|n| e.contains(*n)).copied().unwrap_or("-");
            let ctx = if e.contains("..") { "slice" } else if e.contains('[') { "index" } else { "expr" };
            let sig = format!("C08:expr-panic:{ctx}:{num}");
            panics.entry(sig).or_insert((e, m));
        }
    }
    let _ = std::panic::take_hook();
    part.evaluations = total;
    part.states = total;
    part.transitions = total;
    part.distinct_nontrivial = ok_count;
    part.distinct_outcomes = 2 + panics.len() as u64;
    for (sig, (line, m)) in panics {
        part.violate(sig, format!("input {line:?} panics: {}", m.lines().next().unwrap_or("")), json!({"engine":"c08-parse","line":line}));
    }
    part.sample(json!({"line": "break remove 4294967296"}));
    part.sample(json!({"expr": "a[0..18446744073709551616]"}));
    part
}

pub fn replay(v: &serde_json::Value) -> i32 {
    let line = v["line"].as_str().unwrap_or("");
    std::panic::set_hook(Box::new(|_| {}));
    let a = try_parse(line);
    let b = try_expr(line);
    println!("Command::parse({line:?}) -> {a:?}; expression::parser -> {b:?}");
    if a.is_err() || b.is_err() { 1 } else { 0 }
}
