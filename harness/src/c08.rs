//! C08 — no input can crash, hang or corrupt the debugger.
//! Part (a): bounded-exhaustive sweep of console command lines and data query expressions
//! through the real parsers (in-process, panics caught).

use crate::common::*;
use bugstalker::ui::command::Command;
use bugstalker::ui::command::parser::expression;
use chumsky::Parser;
use rayon::prelude::*;
use serde_json::json;
use std::collections::BTreeMap;

const NUMS: [&str; 10] = [
    "0", "1", "4294967295", "4294967296", "18446744073709551615", "18446744073709551616", "-9223372036854775808",
    "0x0", "0xffffffffffffffff", "0x10000000000000000",
];

fn tokens() -> Vec<&'static str> {
    let mut t = vec![
        "var", "vard", "arg", "argd", "locals", "all", "bt", "backtrace", "c", "continue", "frame", "f", "info", "switch", "run", "r",
        "stepi", "step", "stepinto", "finish", "stepout", "next", "stepover", "symbol", "break", "b", "remove", "watch", "w", "+rw", "+w",
        "memory", "mem", "read", "write", "register", "reg", "thread", "current", "sharedlib", "source", "asm", "fn", "oracle", "async",
        "task", "trigger", "any", "call", "help", "h", "x", "a::b", "main.rs:5", "main.rs:", ":", "..", "[", "]", "(", ")", "*", "&", "~", ".", "{", "}", ",", "\"s\"", "true", "rip",
    ];
    t.extend(NUMS);
    t
}

fn try_parse(line: &str) -> Result<bool, String> {
    let r = std::panic::catch_unwind(|| Command::parse(line).is_ok());
    r.map_err(|e| {
        if let Some(s) = e.downcast_ref::<String>() {
            s.clone()
        } else if let Some(s) = e.downcast_ref::<&str>() {
            s.to_string()
        } else {
            "panic".to_string()
        }
    })
}

fn try_expr(text: &str) -> Result<bool, String> {
    let r = std::panic::catch_unwind(|| expression::parser().parse(text).into_result().is_ok());
    r.map_err(|e| {
        if let Some(s) = e.downcast_ref::<String>() {
            s.clone()
        } else if let Some(s) = e.downcast_ref::<&str>() {
            s.to_string()
        } else {
            "panic".to_string()
        }
    })
}

fn classify(line: &str, msg: &str) -> String {
    let first = line.split_whitespace().next().unwrap_or("");
    let num = NUMS.iter().rev().find(|n| line.contains(*n)).copied().unwrap_or("-");
    let kind = if msg.contains("ParseIntError") || msg.contains("too large") || msg.contains("out of range") || msg.contains("PosOverflow") || msg.contains("number too") {
        "numeric-overflow"
    } else {
        "other"
    };
    format!("{kind}:{first}:{num}")
}

pub fn part_parsers(tier: Tier) -> Part {
    let mut part = Part::new("command-line-sweep");
    let toks = tokens();
    let depth = if tier == Tier::Quick { 3 } else { 4 };
    part.bounds = json!({"tokens": toks.len(), "max_tokens_per_line": depth, "expression_tokens": 24, "expression_len": if tier == Tier::Quick { 4 } else { 5 }});
    part.rule = "every command line of up to N tokens over the console's full token alphabet (keywords, sub-commands, ten boundary numerals incl. 2^32, 2^64, i64::MIN and 65-bit hex, identifiers, punctuation) is fed to the real Command::parse; every token string over the expression alphabet to expression::parser(); a panic is a violation (an error result is fine). Distinct non-trivial = lines that parse into a command".into();
    std::panic::set_hook(Box::new(|_| {}));
    // enumerate: all lines with 1..=depth tokens; for depth 4 (thorough) the first token is a command keyword
    let n = toks.len();
    let mut total: u64 = 0;
    let mut ok_count: u64 = 0;
    let mut panics: BTreeMap<String, (String, String)> = BTreeMap::new();
    let firsts: Vec<usize> = (0..n).collect();
    let results: Vec<(u64, u64, Vec<(String, String)>)> = firsts
        .par_iter()
        .map(|&a| {
            let mut total = 0u64;
            let mut ok = 0u64;
            let mut bad = vec![];
            let mut run = |line: String| {
                total += 1;
                match try_parse(&line) {
                    Ok(true) => ok += 1,
                    Ok(false) => {}
                    Err(m) => {
                        if bad.len() < 200 {
                            bad.push((line, m));
                        }
                    }
                }
            };
            run(toks[a].to_string());
            for b in 0..n {
                run(format!("{} {}", toks[a], toks[b]));
                for c in 0..n {
                    run(format!("{} {} {}", toks[a], toks[b], toks[c]));
                    if depth >= 4 {
                        for d in NUMS.iter().chain(["x", ":", ".."].iter()) {
                            run(format!("{} {} {} {}", toks[a], toks[b], toks[c], d));
                        }
                    }
                }
            }
            (total, ok, bad)
        })
        .collect();
    for (t, o, bad) in results {
        total += t;
        ok_count += o;
        for (line, m) in bad {
            let sig = format!("C08:parse-panic:{}", classify(&line, &m));
            panics.entry(sig).or_insert((line, m));
        }
    }
    // expressions
    let etoks = ["a", "b::c", "0", "1", "18446744073709551615", "18446744073709551616", "-9223372036854775808", "0x10000000000000000", "1.5", "(", ")", "[", "]", "..", ".", "*", "&", "~", "{", "}", ",", "\"k\"", "true", "(u8)"];
    let elen = if tier == Tier::Quick { 4 } else { 5 };
    let mut level: Vec<String> = vec![String::new()];
    let mut exprs: Vec<String> = vec![];
    for _ in 0..elen {
        let mut next = Vec::with_capacity(level.len() * etoks.len());
        for p in &level {
            for t in etoks {
                next.push(format!("{p}{t}"));
            }
        }
        exprs.extend(next.iter().cloned());
        level = next;
    }
    let eres: Vec<(u64, Vec<(String, String)>)> = exprs
        .par_chunks(4096)
        .map(|chunk| {
            let mut ok = 0;
            let mut bad = vec![];
            for e in chunk {
                match try_expr(e) {
                    Ok(true) => ok += 1,
                    Ok(false) => {}
                    Err(m) => {
                        if bad.len() < 50 {
                            bad.push((e.clone(), m));
                        }
                    }
                }
            }
            (ok, bad)
        })
        .collect();
    total += exprs.len() as u64;
    for (o, bad) in eres {
        ok_count += o;
        for (e, m) in bad {
            let num = NUMS.iter().rev().find(|n| e.contains(*n)).copied().unwrap_or("-");
            let ctx = if e.contains("..") { "slice" } else if e.contains('[') { "index" } else { "expr" };
            let sig = format!("C08:expr-panic:{ctx}:{num}");
            panics.entry(sig).or_insert((e, m));
        }
    }
    let _ = std::panic::take_hook();
    part.evaluations = total;
    part.states = total;
    part.transitions = total;
    part.distinct_nontrivial = ok_count;
    part.distinct_outcomes = 2 + panics.len() as u64;
    for (sig, (line, m)) in panics {
        part.violate(sig, format!("input {line:?} panics: {}", m.lines().next().unwrap_or("")), json!({"engine":"c08-parse","line":line}));
    }
    part.sample(json!({"line": "break remove 4294967296"}));
    part.sample(json!({"expr": "a[0..18446744073709551616]"}));
    part
}

pub fn replay(v: &serde_json::Value) -> i32 {
    let line = v["line"].as_str().unwrap_or("");
    std::panic::set_hook(Box::new(|_| {}));
    let a = try_parse(line);
    let b = try_expr(line);
    println!("Command::parse({line:?}) -> {a:?}; expression::parser -> {b:?}");
    if a.is_err() || b.is_err() { 1 } else { 0 }
}


/// C08 (b): executing data queries and boundary-valued commands on a live session.
pub fn part_exec(tier: Tier) -> Part {
    use serde_json::json;
    let mut part = Part::new("c08_exec");
    part.rule = "at a stop in a std-linked program with 25 locals of collection, pointer, enum, slice, static and thread-local types: every data-query expression base + up to 2 (quick) / 3 (thorough, reduced operator set) operators over 18 bases x 30 operators (indexes 0, 1, len, u64::MAX, negative; ranges incl. reversed and past the end; fields, tuple fields, deref, address-of, canonical, casts of bogus addresses, string / struct-pattern keys) is parsed by the real parser and evaluated with read_variable + read_argument + names + a full walk of the value tree; then ~250 boundary-valued API calls (frame / thread / breakpoint / watchpoint numbers, memory addresses and lengths, register names, file:line and function designators). No panic, nothing slower than 5 s, registers and text of the debuggee unchanged, the session continues to the program's normal end".into();
    let (exe, file, line) = match crate::c06s::ensure_built(3, 5) {
        Ok(x) => x,
        Err(e) => {
            part.violate("MACHINERY:std-build", e, json!(null));
            return part;
        }
    };
    let bases = ["s_utf8", "v_i32", "v_empty", "vv", "v_str", "vd", "hm", "hm_key", "hs", "bm", "bs", "bx", "rc", "arc", "rcell", "opt_s", "opt_none", "arr", "sl", "tup", "G_U32", "TL_A", "nosuchvar", "n"];
    let ops_full = [
        "[0]", "[1]", "[3]", "[18446744073709551615]", "[-1]", "[0..]", "[..0]", "[3..1]", "[1..999]", "[..]", "[2..2]", "[18446744073709551615..]", "[0..1000000000000]", "[1000000000000]", ".a", ".0", ".__0", ".len", ".value", ".data_ptr", "pre:*", "pre:&", "pre:~", "[\"k\"]", "[{a: 1, b: *}]", "[{a: *}]", "[true]", "[*]", "wrap:(*mut u8){}", "wrap:*((*mut u64)0x10)", "wrap:({})", "wrap:**{}",
    ];
    let ops_small = ["[0]", "[18446744073709551615]", "[3..1]", "[..]", ".__0", ".value", "pre:*", "pre:&", "pre:~", "[{a: *}]"];
    let mut jobs = vec![json!({"op": "c08_sweep", "bases": bases, "ops": ops_full, "depth": 2})];
    if tier == Tier::Thorough {
        jobs.push(json!({"op": "c08_sweep", "bases": bases, "ops": ops_small, "depth": 3}));
    }
    let mut cmds = vec![json!({"op": "break_line", "file": file, "line": line}), json!({"op": "start"})];
    cmds.extend(jobs);
    cmds.push(json!({"op": "continue"}));
    let run = crate::mt::session(&exe, |obs| cmds.get(obs.len()).cloned(), std::time::Duration::from_secs(600), cmds.len());
    let replay = json!({"engine": "mt", "exe": exe, "commands": cmds});
    part.states = run.obs.len() as u64;
    if run.hang_at.is_some() || run.crashed.is_some() {
        part.violate("C08:exec:session-died", format!("hang at command {:?}, crash {:?}", run.hang_at, run.crashed), replay);
        return part;
    }
    for o in &run.obs {
        if o["cmd"]["op"] != "c08_sweep" {
            continue;
        }
        part.evaluations += o["res"]["evaluations"].as_u64().unwrap_or(0);
        part.distinct_nontrivial += o["res"]["with_result"].as_u64().unwrap_or(0);
        part.sample(json!({"expressions": o["res"]["expressions"], "with_result": o["res"]["with_result"], "parse_errors": o["res"]["parse_errors"], "eval_errors": o["res"]["eval_errors"], "api_calls": o["res"]["api_calls"], "slowest": o["res"]["slowest"]}));
        for f in o["res"]["findings"].as_array().cloned().unwrap_or_default() {
            part.violate(f["sig"].as_str().unwrap_or("C08:exec:?").to_string(), f["detail"].as_str().unwrap_or("").to_string(), replay.clone());
        }
    }
    if !run.obs.last().map(|o| o["res"]["kind"] == "exit").unwrap_or(false) {
        part.violate("C08:exec:program-does-not-finish-after-sweep", format!("{:?}", run.obs.last().map(|o| o["res"].clone())), replay);
    }
    part.bounds = json!({"bases": bases.len(), "operators": ops_full.len(), "depth": if tier == Tier::Thorough { 3 } else { 2 }});
    part
}

/// C08 (b2): arbitrary memory images behind typed values.
pub fn part_poison(tier: Tier) -> Part {
    use serde_json::json;
    let mut part = Part::new("c08_poisoned_memory");
    part.rule = "at a stop in the std-linked program: for each of 13 (quick) / 27 locals (String, Vec, nested Vec, VecDeque, HashMap / HashSet incl. tombstoned and struct- / tuple-keyed ones, BTreeMap / BTreeSet, Box, Rc, Arc, Cell, RefCell, Option<String>, slice, tuple) every 8-byte word of its in-memory header (up to 8 words) is overwritten in turn with each of 9 (quick) / 18 poison values (0, 1, 7, 8, 2^20, u64::MAX, 2^63, 2^63-1, -8, a stack address, a non-canonical address, the word's own address, the variable's address, the old value +1 / -1 / with a flipped byte / shifted) through the debugger's own write_memory; with each image the variable, `v[0]`, `v[1..3]`, `*v` and `~v` are evaluated and their value trees walked; then the word is restored. No panic, no abort, no evaluation slower than 60 s (the slowest is reported), peak memory of the debugger below 4 GB, and afterwards the program runs to its normal end with its native output".into();
    let (exe, file, line) = match crate::c06s::ensure_built(3, 5) {
        Ok(x) => x,
        Err(e) => {
            part.violate("MACHINERY:std-build", e, json!(null));
            return part;
        }
    };
    let all = ["s_ascii", "s_utf8", "s_empty", "v_i32", "v_empty", "v_cap", "vv", "v_str", "vd", "vd_del", "hm", "hm_del", "hs_del", "hm_key", "hm_tup", "hs", "bm", "bm_del", "bm_tup", "bs", "bx", "rc", "arc", "rcell", "opt_s", "sl", "tup"];
    // the quick tier takes one variable per decoder
    let quick = ["s_utf8", "v_i32", "vv", "vd", "hm", "hs_del", "bm", "bm_tup", "bs", "rc", "rcell", "opt_s", "sl"];
    let all: Vec<&str> = if tier == Tier::Quick { quick.to_vec() } else { all.to_vec() };
    // independent sessions over slices of the variable list
    let chunks: Vec<Vec<&str>> = all.chunks(1).map(|c| c.to_vec()).collect();
    let native = std::process::Command::new(&exe).output().map(|o| String::from_utf8_lossy(&o.stdout).to_string()).unwrap_or_default();
    let strip = |s: &str| s.lines().filter(|l| !l.starts_with("DBG h")).collect::<Vec<_>>().join("\n");
    let runs: Vec<(Vec<serde_json::Value>, crate::mt::Run)> = {
        use rayon::prelude::*;
        let pool = rayon::ThreadPoolBuilder::new().num_threads(8).build().unwrap();
        pool.install(|| {
            chunks
                .par_iter()
                .map(|vars| {
                    let cmds = vec![json!({"op": "break_line", "file": file, "line": line}), json!({"op": "start"}), json!({"op": "c08_poison", "vars": vars, "all_poisons": tier == Tier::Thorough}), json!({"op": "continue"})];
                    let run = crate::mt::session(&exe, |obs| cmds.get(obs.len()).cloned(), std::time::Duration::from_secs(600), cmds.len());
                    (cmds, run)
                })
                .collect()
        })
    };
    let mut vars_covered = 0u64;
    for (cmds, run) in runs {
        let replay = json!({"engine": "mt", "exe": exe, "commands": cmds});
        part.states += run.obs.len() as u64;
        part.traces_validated += 1;
        if run.hang_at.is_some() || run.crashed.is_some() || run.obs.len() < 4 {
            part.violate("C08:poison:session-died", format!("variables {}: hang at command {:?}, crash {:?}", cmds[2]["vars"], run.hang_at, run.crashed.as_ref().map(|c| c.chars().take(300).collect::<String>())), replay);
            continue;
        }
        let r = &run.obs[2]["res"];
        part.evaluations += r["evaluations"].as_u64().unwrap_or(0);
        part.transitions += r["images"].as_u64().unwrap_or(0);
        part.distinct_nontrivial += r["with_value"].as_u64().unwrap_or(0);
        vars_covered += r["variables"].as_array().map(|a| a.len() as u64).unwrap_or(0);
        for f in r["findings"].as_array().cloned().unwrap_or_default() {
            part.violate(f["sig"].as_str().unwrap_or("C08:poison:?").to_string(), f["detail"].as_str().unwrap_or("").to_string(), replay.clone());
        }
        if part.samples.len() < 16 {
            part.sample(json!({"wall_ms": r["wall_ms"], "variables": r["variables"], "images": r["images"], "evaluations": r["evaluations"], "evaluations_with_a_value": r["with_value"], "slowest": r["slowest"], "peak_rss_kb": r["peak_rss_kb"]}));
        }
        let stdout = run.result.as_ref().and_then(|r| r["stdout"].as_str()).unwrap_or("").to_string();
        if run.obs[3]["res"]["kind"] != "exit" || strip(&stdout) != strip(&native) {
            part.violate("C08:poison:program-does-not-finish-natively-after-the-sweep", format!("variables {}: {} stdout {:?}", cmds[2]["vars"], run.obs[3]["res"], stdout.chars().take(200).collect::<String>()), replay);
        }
    }
    if vars_covered < all.len() as u64 - 2 {
        part.violate("MACHINERY:poison-variables-not-found", format!("{vars_covered} of {} variables had an address and a size", all.len()), json!(null));
    }
    part.bounds = json!({"variables": all.len(), "words_per_variable": "<= 8", "poison_values": if tier == Tier::Thorough { 18 } else { 9 }, "expressions_per_image": 5});
    part
}

/// C08 (c): boundary-valued and ill-typed arguments for the data requests of the DAP adapter.
pub fn part_dap_args(tier: Tier) -> Part {
    use crate::c15d::Dap;
    use crate::isession::ISession;
    use serde_json::{Value, json};
    use std::time::Duration;
    let mut part = Part::new("c08_dap_arguments");
    part.rule = "through the real DAP adapter, stopped at a breakpoint: ~530 requests for 22 stop-time commands (stackTrace, scopes, variables, setVariable, evaluate, setExpression, completions, readMemory, writeMemory, disassemble, dataBreakpointInfo, setDataBreakpoints, breakpointLocations, gotoTargets, goto, restartFrame, stepInTargets, exceptionInfo, source, modules, loadedSources, terminateThreads) with missing, ill-typed, negative, zero, huge (2^31, 2^53, 2^63) and dangling arguments; each request gets exactly one response, the adapter stays alive (a final `threads` is answered), nothing takes longer than 10 s, the text of the debuggee is unchanged and the program continues to its normal end".into();
    let prog = crate::corpus::generate_custom("p_dapdata", crate::c15d::FN_TEXT, "    a = a.wrapping_add(dv(a));");
    let built = match crate::corpus::build(&prog, &crate::corpus::Config::default_cfg()) {
        Ok(b) => b,
        Err(e) => {
            part.violate("MACHINERY:build", e, json!(null));
            return part;
        }
    };
    let native = std::process::Command::new(&built.exe).output().map(|o| String::from_utf8_lossy(&o.stdout).to_string()).unwrap_or_default();
    let src_text = std::fs::read_to_string(&built.src_path).unwrap_or_default();
    let line = src_text.lines().position(|l| l.contains("acc = acc.wrapping_add(1);")).map(|i| i as u64 + 1).unwrap_or(0);
    let replay = json!({"engine": "c08-dap-args", "exe": built.exe});
    let sess = match ISession::start("dap", &json!({"exe": built.exe, "main_entry_sp": 0})) {
        Ok(s) => s,
        Err(e) => {
            part.violate("MACHINERY:worker", e, replay);
            return part;
        }
    };
    let mut d = Dap { sess, seq: 0, pid: 0 };
    let src = json!({"path": built.src_path, "name": built.program.src_file});
    let run = (|| -> Result<(), String> {
        d.send("initialize", json!({"adapterID": "bsmc"}))?;
        d.send("launch", json!({"program": built.exe, "args": []}))?;
        d.send("setBreakpoints", json!({"source": src, "breakpoints": [{"line": line}]}))?;
        let cd = d.send("configurationDone", json!({}))?;
        let tid = cd["wire"].as_array().and_then(|w| w.iter().find(|m| m["event"] == "stopped").and_then(|m| m["body"]["threadId"].as_i64())).ok_or("no stopped event")?;
        let st = d.send("stackTrace", json!({"threadId": tid}))?;
        let fid = st["resp"]["body"]["stackFrames"][0]["id"].as_i64().unwrap_or(0);
        let sc = d.send("scopes", json!({"frameId": fid}))?;
        let vref = sc["resp"]["body"]["scopes"][0]["variablesReference"].as_i64().unwrap_or(0);
        let text0 = {
            let o = d.send("threads", json!({}))?;
            o["wire"].clone()
        };
        let _ = text0;
        let nums: Vec<Value> = vec![json!(-1), json!(0), json!(1), json!(2147483647i64), json!(2147483648i64), json!(9007199254740993i64), json!(i64::MAX), json!(i64::MIN), json!(1.5), json!("7"), json!(null), json!(true), json!([1]), json!({"a": 1})];
        let strs: Vec<Value> = vec![json!(""), json!("v_u8"), json!("nosuch"), json!("v_arr[18446744073709551615]"), json!("*(*mut u8)0x0"), json!("((("), json!("v_arr[0..1000000000000]"), json!("\u{0}"), json!("0x"), json!("0xffffffffffffffffff"), json!("-0x10"), json!(17), json!(null), json!(["x"])];
        let mut reqs: Vec<(&str, Value)> = vec![];
        for n in &nums {
            reqs.push(("stackTrace", json!({"threadId": n})));
            reqs.push(("stackTrace", json!({"threadId": tid, "startFrame": n, "levels": n})));
            reqs.push(("scopes", json!({"frameId": n})));
            reqs.push(("variables", json!({"variablesReference": n})));
            reqs.push(("variables", json!({"variablesReference": vref, "start": n, "count": n})));
            reqs.push(("setVariable", json!({"variablesReference": n, "name": "v_u8", "value": "1"})));
            reqs.push(("readMemory", json!({"memoryReference": "0x7fffffffe000", "offset": n, "count": 8})));
            reqs.push(("readMemory", json!({"memoryReference": "0x7fffffffe000", "count": n})));
            reqs.push(("writeMemory", json!({"memoryReference": "0x10", "offset": n, "data": "AAAA"})));
            reqs.push(("disassemble", json!({"memoryReference": "0x555555555000", "instructionCount": n, "instructionOffset": n, "offset": n})));
            reqs.push(("restartFrame", json!({"frameId": n})));
            reqs.push(("stepInTargets", json!({"frameId": n})));
            reqs.push(("gotoTargets", json!({"source": src, "line": n})));
            // (a non-negative integer target is an address the adapter is asked to jump to: obeying
            // it is correct and wrecks the program, so only targets that must be refused are sent)
            if n.as_i64().map(|x| x < 0).unwrap_or(true) {
                reqs.push(("goto", json!({"threadId": tid, "targetId": n})));
            }
            reqs.push(("breakpointLocations", json!({"source": src, "line": n, "endLine": n})));
            reqs.push(("exceptionInfo", json!({"threadId": n})));
            reqs.push(("terminateThreads", json!({"threadIds": [n]})));
            reqs.push(("source", json!({"sourceReference": n})));
            reqs.push(("modules", json!({"startModule": n, "moduleCount": n})));
            reqs.push(("evaluate", json!({"expression": "v_u8", "frameId": n})));
        }
        for s in &strs {
            reqs.push(("evaluate", json!({"expression": s, "frameId": fid})));
            reqs.push(("evaluate", json!({"expression": s, "context": s})));
            reqs.push(("setExpression", json!({"expression": s, "value": "1", "frameId": fid})));
            reqs.push(("setExpression", json!({"expression": "v_u8", "value": s, "frameId": fid})));
            reqs.push(("setVariable", json!({"variablesReference": vref, "name": s, "value": "1"})));
            reqs.push(("setVariable", json!({"variablesReference": vref, "name": "v_i8", "value": s})));
            reqs.push(("completions", json!({"text": s, "column": 1})));
            reqs.push(("readMemory", json!({"memoryReference": s, "count": 8})));
            reqs.push(("writeMemory", json!({"memoryReference": s, "data": "AAAA"})));
            reqs.push(("writeMemory", json!({"memoryReference": "0x10", "data": s})));
            reqs.push(("disassemble", json!({"memoryReference": s, "instructionCount": 4})));
            reqs.push(("dataBreakpointInfo", json!({"name": s, "variablesReference": vref})));
            reqs.push(("dataBreakpointInfo", json!({"name": s, "asAddress": true, "bytes": 8})));
            reqs.push(("setDataBreakpoints", json!({"breakpoints": [{"dataId": s, "accessType": "write"}]})));
            reqs.push(("breakpointLocations", json!({"source": {"path": s}, "line": 1})));
            reqs.push(("source", json!({"source": {"path": s}, "sourceReference": 0})));
        }
        // positions inside a text: every column around the ends of ASCII and non-ASCII texts
        // (characters and bytes differ in the second kind), and lines
        for text in ["", "v", "v_u8", "v_u8.", "h\u{e9}llo", "\u{2713}", "v_\u{e9}\u{2713}x", "a\tb"] {
            for col in [-1i64, 0, 1, 2, 3, 4, 5, 6, 7, 8, 9, 12, 1 << 31, i64::MAX] {
                reqs.push(("completions", json!({"text": text, "column": col})));
            }
            reqs.push(("completions", json!({"text": text, "column": 2, "line": 0})));
            reqs.push(("completions", json!({"text": text, "column": 2, "line": i64::MAX})));
        }
        reqs.push(("setDataBreakpoints", json!({"breakpoints": []})));
        reqs.push(("loadedSources", json!({})));
        reqs.push(("variables", json!({})));
        reqs.push(("readMemory", json!({})));
        reqs.push(("evaluate", json!(null)));
        reqs.push(("scopes", json!([1, 2])));
        if let Ok(only) = std::env::var("BSMC_DAP_ONLY") {
            let keep: Vec<&str> = only.split(',').collect();
            reqs.retain(|(c, _)| keep.contains(c));
        }
        if let Ok(skip) = std::env::var("BSMC_DAP_SKIP") {
            let drop: Vec<&str> = skip.split(',').collect();
            reqs.retain(|(c, _)| !drop.contains(c));
        }
        let limit = if tier == Tier::Quick { reqs.len() } else { reqs.len() };
        for (cmd, args) in reqs.into_iter().take(limit) {
            part.evaluations += 1;
            let t0 = std::time::Instant::now();
            let r = d.send(cmd, args.clone()).map_err(|e| format!("after {} requests: {cmd} {args}: {e}", part.evaluations))?;
            let ms = t0.elapsed().as_millis();
            let n_resp = r["wire"].as_array().map(|w| w.iter().filter(|m| m["type"] == "response").count()).unwrap_or(0);
            if n_resp != 1 {
                part.violate("C08:dap-args:not-exactly-one-response", format!("{cmd} {args}: {n_resp} responses"), replay.clone());
            }
            if ms > 10_000 {
                part.violate("C08:dap-args:request-hangs", format!("{cmd} {args}: {ms} ms"), replay.clone());
            }
            if r["resp"]["success"] == true {
                part.distinct_nontrivial += 1;
            }
        }
        // still alive and sane
        let th = d.send("threads", json!({}))?;
        if th["resp"]["success"] != true {
            part.violate("C08:dap-args:adapter-unusable-afterwards", format!("threads -> {}", th["resp"]), replay.clone());
        }
        // (setVariable / setExpression / goto with accepted values legitimately change the program:
        // the run to the end is only required to happen, not to print native values)
        let fin = d.send("continue", json!({"threadId": tid}))?;
        let ended = fin["wire"].as_array().map(|w| w.iter().any(|m| m["event"] == "exited" || m["event"] == "terminated" || m["event"] == "stopped")).unwrap_or(false);
        if !ended {
            let more = d.send("threads", json!({}))?;
            part.violate("C08:dap-args:continue-does-not-come-back", format!("{} then threads -> {}", fin["wire"], more["wire"]), replay.clone());
        }
        part.sample(json!({"requests": part.evaluations, "accepted": part.distinct_nontrivial, "native_output_lines": native.lines().count()}));
        Ok(())
    })();
    if let Err(e) = run {
        part.violate("C08:dap-args:session-died", e, replay);
    }
    let _ = d.sess.end(Duration::from_secs(10));
    part.states = part.evaluations;
    part.traces_validated = 1;
    part
}
