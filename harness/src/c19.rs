//! C19 — only what is in scope is shown, and it belongs to the selected frame.
//! C06 (core types) — values shown are the values the program holds.

use crate::common::*;
use crate::corpus::{self, Config};
use crate::e2x::*;
use rayon::prelude::*;
use serde_json::{Value, json};
use std::time::Duration;

// ------------------------------------------------------------------------------------------ C19

#[derive(Clone, Debug)]
pub enum Item {
    /// `let <name> = n * 1000 + <k>;` followed by the stop line `acc += <name>;`
    Decl(&'static str, u64),
    Nest(Vec<Item>),
}

/// All scope skeletons: blocks of up to `width` items, nesting up to `depth`.
fn skeletons(width: usize, depth: usize) -> Vec<Vec<Item>> {
    fn blocks(width: usize, depth: usize, counter: &mut u64) -> Vec<Vec<Item>> {
        let _ = counter;
        let mut atoms: Vec<Item> = vec![Item::Decl("x", 0), Item::Decl("y", 0)];
        if depth > 0 {
            for b in blocks(2, depth - 1, counter) {
                atoms.push(Item::Nest(b));
            }
        }
        let mut out: Vec<Vec<Item>> = vec![];
        let mut level: Vec<Vec<Item>> = vec![vec![]];
        for _ in 0..width {
            let mut next = vec![];
            for b in &level {
                for a in &atoms {
                    let mut nb = b.clone();
                    nb.push(a.clone());
                    next.push(nb);
                }
            }
            out.extend(next.iter().cloned());
            level = next;
            if out.len() > 4000 {
                break;
            }
        }
        out
    }
    let mut c = 0;
    let mut all = blocks(width, depth, &mut c);
    // interesting = at least one shadowing or one nested block; simplest first
    all.retain(|b| {
        fn names(b: &[Item], v: &mut Vec<&'static str>, nested: &mut bool) {
            for i in b {
                match i {
                    Item::Decl(n, _) => v.push(n),
                    Item::Nest(x) => {
                        *nested = true;
                        names(x, v, nested)
                    }
                }
            }
        }
        let mut v = vec![];
        let mut nested = false;
        names(b, &mut v, &mut nested);
        let shadow = v.iter().filter(|n| **n == "x").count() > 1 || v.iter().filter(|n| **n == "y").count() > 1;
        (shadow || nested) && v.len() >= 2
    });
    all
}

pub struct ScopeProg {
    pub source_fn: String,
    /// per stop line: (line offset inside the fn text, visible bindings innermost-last (name, k), later/sibling names that must not show)
    /// third field: the binding whose declaration line this stop is (not initialized yet)
    pub stops: Vec<(u32, Vec<(&'static str, u64)>, Option<(&'static str, u64)>)>,
    pub call_line_scope: Vec<(&'static str, u64)>,
    pub call_line: u32,
    pub all_decls: Vec<(&'static str, u64)>,
}

fn render(items: &[Item]) -> ScopeProg {
    let mut text = String::new();
    let mut line = 0u32;
    let mut k = 100u64;
    let mut stops = vec![];
    let mut all = vec![];
    fn emit(items: &[Item], indent: usize, text: &mut String, line: &mut u32, k: &mut u64, scope: &mut Vec<(&'static str, u64)>, stops: &mut Vec<(u32, Vec<(&'static str, u64)>, Option<(&'static str, u64)>)>, all: &mut Vec<(&'static str, u64)>) {
        let pad = " ".repeat(indent);
        let mark = scope.len();
        for it in items {
            match it {
                Item::Decl(n, _) => {
                    *k += 1;
                    text.push_str(&format!("{pad}let {n} = n * 1000 + {};\n", *k));
                    *line += 1;
                    // the declaration line itself is a stop position too: the new binding is not
                    // alive yet, everything declared before (and not closed) is
                    stops.push((*line, scope.clone(), Some((*n, *k))));
                    scope.push((n, *k));
                    all.push((*n, *k));
                    text.push_str(&format!("{pad}acc = acc.wrapping_add({n});\n"));
                    *line += 1;
                    stops.push((*line, scope.clone(), None));
                }
                Item::Nest(b) => {
                    text.push_str(&format!("{pad}{{\n"));
                    *line += 1;
                    emit(b, indent + 4, text, line, k, scope, stops, all);
                    text.push_str(&format!("{pad}}}\n"));
                    *line += 1;
                }
            }
        }
        scope.truncate(mark);
    }
    text.push_str("#[inline(never)]\nfn scope(n: u64) -> u64 {\n    let mut acc = n;\n");
    line += 3;
    let mut scope = vec![];
    // top-level items stay in scope until the end of the function
    let pad = 4;
    {
        let mut sc = vec![];
        emit_top(items, pad, &mut text, &mut line, &mut k, &mut sc, &mut stops, &mut all);
        scope = sc;
    }
    fn emit_top(items: &[Item], indent: usize, text: &mut String, line: &mut u32, k: &mut u64, scope: &mut Vec<(&'static str, u64)>, stops: &mut Vec<(u32, Vec<(&'static str, u64)>, Option<(&'static str, u64)>)>, all: &mut Vec<(&'static str, u64)>) {
        let pad = " ".repeat(indent);
        for it in items {
            match it {
                Item::Decl(n, _) => {
                    *k += 1;
                    text.push_str(&format!("{pad}let {n} = n * 1000 + {};\n", *k));
                    *line += 1;
                    // the declaration line itself is a stop position too: the new binding is not
                    // alive yet, everything declared before (and not closed) is
                    stops.push((*line, scope.clone(), Some((*n, *k))));
                    scope.push((n, *k));
                    all.push((*n, *k));
                    text.push_str(&format!("{pad}acc = acc.wrapping_add({n});\n"));
                    *line += 1;
                    stops.push((*line, scope.clone(), None));
                }
                Item::Nest(b) => {
                    text.push_str(&format!("{pad}{{\n"));
                    *line += 1;
                    emit(b, indent + 4, text, line, k, scope, stops, all);
                    text.push_str(&format!("{pad}}}\n"));
                    *line += 1;
                }
            }
        }
    }
    text.push_str("    if n > 0 {\n");
    line += 1;
    text.push_str("        acc = acc.wrapping_add(scope(n - 1));\n");
    line += 1;
    let call_line = line;
    text.push_str("    }\n    acc\n}\n");
    ScopeProg { source_fn: text, stops, call_line_scope: scope, call_line, all_decls: all }
}

fn scalar_u64(v: &Value) -> Option<u64> {
    if v["k"] == "scalar" { v["v"].as_str().and_then(|s| s.parse().ok()) } else { None }
}

pub fn part_c19(tier: Tier) -> Part {
    let mut part = Part::new("scope-and-frame-selection");
    let sk = skeletons(3, 1);
    let take = if tier == Tier::Quick { 10 } else { 120 };
    // spread over the enumeration (simplest first, then every n-th)
    let step = (sk.len() / take).max(1);
    let chosen: Vec<Vec<Item>> = sk.iter().step_by(step).take(take).cloned().collect();
    part.bounds = json!({"skeletons_enumerated": sk.len(), "skeletons_run": chosen.len(), "names": ["x", "y"], "block_width": 3, "nesting": 1, "recursion_depth": 3, "opt_levels": [0]});
    part.rule = "scope skeletons (blocks of up to 3 items over {let x, let y, nested block}, kept if they shadow or nest) are rendered into a recursive function whose every declaration is followed by a stop line; at every stop of every activation (recursion depth 3) and for every frame of the backtrace: the locals shown must contain every innermost live binding with that activation's value and no binding declared later or in an already closed block; `var <name>` must return exactly the innermost live binding; `arg all` must show that activation's n. Non-trivial = (stop, frame) pairs checked".into();
    let results: Vec<(usize, Result<Value, String>)> = chosen
        .par_iter()
        .enumerate()
        .map(|(i, items)| (i, run_scope(i, items)))
        .collect();
    for (i, r) in results {
        match r {
            Ok(v) => {
                part.states += v["stops"].as_u64().unwrap_or(0);
                part.evaluations += v["checks"].as_u64().unwrap_or(0);
                part.distinct_nontrivial += v["checks"].as_u64().unwrap_or(0);
                for f in v["findings"].as_array().cloned().unwrap_or_default() {
                    part.violate(f["sig"].as_str().unwrap_or("C19:?"), f["detail"].as_str().unwrap_or(""), json!({"engine":"c19","skeleton":i,"tier":tier.as_str()}));
                }
                if i % 4 == 0 {
                    part.sample(json!({"skeleton": i, "function": v["source"], "stops": v["stops"]}));
                }
            }
            Err(e) => {
                part.violate("C19:machinery", e, json!({"engine":"c19","skeleton":i}));
                part.exhaustive = false;
            }
        }
    }
    part.transitions = part.evaluations;
    part.traces_validated = part.states;
    part
}

fn run_scope(i: usize, items: &[Item]) -> Result<Value, String> {
    let sp = render(items);
    let name = format!("p_scope{i}");
    let mut prog = corpus::generate_custom(&name, &sp.source_fn, "    a = a.wrapping_add(scope(2));");
    let fn_first_line = prog.lines.iter().find(|(_, m)| m == "custom.start").map(|(l, _)| *l).unwrap_or(1);
    prog.lines.retain(|(_, m)| m != "custom.start");
    let built = corpus::build(&prog, &Config::default_cfg())?;
    let p = prepare(vec![built])?.remove(0);
    let file = p.built.program.src_file.clone();
    let mut cmds = vec![];
    for (l, _, _) in &sp.stops {
        cmds.push(json!({"op":"break_line","file":file,"line":fn_first_line + l - 1}));
    }
    cmds.push(json!({"op":"start"}));
    let total_stops = sp.stops.len() * 3;
    for _ in 0..total_stops {
        cmds.push(json!({"op":"values","names":["x","y","acc","n"],"frames":3}));
        cmds.push(json!({"op":"continue"}));
    }
    let mut job = init_json(&p, false);
    job["commands"] = json!(cmds);
    let out = run_worker("e2e", &job, Duration::from_secs(120));
    let WorkerOutcome::Ok(res) = out else {
        return Err(format!("[{name}] worker failed: {out:?}"));
    };
    let obs = res["obs"].as_array().cloned().unwrap_or_default();
    let mut findings = vec![];
    let mut checks = 0u64;
    let mut stops_seen = 0u64;
    // expected sequence of stops: activation n=2 all stop lines, then n=1, then n=0 (the call is last)
    let mut expect: Vec<(u64, usize)> = vec![];
    for n in [2u64, 1, 0] {
        for si in 0..sp.stops.len() {
            expect.push((n, si));
        }
    }
    let val_obs: Vec<&Value> = obs.iter().filter(|o| o["cmd"]["op"] == "values").collect();
    for (idx, (n, si)) in expect.iter().enumerate() {
        let Some(o) = val_obs.get(idx) else {
            findings.push(json!({"sig":"C19:machinery:missing-stop","detail":format!("[{name}] stop #{idx} missing")}));
            break;
        };
        stops_seen += 1;
        let frames = o["res"]["frames"].as_array().cloned().unwrap_or_default();
        let depth_here = (2 - n) as usize; // number of outer activations
        for (k, fr) in frames.iter().enumerate() {
            if k > depth_here {
                break;
            }
            checks += 1;
            let act_n = n + k as u64;
            let (scope, line): (&Vec<(&str, u64)>, u32) = if k == 0 { (&sp.stops[*si].1, sp.stops[*si].0) } else { (&sp.call_line_scope, sp.call_line) };
            // the binding being declared on this very line (frame 0 only): it may show up with
            // whatever the stack slot holds, and its name may already resolve to it
            let pending: Option<&str> = if k == 0 { sp.stops[*si].2.map(|p| p.0) } else { None };
            let ctx = format!("[{name}] activation n={act_n} (frame {k}) at fn line {line}, skeleton:\n{}", sp.source_fn);
            // shown locals
            let shown: Vec<(String, Option<u64>)> = fr["locals"]["Ok"].as_array().map(|a| a.iter().map(|e| (e["name"].as_str().unwrap_or("?").to_string(), scalar_u64(&e["v"]))).collect()).unwrap_or_default();
            if fr["locals"].get("Err").is_some() {
                findings.push(json!({"sig":"C19:locals:error","detail":format!("{ctx}\nread_local_variables failed: {}", fr["locals"]["Err"])}));
                continue;
            }
            let in_scope: Vec<(String, u64)> = scope.iter().map(|(nm, kk)| (nm.to_string(), act_n * 1000 + kk)).collect();
            // innermost live binding per name
            for nm in ["x", "y"] {
                if Some(nm) == pending {
                    continue;
                }
                if let Some((_, val)) = in_scope.iter().rev().find(|(n2, _)| n2 == nm) {
                    if !shown.iter().any(|(sn, sv)| sn == nm && *sv == Some(*val)) {
                        findings.push(json!({"sig": format!("C19:locals:innermost-binding-missing-or-wrong{}", if k > 0 { ":outer-frame" } else { "" }), "detail": format!("{ctx}\nlive `{nm}` = {val}, locals shown: {shown:?}")}));
                    }
                }
            }
            // nothing declared later / in a closed block
            for (sn, sv) in &shown {
                if sn == "acc" || sn == "n" {
                    continue;
                }
                let Some(sv) = sv else { continue };
                if Some(sn.as_str()) == pending {
                    continue;
                }
                if !in_scope.iter().any(|(n2, v2)| n2 == sn && v2 == sv) {
                    let decl = sp.all_decls.iter().find(|(n2, kk)| n2 == sn && act_n * 1000 + kk == *sv);
                    let kind = match decl {
                        Some(_) => "binding-of-closed-or-later-scope-shown",
                        None => "value-of-another-activation-or-garbage",
                    };
                    findings.push(json!({"sig": format!("C19:locals:{kind}{}", if k > 0 { ":outer-frame" } else { "" }), "detail": format!("{ctx}\nshown `{sn}` = {sv}, in scope here: {in_scope:?}")}));
                }
            }
            // var <name> = innermost live binding
            for nm in ["x", "y"] {
                if Some(nm) == pending {
                    continue;
                }
                let want = in_scope.iter().rev().find(|(n2, _)| n2 == nm).map(|x| x.1);
                let got: Vec<Option<u64>> = fr["by_name"][nm]["Ok"].as_array().map(|a| a.iter().map(|e| scalar_u64(&e["v"])).collect()).unwrap_or_default();
                match want {
                    Some(w) => {
                        if got.first().copied().flatten() != Some(w) {
                            let shadowed = in_scope.iter().filter(|(n2, _)| n2 == nm).count() > 1;
                            findings.push(json!({"sig": format!("C19:var-name:{}{}", if shadowed { "shadowed-name-resolves-to-outer-binding" } else { "wrong-value" }, if k > 0 { ":outer-frame" } else { "" }), "detail": format!("{ctx}\n`var {nm}` -> {got:?}, innermost live binding = {w}")}));
                        }
                    }
                    None => {
                        if got.iter().any(|g| g.is_some()) {
                            findings.push(json!({"sig": "C19:var-name:out-of-scope-name-resolved", "detail": format!("{ctx}\n`var {nm}` -> {got:?} but no `{nm}` is in scope")}));
                        }
                    }
                }
            }
            // argument of this activation
            let args: Vec<(String, Option<u64>)> = fr["args"]["Ok"].as_array().map(|a| a.iter().map(|e| (e["name"].as_str().unwrap_or("?").to_string(), scalar_u64(&e["v"]))).collect()).unwrap_or_default();
            if !args.iter().any(|(an, av)| an == "n" && *av == Some(act_n)) {
                findings.push(json!({"sig": format!("C19:args:wrong-activation{}", if k > 0 { ":outer-frame" } else { "" }), "detail": format!("{ctx}\n`arg all` -> {args:?}, this activation has n = {act_n}")}));
            }
        }
    }
    Ok(json!({"findings": findings, "checks": checks, "stops": stops_seen, "source": sp.source_fn}))
}

// ------------------------------------------------------------------------------------------ C19 closures

fn closure_fn(mv: bool) -> String {
    format!(
        "#[inline(never)]\nfn clos(n: u64) -> u64 {{\n    let mut acc = n;\n    let x = n * 1000 + 101;\n    let y = n * 1000 + 102;\n    let k = {}|p: u64| -> u64 {{\n        let x2 = p.wrapping_add(x);\n        let y = p * 10 + 7;\n        let r = x2.wrapping_add(y);\n        r\n    }};\n    let z = n * 1000 + 103;\n    acc = acc.wrapping_add(k(n + 5));\n    if n > 0 {{\n        acc = acc.wrapping_add(clos(n - 1));\n    }}\n    acc.wrapping_add(y).wrapping_add(z)\n}}\n",
        if mv { "move " } else { "" }
    )
}

/// Closures: a closure body is a frame of its own whose names (a local `y`, the parameter `p`, a
/// captured `x`) coexist with same-named bindings of the enclosing function one frame up.
pub fn part_c19_closures(_tier: Tier) -> Part {
    let mut part = Part::new("scope-closures");
    part.rule = "a recursive function (depth 3) defines a closure (once capturing by value, once by reference) that declares its own `y` while the enclosing function has `y`, `x` (captured) and a later `z`, and calls it; at every statement of the closure body, for the closure frame and the two frames above it: the closure frame must show its parameter p and its own live locals with that activation's values, never a local declared later in the body, never the enclosing function's `y`, `z` or the closure variable; `var y` must be the closure's own y once it is live; the captured `x` (by value) must read that activation's x; the enclosing frames must show their own x, y, z and n and none of the closure's locals. Non-trivial = (stop, frame) pairs checked".into();
    let runs: Vec<(bool, Result<Value, String>)> = [true, false].par_iter().map(|mv| (*mv, run_closure(*mv))).collect();
    for (mv, r) in runs {
        let replay = json!({"engine":"c19-closure","move":mv});
        match r {
            Ok(v) => {
                part.states += v["stops"].as_u64().unwrap_or(0);
                part.evaluations += v["checks"].as_u64().unwrap_or(0);
                part.distinct_nontrivial += v["checks"].as_u64().unwrap_or(0);
                for f in v["findings"].as_array().cloned().unwrap_or_default() {
                    part.violate(f["sig"].as_str().unwrap_or("C19:?"), f["detail"].as_str().unwrap_or(""), replay.clone());
                }
                part.sample(json!({"capture_by_value": mv, "function": closure_fn(mv), "stops": v["stops"], "example": v["example"]}));
            }
            Err(e) => {
                part.violate("C19:machinery", e, replay);
                part.exhaustive = false;
            }
        }
    }
    part.transitions = part.evaluations;
    part.traces_validated = part.states;
    part
}

pub fn run_closure(mv: bool) -> Result<Value, String> {
    let name = format!("p_closure_{}", if mv { "move" } else { "ref" });
    let text = closure_fn(mv);
    let mut prog = corpus::generate_custom(&name, &text, "    a = a.wrapping_add(clos(2));");
    let first = prog.lines.iter().find(|(_, m)| m == "custom.start").map(|(l, _)| *l).unwrap_or(1);
    prog.lines.retain(|(_, m)| m != "custom.start");
    let built = corpus::build(&prog, &Config::default_cfg())?;
    let p = prepare(vec![built])?.remove(0);
    let file = p.built.program.src_file.clone();
    // body lines of the closure inside the fn text (1-based): 7 `let x2`, 8 `let y`, 9 `let r`
    // (the tail expression `r` on line 10 gets no code of its own: a breakpoint there lands on
    // the closing brace, past the end of the lexical blocks, where DWARF declares nothing live)
    let body = [7u32, 8, 9];
    let (call_line, rec_line) = (13u32, 15u32);
    let mut cmds = vec![];
    for l in body {
        cmds.push(json!({"op":"break_line","file":file,"line":first + l - 1}));
    }
    cmds.push(json!({"op":"start"}));
    for _ in 0..body.len() * 3 {
        cmds.push(json!({"op":"values","names":["x","y","z","x2","r","p","k"],"frames":3}));
        cmds.push(json!({"op":"continue"}));
    }
    let mut job = init_json(&p, false);
    job["commands"] = json!(cmds);
    let out = run_worker("e2e", &job, Duration::from_secs(120));
    let WorkerOutcome::Ok(res) = out else {
        return Err(format!("[{name}] worker failed: {out:?}"));
    };
    let obs = res["obs"].as_array().cloned().unwrap_or_default();
    let val_obs: Vec<&Value> = obs.iter().filter(|o| o["cmd"]["op"] == "values").collect();
    let mut findings = vec![];
    let mut checks = 0u64;
    let mut stops = 0u64;
    let mut example = Value::Null;
    let mut idx = 0;
    for n in [2u64, 1, 0] {
        for (bi, bl) in body.iter().enumerate() {
            let Some(o) = val_obs.get(idx) else {
                findings.push(json!({"sig":"C19:machinery:missing-stop","detail":format!("[{name}] stop #{idx} missing")}));
                return Ok(json!({"findings": findings, "checks": checks, "stops": stops}));
            };
            idx += 1;
            stops += 1;
            let frames = o["res"]["frames"].as_array().cloned().unwrap_or_default();
            if example.is_null() && bi == 2 {
                example = json!({"closure_frame_locals": frames.first().map(|f| f["locals"].clone()), "closure_frame_args": frames.first().map(|f| f["args"].clone())});
            }
            let pv = n + 5;
            let xv = n * 1000 + 101;
            let x2 = pv + xv;
            let yc = pv * 10 + 7;
            let r = x2 + yc;
            for (k, fr) in frames.iter().enumerate().take(3) {
                // frame 0: closure; frame 1: clos(n) at the call line; frame 2: clos(n+1) at the recursive call
                if k == 2 && n == 2 {
                    break;
                }
                checks += 1;
                let ctx = format!("[{name}] activation n={n}, closure body line {bl}, frame {k}\n{text}");
                if fr["locals"].get("Err").is_some() {
                    findings.push(json!({"sig":"C19:locals:error:closure","detail":format!("{ctx}\nread_local_variables failed: {}", fr["locals"]["Err"])}));
                    continue;
                }
                let shown: Vec<(String, Option<u64>)> = fr["locals"]["Ok"].as_array().map(|a| a.iter().map(|e| (e["name"].as_str().unwrap_or("?").to_string(), scalar_u64(&e["v"]))).collect()).unwrap_or_default();
                let args: Vec<(String, Option<u64>)> = fr["args"]["Ok"].as_array().map(|a| a.iter().map(|e| (e["name"].as_str().unwrap_or("?").to_string(), scalar_u64(&e["v"]))).collect()).unwrap_or_default();
                let by = |nm: &str| -> Vec<Option<u64>> { fr["by_name"][nm]["Ok"].as_array().map(|a| a.iter().map(|e| scalar_u64(&e["v"])).collect()).unwrap_or_default() };
                if k == 0 {
                    // live closure locals: declared on an earlier body line
                    let live: Vec<(&str, u64)> = [("x2", x2), ("y", yc), ("r", r)].into_iter().take(bi).collect();
                    let pending = ["x2", "y", "r"][bi];
                    for (nm, v) in &live {
                        if !shown.iter().any(|(sn, sv)| sn == nm && *sv == Some(*v)) {
                            findings.push(json!({"sig":"C19:locals:innermost-binding-missing-or-wrong:closure","detail":format!("{ctx}\nlive `{nm}` = {v}, locals shown: {shown:?}")}));
                        }
                        if by(nm).first().copied().flatten() != Some(*v) {
                            findings.push(json!({"sig": format!("C19:var-name:{}:closure", if *nm == "y" { "name-resolves-to-a-binding-of-the-enclosing-function" } else { "wrong-value" }), "detail": format!("{ctx}\n`var {nm}` -> {:?}, the closure's own binding = {v}", by(nm))}));
                        }
                    }
                    // nothing declared later in the body, nothing of the enclosing function that was not captured
                    let later: Vec<&str> = ["x2", "y", "r"].into_iter().skip(bi + 1).collect();
                    for (sn, sv) in &shown {
                        if later.contains(&sn.as_str()) && sn != pending {
                            findings.push(json!({"sig":"C19:locals:binding-of-closed-or-later-scope-shown:closure","detail":format!("{ctx}\nshown `{sn}` = {sv:?}, declared later in the closure body")}));
                        }
                        if sn == "z" || sn == "k" || sn == "acc" || (sn == "y" && *sv == Some(n * 1000 + 102)) {
                            findings.push(json!({"sig":"C19:locals:binding-of-the-enclosing-function-shown-in-closure","detail":format!("{ctx}\nshown `{sn}` = {sv:?}: not captured, belongs to the frame above")}));
                        }
                    }
                    for nm in ["z", "k"] {
                        if !by(nm).is_empty() {
                            findings.push(json!({"sig":"C19:var-name:out-of-scope-name-resolved:closure","detail":format!("{ctx}\n`var {nm}` -> {:?} inside the closure", by(nm))}));
                        }
                    }
                    if !args.iter().any(|(an, av)| an == "p" && *av == Some(pv)) {
                        findings.push(json!({"sig":"C19:args:wrong-activation:closure","detail":format!("{ctx}\n`arg all` -> {args:?}, the closure was called with p = {pv}")}));
                    }
                    if mv {
                        // captured by value: rustc describes `x` inside the closure; it must read this activation's x
                        let gx = by("x");
                        let sx: Vec<Option<u64>> = shown.iter().filter(|(sn, _)| sn == "x").map(|(_, v)| *v).collect();
                        for g in gx.iter().chain(sx.iter()) {
                            if g.is_some() && *g != Some(xv) {
                                findings.push(json!({"sig":"C19:closure:captured-variable-wrong-value","detail":format!("{ctx}\ncaptured `x` shown as {g:?}, this activation captured {xv}")}));
                            }
                        }
                    }
                } else {
                    let an = n + (k as u64 - 1);
                    let _ = (call_line, rec_line);
                    for (nm, v) in [("x", an * 1000 + 101), ("y", an * 1000 + 102), ("z", an * 1000 + 103)] {
                        if !shown.iter().any(|(sn, sv)| sn == nm && *sv == Some(v)) {
                            findings.push(json!({"sig":"C19:locals:innermost-binding-missing-or-wrong:outer-frame:closure","detail":format!("{ctx}\nframe {k} is clos({an}): live `{nm}` = {v}, locals shown: {shown:?}")}));
                        }
                        if by(nm).first().copied().flatten() != Some(v) {
                            findings.push(json!({"sig":"C19:var-name:wrong-value:outer-frame:closure","detail":format!("{ctx}\nframe {k} is clos({an}): `var {nm}` -> {:?}, expected {v}", by(nm))}));
                        }
                    }
                    for (sn, sv) in &shown {
                        if sn == "x2" || sn == "r" || sn == "p" {
                            findings.push(json!({"sig":"C19:locals:closure-binding-shown-in-enclosing-frame","detail":format!("{ctx}\nframe {k} is clos({an}) and shows `{sn}` = {sv:?}")}));
                        }
                    }
                    if !args.iter().any(|(a2, av)| a2 == "n" && *av == Some(an)) {
                        findings.push(json!({"sig":"C19:args:wrong-activation:outer-frame:closure","detail":format!("{ctx}\nframe {k}: `arg all` -> {args:?}, this activation has n = {an}")}));
                    }
                }
            }
        }
    }
    Ok(json!({"findings": findings, "checks": checks, "stops": stops, "example": example}))
}

pub fn replay(v: &Value) -> i32 {
    let sk = skeletons(3, 1);
    let take = if v["tier"] == "thorough" { 120 } else { 10 };
    let step = (sk.len() / take).max(1);
    let chosen: Vec<Vec<Item>> = sk.iter().step_by(step).take(take).cloned().collect();
    let i = v["skeleton"].as_u64().unwrap_or(0) as usize;
    match chosen.get(i).map(|it| run_scope(i, it)) {
        Some(Ok(r)) => {
            let f = r["findings"].as_array().cloned().unwrap_or_default();
            for x in &f {
                println!("violated {}: {}", x["sig"], x["detail"].as_str().unwrap_or(""));
            }
            if f.is_empty() { 0 } else { 1 }
        }
        other => {
            println!("{other:?}");
            2
        }
    }
}

// ------------------------------------------------------------------------------------------ C06

/// (name, type, initialiser, expected pattern)
fn value_table() -> Vec<(&'static str, &'static str, &'static str, Value)> {
    let sc = |t: &str, v: &str| json!({"k":"scalar","t":t,"v":v});
    let mut t: Vec<(&'static str, &'static str, &'static str, Value)> = vec![
        ("i8_min", "i8", "-128", sc("i8", "-128")),
        ("i8_max", "i8", "127", sc("i8", "127")),
        ("u8_max", "u8", "255", sc("u8", "255")),
        ("i16_min", "i16", "-32768", sc("i16", "-32768")),
        ("u16_max", "u16", "65535", sc("u16", "65535")),
        ("i32_min", "i32", "-2147483648", sc("i32", "-2147483648")),
        ("u32_max", "u32", "4294967295", sc("u32", "4294967295")),
        ("i64_min", "i64", "-9223372036854775808", sc("i64", "-9223372036854775808")),
        ("i64_max", "i64", "9223372036854775807", sc("i64", "9223372036854775807")),
        ("u64_max", "u64", "18446744073709551615", sc("u64", "18446744073709551615")),
        ("i128_min", "i128", "-170141183460469231731687303715884105728", sc("i128", "-170141183460469231731687303715884105728")),
        ("u128_max", "u128", "340282366920938463463374607431768211455", sc("u128", "340282366920938463463374607431768211455")),
        ("isize_m1", "isize", "-1", sc("isize", "-1")),
        ("usize_max", "usize", "18446744073709551615", sc("usize", "18446744073709551615")),
        ("f32_v", "f32", "1.5", sc("f32", "1.5")),
        ("f64_v", "f64", "-2.25", sc("f64", "-2.25")),
        ("b_t", "bool", "true", json!({"k":"scalar","t":"bool","v":true})),
        ("b_f", "bool", "false", json!({"k":"scalar","t":"bool","v":false})),
        ("ch_a", "char", "'a'", sc("char", "a")),
        ("ch_u", "char", "'\\u{df}'", sc("char", "\u{df}")),
        ("ch_e", "char", "'\\u{1F600}'", sc("char", "\u{1F600}")),
        ("tup", "(u8, i64)", "(7, -9)", json!({"k":"struct","fields":[["__0",sc("u8","7")],["__1",sc("i64","-9")]]})),
        ("tup_n", "((u8, u16), u32)", "((1, 2), 3)", json!({"k":"struct","fields":[["__0",{"k":"struct","fields":[["__0",sc("u8","1")],["__1",sc("u16","2")]]}],["__1",sc("u32","3")]]})),
        ("st", "Pt", "Pt { a: 5, b: true }", json!({"k":"struct","t":"Pt","fields":[["a",sc("i32","5")],["b",{"k":"scalar","t":"bool","v":true}]]})),
        ("st_n", "Outer", "Outer { p: Pt { a: -1, b: false }, q: 9 }", json!({"k":"struct","t":"Outer","fields":[["p",{"k":"struct","t":"Pt","fields":[["a",sc("i32","-1")],["b",{"k":"scalar","t":"bool","v":false}]]}],["q",sc("u8","9")]]})),
        ("ce_a", "Color", "Color::Red", json!({"k":"cenum","v":"Red"})),
        ("ce_c", "Color", "Color::Blue", json!({"k":"cenum","v":"Blue"})),
        ("de_a", "Shape", "Shape::Circle(5)", json!({"k":"enum","variant":"Circle","value":{"k":"struct","fields":[["__0",sc("u32","5")]]}})),
        ("de_b", "Shape", "Shape::Rect { w: 2, h: 3 }", json!({"k":"enum","variant":"Rect","value":{"k":"struct","fields":[["w",sc("u16","2")],["h",sc("u16","3")]]}})),
        ("de_c", "Shape", "Shape::Empty", json!({"k":"enum","variant":"Empty"})),
        ("opt_u8_s", "Option<u8>", "Some(0)", json!({"k":"enum","variant":"Some","value":{"k":"struct","fields":[["__0",sc("u8","0")]]}})),
        ("opt_u8_n", "Option<u8>", "None", json!({"k":"enum","variant":"None"})),
        ("opt_nz_s", "Option<core::num::NonZeroU32>", "core::num::NonZeroU32::new(7)", json!({"k":"enum","variant":"Some"})),
        ("opt_nz_n", "Option<core::num::NonZeroU32>", "None", json!({"k":"enum","variant":"None"})),
        ("opt_ref_s", "Option<&u64>", "Some(&G64)", json!({"k":"enum","variant":"Some"})),
        ("opt_ref_n", "Option<&u64>", "None", json!({"k":"enum","variant":"None"})),
        ("arr", "[u16; 3]", "[1, 2, 3]", json!({"k":"array","items":[sc("u16","1"),sc("u16","2"),sc("u16","3")]})),
        ("arr2", "[[u8; 2]; 2]", "[[1, 2], [3, 4]]", json!({"k":"array","items":[{"k":"array","items":[sc("u8","1"),sc("u8","2")]},{"k":"array","items":[sc("u8","3"),sc("u8","4")]}]})),
        ("arr_e", "[u32; 0]", "[]", json!({"k":"array","items":[]})),
        ("s_hello", "&str", "\"h\\u{e9}llo\"", json!({"k":"str","v":"h\u{e9}llo"})),
        ("s_empty", "&str", "\"\"", json!({"k":"str","v":""})),
        ("r64", "&u64", "&G64", json!({"k":"pointer","nonnull":true,"deref":sc("u64","77")})),
        ("p64", "*const u64", "&raw const G64", json!({"k":"pointer","nonnull":true,"deref":sc("u64","77")})),
        ("pnull", "*const u8", "core::ptr::null()", json!({"k":"pointer","nonnull":false})),
    ];
    t.push(("unit_v", "()", "()", json!({"k":"scalar","t":"()","v":"()"})));
    t
}

fn matches(pat: &Value, got: &Value, path: &str, out: &mut Vec<String>) {
    if pat["k"] != got["k"] {
        out.push(format!("{path}: shown as {} , expected kind {}", got, pat["k"]));
        return;
    }
    match pat["k"].as_str().unwrap_or("") {
        "scalar" => {
            if pat["v"] != got["v"] {
                out.push(format!("{path}: value {} expected {}", got["v"], pat["v"]));
            }
            if pat.get("t").is_some() && pat["t"] != got["t"] {
                out.push(format!("{path}: type name {} expected {}", got["t"], pat["t"]));
            }
        }
        "struct" => {
            if let Some(t) = pat.get("t") {
                if got["t"] != *t {
                    out.push(format!("{path}: type name {} expected {t}", got["t"]));
                }
            }
            let pf = pat["fields"].as_array().cloned().unwrap_or_default();
            let gf = got["fields"].as_array().cloned().unwrap_or_default();
            if pf.len() != gf.len() {
                out.push(format!("{path}: {} fields shown, {} expected: {}", gf.len(), pf.len(), got));
                return;
            }
            for (p, g) in pf.iter().zip(gf.iter()) {
                if p[0] != g[0] {
                    out.push(format!("{path}: field {} expected {}", g[0], p[0]));
                }
                matches(&p[1], &g[1], &format!("{path}.{}", p[0].as_str().unwrap_or("?")), out);
            }
        }
        "array" => {
            let pi = pat["items"].as_array().cloned().unwrap_or_default();
            let gi = got["items"].as_array().cloned().unwrap_or_default();
            if pi.len() != gi.len() {
                out.push(format!("{path}: {} elements shown, {} expected", gi.len(), pi.len()));
                return;
            }
            for (i, (p, g)) in pi.iter().zip(gi.iter()).enumerate() {
                matches(p, g, &format!("{path}[{i}]"), out);
            }
        }
        "cenum" | "str" => {
            if pat["v"] != got["v"] {
                out.push(format!("{path}: {} expected {}", got["v"], pat["v"]));
            }
        }
        "enum" => {
            if pat["variant"] != got["variant"] {
                out.push(format!("{path}: variant {} expected {}", got["variant"], pat["variant"]));
            } else if pat.get("value").is_some() {
                matches(&pat["value"], &got["value"], &format!("{path}::{}", pat["variant"].as_str().unwrap_or("?")), out);
            }
        }
        "pointer" => {
            let nn = got["addr"].as_u64().map(|a| a != 0).unwrap_or(false);
            if pat["nonnull"].as_bool() != Some(nn) {
                out.push(format!("{path}: pointer {} expected non-null={}", got["addr"], pat["nonnull"]));
            }
        }
        _ => {}
    }
}

pub fn part_c06_core(tier: Tier) -> Part {
    let mut part = Part::new("core-type-values");
    let table = value_table();
    let mut f = String::new();
    f.push_str("#[derive(Clone, Copy)]\npub struct Pt {\n    a: i32,\n    b: bool,\n}\n#[derive(Clone, Copy)]\npub struct Outer {\n    p: Pt,\n    q: u8,\n}\n#[derive(Clone, Copy)]\npub enum Color {\n    Red,\n    Green,\n    Blue,\n}\n#[derive(Clone, Copy)]\npub enum Shape {\n    Circle(u32),\n    Rect { w: u16, h: u16 },\n    Empty,\n}\npub static G64: u64 = 77;\n#[inline(never)]\nfn vals(seed: u64) -> u64 {\n");
    for (n, ty, init, _) in &table {
        f.push_str(&format!("    let {n}: {ty} = core::hint::black_box({init});\n"));
    }
    f.push_str("    let mut acc = seed;\n");
    let stop_off = f.matches('\n').count() as u32 + 1;
    f.push_str("    acc = acc.wrapping_add(1);\n");
    for (n, _, _, _) in &table {
        f.push_str(&format!("    core::hint::black_box(&{n});\n"));
    }
    f.push_str("    acc\n}\n");
    let cfgs = match tier {
        Tier::Quick => vec![Config::default_cfg()],
        Tier::Thorough => vec![Config::default_cfg(), Config { toolchain: "stable".into(), opt: 0, dwarf: 5, pie: true }, Config { toolchain: "stable".into(), opt: 0, dwarf: 4, pie: true }],
    };
    part.bounds = json!({"variables": table.len(), "configurations": cfgs.iter().map(|c| c.tag()).collect::<Vec<_>>()});
    part.rule = "a generated function holds one local of every core (no_std) type form with boundary values: all integer widths and signs at min/max, floats, bools, chars (ASCII, 2-byte, 4-byte), unit, tuples, nested structs, C-like and data-carrying enums (tuple, struct and unit variants), Option<u8> / Option<NonZeroU32> / Option<&T> (niche encodings) in both variants, arrays (nested, empty), &str (non-ASCII, empty), references and raw pointers (non-null with dereference, null); every value the debugger shows (read_local_variables, converted to canonical JSON) must equal the table the program was generated from, scalar and user type names included".into();
    for cfg in &cfgs {
        let name = "p_values";
        let mut prog = corpus::generate_custom(name, &f, "    a = a.wrapping_add(vals(a));");
        let first = prog.lines.iter().find(|(_, m)| m == "custom.start").map(|(l, _)| *l).unwrap_or(1);
        prog.lines.retain(|(_, m)| m != "custom.start");
        let res = corpus::build(&prog, cfg).and_then(|b| prepare(vec![b]));
        let p = match res {
            Ok(mut v) => v.remove(0),
            Err(e) => {
                part.violate("C06:machinery:corpus", e, json!({}));
                part.exhaustive = false;
                continue;
            }
        };
        let mut job = init_json(&p, false);
        job["commands"] = json!([
            {"op":"break_line","file":p.built.program.src_file,"line":first + stop_off - 1},
            {"op":"start"},
            {"op":"values","names":[],"derefs":["r64","p64"],"frames":1},
            {"op":"continue"}
        ]);
        let replay = json!({"engine":"c06","config":cfg.tag()});
        match run_worker("e2e", &job, Duration::from_secs(120)) {
            WorkerOutcome::Ok(v) => {
                let fr = &v["obs"][2]["res"]["frames"][0];
                let shown: Vec<Value> = fr["locals"]["Ok"].as_array().cloned().unwrap_or_default();
                part.states += 1;
                if shown.is_empty() {
                    part.violate("C06:machinery:no-locals", format!("[{}] {}", p.name(), v["obs"][2]["res"]), replay.clone());
                    continue;
                }
                for (n, ty, _, pat) in &table {
                    part.evaluations += 1;
                    part.distinct_nontrivial += 1;
                    let Some(g) = shown.iter().find(|e| e["name"] == *n) else {
                        part.violate(format!("C06:value:not-shown:{}", kind_of(ty)), format!("[{}] local `{n}: {ty}` is not listed", p.name()), replay.clone());
                        continue;
                    };
                    let mut diffs = vec![];
                    matches(pat, &g["v"], n, &mut diffs);
                    if pat["k"] == "pointer" && pat.get("deref").is_some() {
                        let d = &fr["deref"][*n]["Ok"][0]["v"];
                        matches(&pat["deref"], d, &format!("*{n}"), &mut diffs);
                    }
                    for d in diffs {
                        let what = if d.contains("type name") { "type-name" } else { "value" };
                        part.violate(format!("C06:{what}:wrong:{}", kind_of(ty)), format!("[{}] `{n}: {ty}`: {d}", p.name()), replay.clone());
                    }
                }
                part.sample(json!({"config": cfg.tag(), "locals_shown": shown.len(), "example": shown.iter().find(|e| e["name"] == "de_b")}));
            }
            o => part.violate("C06:debugger-crashed-or-hung", format!("[{}] {o:?}", p.name()), replay),
        }
    }
    part.transitions = part.evaluations;
    part.traces_validated = part.states;
    part
}

fn kind_of(ty: &str) -> &'static str {
    if ty.starts_with("Option") {
        "option-niche"
    } else if ty.starts_with('[') {
        "array"
    } else if ty.starts_with('(') && ty != "()" {
        "tuple"
    } else if ty.starts_with('&') || ty.starts_with('*') {
        "pointer-or-str"
    } else if ["Pt", "Outer"].contains(&ty) {
        "struct"
    } else if ["Color", "Shape"].contains(&ty) {
        "enum"
    } else {
        "scalar"
    }
}

// ------------------------------------------------------------------------------------------ C07 (meaning)

/// (expression text, expected: Some(pattern) = exactly one result matching; None = no result)
fn dqe_table() -> Vec<(&'static str, Option<Value>)> {
    let sc = |t: &str, v: &str| json!({"k":"scalar","t":t,"v":v});
    let arr = |items: Vec<Value>| json!({"k":"array","items":items});
    vec![
        ("arr[0]", Some(sc("u16", "1"))),
        ("arr[2]", Some(sc("u16", "3"))),
        ("arr[3]", None),
        ("arr[1..3]", Some(arr(vec![sc("u16", "2"), sc("u16", "3")]))),
        ("arr[..2]", Some(arr(vec![sc("u16", "1"), sc("u16", "2")]))),
        ("arr[1..]", Some(arr(vec![sc("u16", "2"), sc("u16", "3")]))),
        ("arr[..]", Some(arr(vec![sc("u16", "1"), sc("u16", "2"), sc("u16", "3")]))),
        ("arr[0..1]", Some(arr(vec![sc("u16", "1")]))),
        ("arr2[1][0]", Some(sc("u8", "3"))),
        ("arr2[0][1]", Some(sc("u8", "2"))),
        ("arr2[1]", Some(arr(vec![sc("u8", "3"), sc("u8", "4")]))),
        ("st.a", Some(sc("i32", "5"))),
        ("st.b", Some(json!({"k":"scalar","t":"bool","v":true}))),
        ("st_n.p.a", Some(sc("i32", "-1"))),
        ("st_n.q", Some(sc("u8", "9"))),
        // tuple members carry the names __0, __1 in the debug information
        ("tup.__0", Some(sc("u8", "7"))),
        ("tup.__1", Some(sc("i64", "-9"))),
        ("tup_n.__0.__1", Some(sc("u16", "2"))),
        ("st.nosuch", None),
        ("tup.2", None),
        ("*r64", Some(sc("u64", "77"))),
        ("(*r64)", Some(sc("u64", "77"))),
        ("*p64", Some(sc("u64", "77"))),
        ("*&i8_min", Some(sc("i8", "-128"))),
        ("*&arr[1]", Some(sc("u16", "2"))),
        ("(*&arr)[2]", Some(sc("u16", "3"))),
        ("*&st.a", Some(sc("i32", "5"))),
        ("(*&st_n).p.b", Some(json!({"k":"scalar","t":"bool","v":false}))),
        ("**&r64", Some(sc("u64", "77"))),
        ("*i8_min", None),
        ("i8_min.x", None),
        ("i8_min[0]", None),
        ("*pnull", None),
        ("nosuchvar", None),
        ("arr[1].x", None),
    ]
}

pub fn part_c07_meaning(tier: Tier) -> Part {
    let mut part = Part::new("dqe-meaning-core-values");
    let table = dqe_table();
    part.bounds = json!({"expressions": table.len(), "operators": "field, tuple field, index, all four slice forms, deref, address-of, and their compositions up to depth 3"});
    part.rule = "data query expressions over the C06 panel of core-typed locals (array, nested array, struct, nested struct, tuples, reference, raw pointers, scalars): each text is parsed by the real parser and evaluated by read_variable; the result must be exactly the element / field / slice / pointee the documentation defines, or no result at all where the operator does not apply (out-of-range index, missing field, deref of a non-pointer or of null) - never a different value".into();
    let _ = tier;
    // reuse the C06 program
    let vt = value_table();
    let mut f = String::new();
    f.push_str("#[derive(Clone, Copy)]\npub struct Pt {\n    a: i32,\n    b: bool,\n}\n#[derive(Clone, Copy)]\npub struct Outer {\n    p: Pt,\n    q: u8,\n}\n#[derive(Clone, Copy)]\npub enum Color {\n    Red,\n    Green,\n    Blue,\n}\n#[derive(Clone, Copy)]\npub enum Shape {\n    Circle(u32),\n    Rect { w: u16, h: u16 },\n    Empty,\n}\npub static G64: u64 = 77;\n#[inline(never)]\nfn vals(seed: u64) -> u64 {\n");
    for (n, ty, init, _) in &vt {
        f.push_str(&format!("    let {n}: {ty} = core::hint::black_box({init});\n"));
    }
    f.push_str("    let mut acc = seed;\n");
    let stop_off = f.matches('\n').count() as u32 + 1;
    f.push_str("    acc = acc.wrapping_add(1);\n");
    for (n, _, _, _) in &vt {
        f.push_str(&format!("    core::hint::black_box(&{n});\n"));
    }
    f.push_str("    acc\n}\n");
    let mut prog = corpus::generate_custom("p_values", &f, "    a = a.wrapping_add(vals(a));");
    let first = prog.lines.iter().find(|(_, m)| m == "custom.start").map(|(l, _)| *l).unwrap_or(1);
    prog.lines.retain(|(_, m)| m != "custom.start");
    let p = match corpus::build(&prog, &Config::default_cfg()).and_then(|b| prepare(vec![b])) {
        Ok(mut v) => v.remove(0),
        Err(e) => {
            part.violate("C07:machinery:corpus", e, json!({}));
            part.exhaustive = false;
            return part;
        }
    };
    let mut job = init_json(&p, false);
    job["commands"] = json!([
        {"op":"break_line","file":p.built.program.src_file,"line":first + stop_off - 1},
        {"op":"start"},
        {"op":"dqe","exprs":table.iter().map(|(e, _)| e.to_string()).collect::<Vec<_>>()},
        {"op":"continue"}
    ]);
    let replay = json!({"engine":"c07-meaning"});
    match run_worker("e2e", &job, Duration::from_secs(120)) {
        WorkerOutcome::Ok(v) => {
            let res = &v["obs"][2]["res"]["results"];
            part.states = 1;
            for (e, want) in &table {
                part.evaluations += 1;
                part.distinct_nontrivial += 1;
                let r = &res[*e];
                let got: Vec<Value> = r["ok"].as_array().cloned().unwrap_or_default();
                match want {
                    Some(pat) => {
                        if r.get("parse_error").is_some() {
                            part.violate("C07:meaning:documented-expression-rejected", format!("`{e}` does not parse"), replay.clone());
                        } else if got.len() != 1 {
                            part.violate(format!("C07:meaning:{}-results", got.len()), format!("`{e}` gave {} results ({}), expected one", got.len(), r), replay.clone());
                        } else {
                            let mut diffs = vec![];
                            matches(pat, &got[0]["v"], e, &mut diffs);
                            for d in diffs {
                                let op = if e.contains("..") { "slice" } else if e.contains('[') { "index" } else if e.contains('*') { "deref" } else { "field" };
                                part.violate(format!("C07:meaning:wrong-result:{op}"), format!("`{e}`: {d}"), replay.clone());
                            }
                        }
                    }
                    None => {
                        // a value where the operator does not apply is a wrong answer
                        let real: Vec<&Value> = got.iter().filter(|g| !(g["v"]["k"] == "scalar" && g["v"]["v"].is_null()) && !(g["v"]["k"] == "array" && g["v"]["items"].as_array().map(|a| a.is_empty()).unwrap_or(true))).collect();
                        if !real.is_empty() {
                            part.violate("C07:meaning:result-where-operator-does-not-apply", format!("`{e}` gave {}", json!(real)), replay.clone());
                        }
                    }
                }
            }
            part.sample(json!({"expressions": table.iter().map(|(e, _)| *e).take(12).collect::<Vec<_>>()}));
        }
        o => part.violate("C07:debugger-crashed-or-hung", format!("{o:?}"), replay),
    }
    part.transitions = part.evaluations;
    part.traces_validated = part.states;
    part
}
