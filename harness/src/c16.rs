//! C16 — injected calls run once and leave no trace.

use crate::common::*;
use crate::corpus::{self, Config, Stmt};
use crate::e2x::*;
use rayon::prelude::*;
use serde_json::{Value, json};
use std::time::Duration;

fn job_for(p: &Prog, line: u32, full: bool) -> Value {
    let mut job = init_json(p, false);
    job["commands"] = json!([
        {"op":"break_line","file":p.built.program.src_file,"line":line},
        {"op":"start"},
        {"op":"c16_sweep","full":full},
        {"op":"remove_line","file":p.built.program.src_file,"line":line},
        {"op":"continue"}
    ]);
    job
}

pub fn part_sweep(tier: Tier) -> Part {
    let mut part = Part::new("call-injection-sweep");
    let full = tier == Tier::Thorough;
    part.rule = "at two stops (in main after the program's own calls, inside a callee) every call `c<k> args` for k = 0,1,2,3,6 with every argument tuple over the boundary values that fit the parameter types (ints 0, 1, -1, 255, 256, i64::MAX; bools; u8 0/1/255; u32 0/1/2^32-1; all 64 tuples over {0,-1} for six parameters) and `cp <address> k`, `cq k <address> <address>` with pointer parameters (addresses of two statics, which the functions read through) is injected through Debugger::call; after each: PTRACE_GETREGS incl. fs/gs base equal before/after, text equal, /proc/pid/maps equal, the function's own counter grew by exactly 1 and its argument checksum is the one of exactly these arguments; impossible calls (unknown function, wrong arity, string literal, swapped types, integer for a pointer, address for an integer) must fail with all of that unchanged; finally the program must print exactly the counters the memory held and its native result. Non-trivial = calls that ran".into();
    let cfgs = if full { vec![Config::default_cfg(), Config { toolchain: "stable".into(), opt: 0, dwarf: 5, pie: true }] } else { vec![Config::default_cfg()] };
    let progs = match corpus::build_many(&[vec![Stmt::CallTargets, Stmt::CallF]], &cfgs).and_then(prepare) {
        Ok(p) => p,
        Err(e) => {
            part.violate("C16:machinery:corpus", e, json!({}));
            part.exhaustive = false;
            return part;
        }
    };
    let jobs: Vec<(&Prog, u32)> = progs.iter().flat_map(|p| ["callf", "ff.2"].iter().filter_map(|m| p.line_of(m)).map(move |l| (p, l))).collect();
    part.bounds = json!({"programs": progs.len(), "stops": jobs.len()});
    let results: Vec<(&Prog, u32, WorkerOutcome)> = jobs.par_iter().map(|(p, l)| (*p, *l, run_worker("e2e", &job_for(p, *l, full), Duration::from_secs(300)))).collect();
    for (p, line, out) in results {
        let replay = json!({"engine":"c16","exe":p.built.exe,"line":line,"full":full});
        match out {
            WorkerOutcome::Ok(v) => {
                let obs = v["obs"].as_array().cloned().unwrap_or_default();
                let Some(sw) = obs.get(2).map(|o| o["res"].clone()) else {
                    part.violate("C16:machinery:no-sweep", format!("[{}] {v}", p.name()), replay);
                    continue;
                };
                if let Some(e) = sw["error"].as_str() {
                    part.violate("C16:machinery:sweep-error", format!("[{}] {e}", p.name()), replay.clone());
                    continue;
                }
                part.evaluations += sw["evaluations"].as_u64().unwrap_or(0);
                part.distinct_nontrivial += sw["nontrivial"].as_u64().unwrap_or(0);
                part.states += 1;
                for f in sw["findings"].as_array().cloned().unwrap_or_default() {
                    part.violate(f["sig"].as_str().unwrap_or("C16:?"), format!("[{}] stopped at line {line}: {}", p.name(), f["detail"].as_str().unwrap_or("")), replay.clone());
                }
                part.sample(json!({"program": p.name(), "stop_line": line, "calls": sw["samples"]}));
                // continuing afterwards: native behaviour + exactly the calls' side effects
                let last = obs.get(4).map(|o| o["res"].clone()).unwrap_or(Value::Null);
                let native_last = p.trace.stdout.lines().last().unwrap_or("");
                let want = format!("{}\n{}\n{}\n", sw["logn"].as_u64().unwrap_or(0), sw["logsum"].as_u64().unwrap_or(0), native_last);
                if last["kind"] != "exit" || last["code"].as_i64() != Some(p.trace.exit_code as i64) || v["stdout"].as_str() != Some(want.as_str()) {
                    part.violate("C16:program-behaviour-changed-after-calls", format!("[{}] after the calls continue gave {last}, stdout {:?}; expected exit {} and stdout {want:?}", p.name(), v["stdout"], p.trace.exit_code), replay);
                }
            }
            WorkerOutcome::Crashed { status, stderr, .. } => {
                let first = stderr.lines().find(|l| l.contains("panicked")).unwrap_or(stderr.lines().last().unwrap_or("")).to_string();
                part.violate("C16:debugger-crashed", format!("[{}] line {line}: {status}: {first}", p.name()), replay);
            }
            WorkerOutcome::Timeout { .. } => part.violate("C16:debugger-hung", format!("[{}] line {line}", p.name()), replay),
        }
    }
    part.transitions = part.evaluations;
    part.traces_validated = part.states;
    part
}

pub fn replay(v: &Value) -> i32 {
    let p = match load_prog(v["exe"].as_str().unwrap_or("")) {
        Ok(p) => p,
        Err(e) => {
            eprintln!("{e}");
            return 2;
        }
    };
    match run_worker("e2e", &job_for(&p, v["line"].as_u64().unwrap_or(0) as u32, v["full"].as_bool().unwrap_or(false)), Duration::from_secs(300)) {
        WorkerOutcome::Ok(r) => {
            let f = r["obs"][2]["res"]["findings"].as_array().cloned().unwrap_or_default();
            for x in &f {
                println!("violated {}: {}", x["sig"], x["detail"]);
            }
            if f.is_empty() { 0 } else { 1 }
        }
        o => {
            println!("{o:?}");
            1
        }
    }
}
