fn main() {
    // libthread_db calls back into ps_* symbols exported by the executable.
    println!("cargo:rustc-link-arg=-Wl,--export-dynamic");
}
