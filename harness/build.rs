fn main() {
    // libthread_db calls back into ps_* symbols exported by the executable.
    println!("cargo:rustc-link-arg=-Wl,--export-dynamic");
    // A non-PIE executable needs no load-time relocation (the PIE build has >100k), which
    // matters because every debugger session is a fresh exec of this binary.
    println!("cargo:rustc-link-arg=-no-pie");
}
