#!/bin/bash
# usage: reconfirm.sh <ID e.g. C03> <seed dir e.g. C03-1> "<demo command>"
# Re-creates the scratch worktree the demonstration expects (/tmp/seed/<ID>), applies the seeded
# patch, runs confirm_seed.sh (demo with/without patch + baseline suite) and removes the worktree.
ID=$1; DIR=$2; DEMO=$3
WT=/tmp/seed/$ID
mkdir -p /tmp/seed
git -C /repo worktree remove --force $WT 2>/dev/null
git -C /repo worktree add -q --detach $WT HEAD || exit 2
cp -a /repo/target $WT/target
ln -s /repo/examples/target $WT/examples/target
mkdir -p $WT/seed_out && cp -r /verif/seeded/$DIR/patch.diff /verif/seeded/$DIR/demo $WT/seed_out/
(cd $WT && git apply seed_out/patch.diff) || { echo "patch does not apply"; exit 2; }
nice -n 5 /verif/confirm_seed.sh $WT "$DEMO" 2>&1 | tee /verif/seeded/$DIR/confirm.log | grep -E "RESULT|baseline|exit="
git -C /repo worktree remove --force $WT; git -C /repo worktree prune
